#!/usr/bin/env python3
"""Driver:  verif.py <property id> [--tier quick|thorough] [--replay file]
exit 0 = held on everything explored; 1 = VIOLATION (confirmed natively, not a listed known finding); 2 = inconclusive."""
import os, sys, json, importlib, argparse
ROOT = os.path.dirname(os.path.abspath(__file__))
sys.path.insert(0, os.path.join(ROOT, 'checks')); sys.path.insert(0, os.path.join(ROOT, 'mirsym'))

def main():
    ap = argparse.ArgumentParser()
    ap.add_argument('pid'); ap.add_argument('--tier', default=os.environ.get('VERIF_TIER', 'quick'))
    ap.add_argument('--replay'); ap.add_argument('--keep', action='store_true')
    a = ap.parse_args()
    seed = int(os.environ.get('VERIF_SEED', '0') or 0)
    if a.replay:
        from framework import Oracle
        rp = json.load(open(a.replay))['replay']
        o = Oracle(); st, payload = o.ask(rp['op'], *rp['args']); o.close()
        print('native:', st, json.dumps(payload, ensure_ascii=False)[:800])
        sys.exit(1 if st == 'panic' or (isinstance(payload, dict) and payload.get('equal') is False) else 0)
    mod = importlib.import_module(a.pid.lower())
    import framework
    try:
        code = mod.main(a.tier, seed)
    finally:
        framework.cleanup_scratch()
    sys.exit(code)

if __name__ == '__main__':
    main()
