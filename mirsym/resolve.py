"""Call resolution: callee text (as printed in MIR) -> MIR body or std model."""
import re
from mirparse import strip_generics, split_top, find_matching
from tyunify import parse_ty, unify, strip_lifetimes, substitute_text, show as show_ty
from values import *

class Unresolved(Exception):
    pass

def split_path(text):
    """split a path at top-level '::' keeping <...> groups intact"""
    segs = []; cur = []; i = 0; n = len(text)
    while i < n:
        c = text[i]
        if c in '<([{':
            j = find_matching(text, i)
            cur.append(text[i:j + 1]); i = j + 1; continue
        if text.startswith('::', i):
            segs.append(''.join(cur)); cur = []; i += 2; continue
        cur.append(c); i += 1
    segs.append(''.join(cur))
    return [s for s in segs if s != '']

def parse_callee(text):
    text = strip_lifetimes(text).replace('::::', '::').replace('::<>', '')
    if text.startswith('<'):
        j = find_matching(text, 0)
        inner = text[1:j]; rest = text[j + 1:]
        # split inner at top-level ' as '
        depth = 0; k = None; i = 0
        while i < len(inner):
            c = inner[i]
            if c in '<([{': depth += 1
            elif c in ')]}': depth -= 1
            elif c == '>' and inner[i - 1] not in '-=': depth -= 1
            elif depth == 0 and inner.startswith(' as ', i): k = i; break
            i += 1
        if k is None: self_ty, trait = inner, None
        else: self_ty, trait = inner[:k], inner[k + 4:]
        segs = split_path(rest)
        # rest like '::method' or '::method::<G>' or '::method::{closure#0}'
        method = None; mgen = []
        names = []
        for s in segs:
            if s.startswith('<') and names:
                mgen = [x for x in split_top(s[1:-1]) if not x.startswith("'")]
            else:
                names.append(s)
        method = names[0] if names else None
        return dict(kind='qualified', self_ty=self_ty.strip(), trait=trait.strip() if trait else None, method=method,
                    mgen=mgen, extra=names[1:], text=text)
    segs = split_path(text)
    items = []     # (name, generics or None) ; '<impl T>' -> ('<impl>', T)
    for si_, s in enumerate(segs):
        if s.startswith('<impl ') and si_ != len(segs) - 1:
            items.append(('<impl>', s[6:-1]))
        elif s.startswith('<') and items:
            items[-1] = (items[-1][0], [x for x in split_top(s[1:-1]) if not x.startswith("'")])
        else:
            items.append((s, None))
    method, mgen = items[-1]
    owner = None; module = []
    if len(items) >= 2:
        pn, pg = items[-2]
        if pn == '<impl>':
            owner = pg; module = [x[0] for x in items[:-2]]
        elif pn[:1].isupper() or pn.startswith('{'):
            owner = pn + ('<' + ', '.join(pg) + '>' if pg else '')
            module = [x[0] for x in items[:-2]]
        else:
            module = [x[0] for x in items[:-1]]
    return dict(kind='path', owner=owner, module=module, method=method, mgen=mgen or [], text=text,
                owner_gen=(items[-2][1] if len(items) >= 2 and isinstance(items[-2][1], list) else []))

def rt_name(v):
    if isinstance(v, Ref): return rt_name(v.get())
    if isinstance(v, (Agg, Enum)): return v.ty
    if isinstance(v, RString): return 'String'
    if isinstance(v, Str): return 'str'
    if isinstance(v, RVec): return 'Vec'
    if isinstance(v, RSet): return 'HashSet'
    if isinstance(v, RBox): return 'Box'
    if isinstance(v, SliceRef): return '[]'
    return None

def base_of(interp, ty_text, src_file=None, depth=0):
    """outermost nominal type name, looking through references; type aliases are expanded only for text that
    comes from the source (impl headers) -- rustc prints MIR types with aliases already resolved"""
    if ty_text is None: return None
    t = parse_ty(ty_text)
    while t[0] in ('ref', 'ptr'): t = t[2]
    if t[0] == 'path':
        if src_file is not None and depth < 6:
            al = interp.prog.si.alias_for(t[1], src_file)
            if al is not None:
                return base_of(interp, al, src_file, depth + 1)
        return t[1]
    if t[0] == 'tuple': return '()'
    if t[0] in ('slice', 'array'): return '[]'
    if t[0] == 'opaque':
        m = re.match(r'^\{closure@', t[1])
        if m: return t[1]
    return None

def impl_base(interp, g):
    imp = interp.prog.impl_of.get(g.key)
    return base_of(interp, imp['self_ty'], imp['file'])

def affinity(qual_path, f):
    """number of module components shared between a qualified type path and the impl's file"""
    comps = set(qual_path.replace('<', '::').split('::')[:-1])
    m = re.search(r'<impl at ([^>:]*)', f.name)
    file_comps = set(re.split(r'[/.]', m.group(1))) if m else set(f.name.split('::'))
    return len(comps & file_comps)

def bind_generics(interp, f, info, arg_tys, dest_ty, self_text=None):
    prog = interp.prog
    gens = prog.generics_of.get(f.key, [])
    binding = {}
    imp = prog.impl_of.get(f.key)
    n_impl = len(imp['generics']) if imp else (1 if gens[:1] == ['Self'] else 0)
    fn_gens = gens[n_impl:]
    mgen = info.get('mgen') or []
    if mgen and len(mgen) == len(fn_gens):
        for g, a in zip(fn_gens, mgen): binding[g] = parse_ty(a)
    elif mgen and len(mgen) < len(fn_gens):
        # explicit generics first, anonymous impl-Trait ones after: bind what we can positionally
        for g, a in zip(fn_gens, mgen): binding[g] = parse_ty(a)
    if gens[:1] == ['Self'] and self_text:
        binding['Self'] = parse_ty(self_text)
    ok = True
    variables = set(gens)
    for (idx, pty), aty in zip(f.params, arg_tys):
        if aty is None: continue
        if not unify(parse_ty(pty), parse_ty(aty), variables, binding): ok = False
    if dest_ty is not None:
        if not unify(parse_ty(f.ret), parse_ty(dest_ty), variables, binding): ok = False
    return {k: show_ty(v) for k, v in binding.items()}, ok

def resolve_call(interp, text, args, arg_tys, dest_ty):
    prog = interp.prog
    rt0 = rt_name(args[0]) if args else None
    key = (text, rt0, tuple(arg_tys), dest_ty, args[0].dyn_ty if args and isinstance(args[0], DynRef) else None)
    hit = prog.resolve_cache.get(key)
    if hit is not None: return hit
    r = _resolve(interp, text, args, arg_tys, dest_ty, rt0)
    prog.resolve_cache[key] = r
    return r

def _resolve(interp, text, args, arg_tys, dest_ty, rt0):
    prog = interp.prog
    info = parse_callee(text)
    method = info['method']
    # user hooks first
    hk = interp.hooks.get(model_key(info))
    if hk is not None: return ('model', hk, info)
    if method is None: raise Unresolved(text)
    cands = prog.by_last.get(method, [])
    if info['kind'] == 'path':
        flat = strip_generics(info['text'])
        f = prog.fns.get(flat)
        if f is not None and f.kind == 'fn':
            return ('mir', f, bind_generics(interp, f, info, arg_tys, dest_ty)[0])
        if info['owner'] is None:
            # free function, maybe with a trimmed path
            opts = [g for g in cands if '<impl at' not in g.name and '{closure' not in g.name
                    and (strip_generics(g.name).endswith('::' + flat) or flat.endswith('::' + strip_generics(g.name)) or strip_generics(g.name) == flat)]
            if len(opts) == 1:
                return ('mir', opts[0], bind_generics(interp, opts[0], info, arg_tys, dest_ty)[0])
            return find_model(interp, info, text)
        obase = base_of(interp, info['owner'])
        opts = []
        for g in cands:
            imp = prog.impl_of.get(g.key)
            if imp is None or imp['trait'] is not None: continue
            if base_of(interp, imp['self_ty'], imp['file']) == obase: opts.append(g)
        if not opts:
            # trait provided method called through the trait path (Trait::method)
            opts2 = [g for g in cands if '<impl at' not in g.name and strip_generics(g.name).endswith(strip_generics(info['owner']) + '::' + method)]
            if len(opts2) == 1:
                st = arg_tys[0] if arg_tys else None
                return ('mir', opts2[0], bind_generics(interp, opts2[0], info, arg_tys, dest_ty, st)[0])
            return find_model(interp, info, text)
        return pick(interp, opts, info, args, arg_tys, dest_ty, '::'.join(info['module'] + [info['owner']]), text)
    # qualified: <X as Trait>::method
    X = info['self_ty']; trait = info['trait']
    if X is not None and X.startswith('dyn ') and args:
        # trait-object call: dispatch on the runtime type of the receiver
        a0 = args[0]; rt = None
        if isinstance(a0, DynRef): rt = a0.dyn_ty
        else:
            v0 = a0
            while isinstance(v0, (Ref, RBox)): v0 = v0.get() if isinstance(v0, Ref) else v0.cell[0]
            if isinstance(v0, (Agg, Enum)) and v0.ty not in ('tuple', 'array'): rt = v0.ty
        if rt is not None and not rt.startswith('dyn '):
            return _resolve(interp, '<%s as %s>::%s' % (rt, trait, method), args, arg_tys, dest_ty, rt0)
    if trait is None:
        # <X>::method  inherent on primitive / slice
        return find_model(interp, info, text)
    tbase = parse_ty(trait)
    tname = tbase[1] if tbase[0] == 'path' else trait
    if info['extra']:
        raise Unresolved(text)
    if tname == 'From' and tbase[0] == 'path' and len(tbase[3]) == 1:
        from tyunify import loosely_equal
        xt_ = parse_ty(X)
        if xt_[0] == 'path' and tbase[3][0][0] == 'path' and xt_[1] == tbase[3][0][1] and loosely_equal(xt_, tbase[3][0]) and loosely_equal(tbase[3][0], xt_):
            return ('model', lambda it, a, info_: a[0], info)       # std's reflexive `impl<T> From<T> for T`
    opts = []
    for g in cands:
        imp = prog.impl_of.get(g.key)
        if imp is None or imp['trait'] is None: continue
        it = parse_ty(imp['trait'])
        if it[0] == 'path' and it[1] == tname: opts.append(g)
    if opts:
        # 1. runtime type of the receiver
        chosen = None
        if rt0 is not None:
            rb = rt0.split('::')[-1] if not rt0.startswith('{') else rt0
            if rb == 'tuple': rb = '()'
            if rb == 'array': rb = '[]'
            byrt = [g for g in opts if impl_base(interp, g) == rb]
            if not byrt:      # self type written through an imported alias: fall back to the receiver type in the MIR signature
                byrt = [g for g in opts if g.params and base_of(interp, g.params[0][1]) == rb]
            if len(byrt) > 1:
                byrt = sorted(byrt, key=lambda g: -affinity(rt0, g))
                byrt = [g for g in byrt if affinity(rt0, g) == affinity(rt0, byrt[0])]
            if byrt: chosen = byrt
        if chosen is None:
            xb = base_of(interp, X)
            byx = [g for g in opts if impl_base(interp, g) == xb
                   or prog.impl_of[g.key]['self_ty'].startswith('$')]
            if byx: chosen = byx
        if chosen is None:
            # blanket impls (`impl<T> Trait for T`)
            blanket = [g for g in opts if prog.impl_of[g.key]['self_ty'] in prog.impl_of[g.key]['generics']]
            if blanket: chosen = blanket
        if chosen:
            return pick(interp, chosen, info, args, arg_tys, dest_ty, X, text)
    # trait provided (default) method with a MIR body
    prov = [g for g in cands if '<impl at' not in g.name and '{closure' not in g.name
            and re.search(r'(^|::)' + re.escape(tname) + '::' + re.escape(method) + '$', strip_generics(g.name))]
    if len(prov) == 1 and not has_std_model(interp, tname, method, args):
        xt = parse_ty(X)
        x_generic = X.startswith('impl ') or X == 'Self' or (xt[0] == 'path' and '::' not in xt[2] and not xt[3] and len(xt[1]) <= 2) or xt[0] == 'opaque'
        selfty = X
        if x_generic and rt0 and rt0 not in ('String', 'str', 'Vec', 'HashSet', 'Box', '[]'):
            selfty = '(String, String)' if rt0 == 'tuple' and args and tuple_of_strings(args[0]) else rt0
        return ('mir', prov[0], bind_generics(interp, prov[0], info, arg_tys, dest_ty, selfty)[0])
    return find_model(interp, info, text)

def tuple_of_strings(v):
    while isinstance(v, Ref): v = v.get()
    return isinstance(v, Agg) and v.ty == 'tuple' and all(isinstance(x, RString) for x in v.f)

def is_std_type(X, rt0):
    return rt0 in ('String', 'str', 'Vec', 'HashSet', 'Box', '[]')

def has_std_model(interp, tname, method, args):
    return False

def rt_matches(interp, v, t, src_file=None, depth=0):
    """can runtime value v have (source/MIR) type tree t?  unknown => True"""
    if depth > 4: return True
    if t[0] in ('ref', 'ptr'):
        if isinstance(v, Ref): return rt_matches(interp, v.get(), t[2], src_file, depth + 1)
        if isinstance(v, (Str, SliceRef)): return rt_matches(interp, v, t[2], src_file, depth + 1)
        if isinstance(v, (RString, RVec, RSet, RBox, Agg, Enum, int, float)): return False
        return True
    if t[0] == 'tuple':
        if isinstance(v, Agg) and v.ty == 'tuple':
            return len(v.f) == len(t[1]) and all(rt_matches(interp, x, y, src_file, depth + 1) for x, y in zip(v.f, t[1]))
        return v is UNIT and not t[1] if (v is UNIT or not t[1]) else False
    if t[0] == 'path':
        name = t[1]
        if src_file is not None:
            al = interp.prog.si.alias_for(name, src_file)
            if al is not None: return rt_matches(interp, v, parse_ty(al), src_file, depth + 1)
        if name == 'String': return isinstance(v, RString)
        if name == 'str': return isinstance(v, Str)
        if name == 'Vec': return isinstance(v, RVec)
        if name == 'HashSet': return isinstance(v, RSet)
        if name == 'Box': return isinstance(v, RBox)
        if name in ('usize', 'isize', 'u64', 'i64', 'u32', 'i32', 'u8', 'char'): return isinstance(v, int) and not isinstance(v, bool) or is_sym(v)
        if name in ('f64', 'f32'): return isinstance(v, float) or is_sym(v) or isinstance(v, SymReal)
        if name == 'bool': return isinstance(v, bool) or is_sym(v)
        if isinstance(v, (Agg, Enum)) and name[:1].isupper() and len(name) > 1:
            if v.ty in ('tuple', 'array'): return False
            return v.ty.split('::')[-1] == name or name in ('Self',)
    return True

def pick(interp, opts, info, args, arg_tys, dest_ty, qual, text):
    if len(opts) > 1:
        scored = []
        rt_ok = []
        for g in opts:
            imp = interp.prog.impl_of.get(g.key)
            ok2 = True
            if len(g.params) == len(args):
                variables = set(interp.prog.generics_of.get(g.key, []))
                for (idx, pty), v in zip(g.params, args):
                    pt = parse_ty(pty)
                    if pt[0] == 'path' and pt[2] in variables: continue
                    if not rt_matches(interp, v, pt, None): ok2 = False
                if imp is not None and imp.get('self_ty') and args and not imp['self_ty'].startswith('$'):
                    pass
            rt_ok.append(ok2)
        if any(rt_ok) and not all(rt_ok):
            opts = [g for g, k in zip(opts, rt_ok) if k]
            if len(opts) == 1:
                return ('mir', opts[0], bind_generics(interp, opts[0], info, arg_tys, dest_ty, info.get('self_ty'))[0])
        for g in opts:
            b, ok = bind_generics(interp, g, info, arg_tys, dest_ty)
            scored.append((ok, affinity(qual, g), -len(g.params) if len(g.params) != len(args) else 0, g, b))
        scored = [s for s in scored if len(s[3].params) == len(args)] or scored
        scored.sort(key=lambda s: (s[0], s[1]), reverse=True)
        if len(scored) > 1 and scored[0][:2] == scored[1][:2]:
            raise Unresolved('ambiguous call %s: %s' % (text[:120], [s[3].name[-60:] for s in scored[:3]]))
        return ('mir', scored[0][3], scored[0][4])
    g = opts[0]
    return ('mir', g, bind_generics(interp, g, info, arg_tys, dest_ty, info.get('self_ty'))[0])

def model_key(info):
    if info['kind'] == 'qualified':
        if info['trait']:
            t = parse_ty(info['trait'])
            tn = t[1] if t[0] == 'path' else info['trait']
            return tn + '::' + (info['method'] or '')
        s = info['self_ty']
        t = parse_ty(s)
        if t[0] == 'path': return t[1] + '::' + info['method']
        if t[0] in ('slice', 'array'): return 'slice::' + info['method']
        return s + '::' + info['method']
    if info['owner']:
        o = info['owner']
        if o.startswith('impl '): o = o[5:]
        t = parse_ty(o)
        on = t[1] if t[0] == 'path' else ('slice' if t[0] in ('slice', 'array') else strip_generics(o))
        return on + '::' + info['method']
    return info['method']

def find_model(interp, info, text):
    key = model_key(info)
    h = interp.models.get(key)
    if h is None:
        raise Unresolved('no MIR body and no model for `%s` (key %s)' % (text[:160], key))
    return ('model', h, info)
