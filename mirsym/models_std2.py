"""Second-generation std models (found missing by tools/stdprobe): registered last, override earlier entries."""
import re, math, functools
import z3
from values import *
from interp import RustPanic, Unsupported, do_binop, utf8_len, wrap_int, INT_TYS
from models import (model, MODELS, some, none, ok, err, ordering, deref, deref1, as_chars, as_items, truth, char_eq, chars_eq,
                    values_equal, set_contains, set_insert, call_closure_like, std_equal)
from models_str import char_pred, conc_len, byte_to_char_index, parse_int, parse_float
from models_iter import (PyIter, STOP, ListIter, RefIter, RangeIter, MapIter, iter_next, iter_back, to_iter, drain, drain_back, collect_into)
from models_coll import compare, compare_seq, range_bounds, small_value
from tyunify import parse_ty, show as show_ty

def S(s): return [ord(c) for c in s]
def pystr(v): return ''.join(chr(c) for c in as_chars(v))
def is_scalar(v): return isinstance(v, (int, float, bool)) or is_sym(v) or isinstance(v, SymReal)
def seqview(it, v):
    """(base list, lo, hi) of a Vec / slice / array value or reference"""
    return it.seq_items(deref(v) if not isinstance(v, SliceRef) else v)

# ------------------------------------------------------------------ ordering on any value
def _cmp_model(op):
    def f(it, a, info):
        x, y = deref(a[0]), deref(a[1])
        if isinstance(x, RBox): x = x.cell[0]
        if isinstance(y, RBox): y = y.cell[0]
        if is_scalar(x) and is_scalar(y): return do_binop(op, x, y, None)
        c = compare(it, x, y)
        if c is None: return False
        return {'Lt': c < 0, 'Le': c <= 0, 'Gt': c > 0, 'Ge': c >= 0}[op]
    return f
for _o, _n in (('Lt', 'lt'), ('Le', 'le'), ('Gt', 'gt'), ('Ge', 'ge')): model('PartialOrd::' + _n)(_cmp_model(_o))

@model('Ord::max', 'max', 'cmp::max')
def _(it, a, info):
    x, y = a[0], a[1]
    if is_scalar(x) and is_scalar(y): return y if truth(it, do_binop('Ge', y, x, None)) else x
    return y if compare(it, y, x) >= 0 else x
@model('Ord::min', 'min', 'cmp::min')
def _(it, a, info):
    x, y = a[0], a[1]
    if is_scalar(x) and is_scalar(y): return x if truth(it, do_binop('Le', x, y, None)) else y
    return x if compare(it, x, y) <= 0 else y
@model('Ord::clamp')
def _(it, a, info):
    x, lo, hi = a
    if compare(it, lo, hi) > 0: raise RustPanic('assertion failed: min <= max')
    return lo if compare(it, x, lo) < 0 else hi if compare(it, x, hi) > 0 else x
@model('max_by', 'min_by')
def _(it, a, info):
    r = call_closure_like(it, a[2], [Ref([a[0]], 0), Ref([a[1]], 0)]).variant
    if info['method'] == 'max_by': return a[0] if r == 'Greater' else a[1]
    return a[1] if r == 'Greater' else a[0]
@model('max_by_key', 'min_by_key')
def _(it, a, info):
    k0 = call_closure_like(it, a[2], [Ref([a[0]], 0)]); k1 = call_closure_like(it, a[2], [Ref([a[1]], 0)]); c = compare(it, k0, k1)
    if info['method'] == 'max_by_key': return a[0] if c > 0 else a[1]
    return a[1] if c > 0 else a[0]
OV = {'Less': -1, 'Equal': 0, 'Greater': 1}
@model('Ordering::then')
def _(it, a, info): return a[0] if a[0].variant != 'Equal' else a[1]
@model('Ordering::then_with')
def _(it, a, info): return a[0] if a[0].variant != 'Equal' else call_closure_like(it, a[1], [])
for _n, _f in (('is_eq', lambda c: c == 0), ('is_ne', lambda c: c != 0), ('is_lt', lambda c: c < 0), ('is_le', lambda c: c <= 0), ('is_gt', lambda c: c > 0), ('is_ge', lambda c: c >= 0)):
    model('Ordering::' + _n)((lambda f: lambda it, a, info: f(OV[deref(a[0]).variant]))(_f))
@model('discriminant')
def _(it, a, info):
    v = deref(a[0]); return Agg('Discriminant', [v.idx if isinstance(v, Enum) else 0])

# ------------------------------------------------------------------ operators through references / traits
_BIN = {'Add::add': 'Add', 'Sub::sub': 'Sub', 'Mul::mul': 'Mul', 'Div::div': 'Div', 'Rem::rem': 'Rem', 'BitAnd::bitand': 'BitAnd', 'BitOr::bitor': 'BitOr',
        'BitXor::bitxor': 'BitXor', 'Shl::shl': 'Shl', 'Shr::shr': 'Shr'}
def scalar_ty(info):
    st = (info.get('self_ty') or '').replace('&', '').replace('mut ', '').strip()
    return st if st in INT_TYS or st in ('f64', 'f32') else None
def checked_arith(it, op, x, y, ty):
    if ty in INT_TYS and op in ('Add', 'Sub', 'Mul'):
        r = do_binop(op + 'WithOverflow', x, y, ty)
        if truth(it, r.f[1]): raise RustPanic('attempt to %s with overflow' % op.lower())
        return r.f[0]
    if ty in INT_TYS and op in ('Div', 'Rem'):
        if truth(it, do_binop('Eq', y, 0, ty)): raise RustPanic('attempt to divide by zero' if op == 'Div' else 'attempt to calculate the remainder with a divisor of zero')
    return do_binop(op, x, y, ty)
def _binop_model(op):
    def f(it, a, info):
        x, y = deref(a[0]), deref(a[1]); ty = scalar_ty(info)
        if isinstance(x, (Str, RString)) and op == 'Add': return RString(list(x.ch) + as_chars(y))
        if not (is_scalar(x) and is_scalar(y)): raise Unsupported('operator %s on %r' % (op, x))
        return checked_arith(it, op, x, y, ty)
    return f
for _k, _o in _BIN.items(): model(_k)(_binop_model(_o))
def _assign_model(op):
    def f(it, a, info):
        r = a[0]; x = deref(r); y = deref(a[1]); ty = scalar_ty(info)
        if isinstance(x, RString) and op == 'Add': x.ch.extend(as_chars(y)); return UNIT
        cell = r
        while isinstance(cell.get(), Ref): cell = cell.get()
        cell.set(checked_arith(it, op, x, y, ty)); return UNIT
    return f
for _k, _o in _BIN.items():
    tr, m = _k.split('::'); model(tr + 'Assign::' + m + '_assign')(_assign_model(_o))
@model('Neg::neg')
def _(it, a, info):
    x = deref(a[0]); ty = scalar_ty(info)
    if isinstance(x, float): return -x
    if is_sym(x) and z3.is_fp(x): return z3.fpNeg(x)
    if ty in INT_TYS: return checked_arith(it, 'Sub', 0, x, ty)
    return -x
@model('Not::not')
def _(it, a, info):
    x = deref(a[0]); ty = scalar_ty(info)
    if isinstance(x, bool): return not x
    if is_sym(x): return z3.Not(x) if z3.is_bool(x) else ~x
    bits, signed = INT_TYS.get(ty, (64, False))
    return wrap_int(~x, (bits, signed))

# ------------------------------------------------------------------ integers
def _int_models(n):
    bits, signed = INT_TYS[n]
    lo = -(1 << (bits - 1)) if signed else 0; hi = (1 << (bits - (1 if signed else 0))) - 1
    def conc(*xs):
        if any(is_sym(x) for x in xs): raise Unsupported('symbolic ' + n + ' method')
    def reg(name):
        def deco(f): model(n + '::' + name)(f); return f
        return deco
    fits = lambda v: lo <= v <= hi
    @reg('abs')
    def _(it, a, info):
        x = a[0]
        if is_sym(x):
            if truth(it, do_binop('Eq', x, lo, n)): raise RustPanic('attempt to negate with overflow')
            return z3.If(x < 0, -x, x)
        if x == lo and signed: raise RustPanic('attempt to negate with overflow')
        return abs(x)
    @reg('unsigned_abs')
    def _(it, a, info): conc(a[0]); return abs(a[0])
    @reg('signum')
    def _(it, a, info): conc(a[0]); return (a[0] > 0) - (a[0] < 0)
    @reg('is_positive')
    def _(it, a, info): return do_binop('Gt', a[0], 0, n)
    @reg('is_negative')
    def _(it, a, info): return do_binop('Lt', a[0], 0, n)
    @reg('pow')
    def _(it, a, info):
        conc(*a); v = a[0] ** a[1]
        if not fits(v): raise RustPanic('attempt to multiply with overflow')
        return v
    @reg('checked_pow')
    def _(it, a, info): conc(*a); v = a[0] ** a[1]; return some(v) if fits(v) else none()
    @reg('saturating_pow')
    def _(it, a, info): conc(*a); v = a[0] ** a[1]; return min(max(v, lo), hi)
    @reg('wrapping_pow')
    def _(it, a, info): conc(*a); return wrap_int(a[0] ** a[1], (bits, signed))
    def tdiv(x, y): q = abs(x) // abs(y); return q if (x < 0) == (y < 0) else -q
    @reg('checked_div')
    def _(it, a, info):
        conc(*a)
        if a[1] == 0: return none()
        v = tdiv(a[0], a[1]); return some(v) if fits(v) else none()
    @reg('checked_rem')
    def _(it, a, info):
        conc(*a)
        if a[1] == 0 or (signed and a[0] == lo and a[1] == -1): return none()
        return some(a[0] - tdiv(a[0], a[1]) * a[1])
    @reg('checked_neg')
    def _(it, a, info): conc(a[0]); return some(-a[0]) if fits(-a[0]) else none()
    @reg('wrapping_neg')
    def _(it, a, info): conc(a[0]); return wrap_int(-a[0], (bits, signed))
    @reg('checked_abs')
    def _(it, a, info): conc(a[0]); return some(abs(a[0])) if fits(abs(a[0])) else none()
    @reg('saturating_mul')
    def _(it, a, info): conc(*a); return min(max(a[0] * a[1], lo), hi)
    @reg('rem_euclid')
    def _(it, a, info):
        conc(*a)
        if a[1] == 0: raise RustPanic('attempt to calculate the remainder with a divisor of zero')
        return a[0] % abs(a[1])
    @reg('div_euclid')
    def _(it, a, info):
        conc(*a)
        if a[1] == 0: raise RustPanic('attempt to divide by zero')
        r = a[0] % abs(a[1]); return (a[0] - r) // a[1]
    @reg('abs_diff')
    def _(it, a, info): conc(*a); return abs(a[0] - a[1])
    @reg('min')
    def _(it, a, info): return a[0] if truth(it, do_binop('Le', a[0], a[1], n)) else a[1]
    @reg('max')
    def _(it, a, info): return a[1] if truth(it, do_binop('Ge', a[1], a[0], n)) else a[0]
    @reg('clamp')
    def _(it, a, info):
        if truth(it, do_binop('Gt', a[1], a[2], n)): raise RustPanic('assertion failed: min <= max')
        return a[1] if truth(it, do_binop('Lt', a[0], a[1], n)) else a[2] if truth(it, do_binop('Gt', a[0], a[2], n)) else a[0]
    for nm in ('overflowing_add', 'overflowing_sub', 'overflowing_mul'):
        def ov(it, a, info, op={'overflowing_add': 'Add', 'overflowing_sub': 'Sub', 'overflowing_mul': 'Mul'}[nm]):
            r = do_binop(op + 'WithOverflow', a[0], a[1], n); return Agg('tuple', [r.f[0], r.f[1]])
        reg(nm)(ov)
    @reg('count_ones')
    def _(it, a, info): conc(a[0]); return bin(a[0] & ((1 << bits) - 1)).count('1')
    @reg('count_zeros')
    def _(it, a, info): conc(a[0]); return bits - bin(a[0] & ((1 << bits) - 1)).count('1')
    @reg('leading_zeros')
    def _(it, a, info): conc(a[0]); return bits - (a[0] & ((1 << bits) - 1)).bit_length()
    @reg('trailing_zeros')
    def _(it, a, info):
        conc(a[0]); u = a[0] & ((1 << bits) - 1)
        return bits if u == 0 else (u & -u).bit_length() - 1
    @reg('is_power_of_two')
    def _(it, a, info): conc(a[0]); return a[0] > 0 and a[0] & (a[0] - 1) == 0
    @reg('next_power_of_two')
    def _(it, a, info): conc(a[0]); return 1 if a[0] <= 1 else 1 << (a[0] - 1).bit_length()
    @reg('isqrt')
    def _(it, a, info): conc(a[0]); return math.isqrt(a[0])
    @reg('ilog10')
    def _(it, a, info): conc(a[0]); return len(str(a[0])) - 1
    @reg('ilog2')
    def _(it, a, info): conc(a[0]); return a[0].bit_length() - 1
    @reg('swap_bytes')
    def _(it, a, info): conc(a[0]); return wrap_int(int.from_bytes((a[0] & ((1 << bits) - 1)).to_bytes(bits // 8, 'little'), 'big'), (bits, signed))
    @reg('to_string')
    def _(it, a, info): conc(a[0]); return RString(S(str(a[0])))
    @reg('from_str_radix')
    def _(it, a, info):
        ch = as_chars(a[0]); radix = a[1]
        if radix == 10: return parse_int(it, ch, n)
        if not all(isinstance(c, int) for c in ch): raise Unsupported('from_str_radix on symbolic text')
        t = ''.join(map(chr, ch))
        if not t: return err(Opaque('ParseIntError', 'Empty'))
        neg = False; body = t
        if t[0] == '+' or (t[0] == '-' and signed): neg = t[0] == '-'; body = t[1:]
        if not body or not all(c.isascii() and c.isalnum() and int(c, 36) < radix for c in body): return err(Opaque('ParseIntError', 'InvalidDigit'))
        v = int(body, radix) * (-1 if neg else 1)
        if v < lo: return err(Opaque('ParseIntError', 'NegOverflow'))
        if v > hi: return err(Opaque('ParseIntError', 'PosOverflow'))
        return ok(v)
for _n in INT_TYS: _int_models(_n)

def int_range(ty):
    bits, signed = INT_TYS[ty]
    return (-(1 << (bits - 1)) if signed else 0), (1 << (bits - (1 if signed else 0))) - 1
def try_conv(it, v, src, dst):
    """TryFrom between scalar types -> Result"""
    src = (src or '').strip(); dst = (dst or '').strip()
    if dst == 'char':
        if is_sym(v): raise Unsupported('char::try_from symbolic')
        if src == 'u8' or (0 <= v < 0xD800 or 0xE000 <= v < 0x110000): return ok(v)
        return err(Opaque('CharTryFromError', None))
    if dst in INT_TYS:
        lo, hi = int_range(dst)
        if src == 'char' and dst != 'u8' and hi >= 0x10FFFF: return ok(v)
        if is_sym(v):
            sb = v.size(); sinfo = INT_TYS.get(src, (sb, False))
            inr = z3.And(v >= lo if sinfo[1] else z3.BoolVal(True), (v <= hi if sinfo[1] else z3.ULE(v, hi)) if hi < (1 << (sb - (1 if sinfo[1] else 0))) else z3.BoolVal(True))
            if lo == 0 and sinfo[1]: inr = z3.And(v >= 0, inr)
            if not truth(it, inr): return err(Opaque('TryFromIntError', None))
            db = INT_TYS[dst][0]
            return ok(v if db == sb else z3.Extract(db - 1, 0, v) if db < sb else (z3.SignExt(db - sb, v) if sinfo[1] else z3.ZeroExt(db - sb, v)))
        return ok(v) if lo <= v <= hi else err(Opaque('TryFromIntError' if src != 'char' else 'TryFromCharError', None))
    raise Unsupported('TryFrom<%s> for %s' % (src, dst))
@model('TryFrom::try_from')
def _(it, a, info):
    tr = parse_ty(info.get('trait') or ''); src = show_ty(tr[3][0]) if tr[0] == 'path' and tr[3] else None
    if is_scalar(a[0]): return try_conv(it, a[0], src, info.get('self_ty'))
    dst = parse_ty(info.get('self_ty') or '')
    if dst[0] == 'array':                      # <[T; N] as TryFrom<Vec<T>/&[T]>>
        items = as_items(a[0]); n = int(dst[2]) if dst[2].isdigit() else None
        if n is not None and len(items) == n: return ok(Agg('array', [deep_copy(deref1(x)) for x in items]))
        return err(a[0] if isinstance(a[0], RVec) else Opaque('TryFromSliceError', None))
    raise Unsupported('TryFrom for ' + str(info.get('self_ty')))
@model('TryInto::try_into')
def _(it, a, info):
    tr = parse_ty(info.get('trait') or ''); dst = show_ty(tr[3][0]) if tr[0] == 'path' and tr[3] else None
    if is_scalar(a[0]): return try_conv(it, a[0], info.get('self_ty'), dst)
    raise Unsupported('TryInto for ' + str(info.get('self_ty')))
@model('char::from_u32')
def _(it, a, info):
    v = a[0]
    if is_sym(v):
        okc = z3.Or(z3.ULT(v, 0xD800), z3.And(z3.UGE(v, 0xE000), z3.ULT(v, 0x110000)))
        return some(v) if truth(it, okc) else none()
    return some(v) if (0 <= v < 0xD800 or 0xE000 <= v < 0x110000) else none()
@model('char::from_digit')
def _(it, a, info):
    d, r = a[0], a[1]
    if is_sym(d) or is_sym(r): raise Unsupported('from_digit symbolic')
    if r > 36: raise RustPanic('from_digit: radix is too high (maximum 36)')
    if d >= r: return none()
    return some(48 + d if d < 10 else 97 + d - 10)
@model('char::to_digit')
def _(it, a, info):
    c, r = a[0], a[1]
    if is_sym(r): raise Unsupported('to_digit radix')
    if r < 2 or r > 36: raise RustPanic('to_digit: invalid radix -- radix must be in the range 2 to 36 inclusive')
    if is_sym(c):
        nd = min(r, 10)
        if truth(it, z3.And(z3.UGE(c, 48), z3.ULT(c, 48 + nd))): return some(c - 48)
        if r > 10:
            if truth(it, z3.And(z3.UGE(c, 97), z3.ULT(c, 97 + r - 10))): return some(c - 87)
            if truth(it, z3.And(z3.UGE(c, 65), z3.ULT(c, 65 + r - 10))): return some(c - 55)
        return none()
    d = c - 48 if 48 <= c <= 57 else (c | 32) - 87 if 97 <= (c | 32) <= 122 else 99
    return some(d) if d < r else none()
@model('char::is_digit')
def _(it, a, info): return MODELS['char::to_digit'](it, a, info).variant == 'Some'

# ------------------------------------------------------------------ floats
RNE = z3.RNE()
def fsym(x): return is_sym(x) and z3.is_fp(x)
def fp(x): return x if fsym(x) else z3.FPVal(x, z3.Float64())
def _freg(name):
    def deco(f): model('f64::' + name)(f); model('f32::' + name)(f); return f
    return deco
def nosymreal(*xs):
    if any(isinstance(x, SymReal) for x in xs): raise Unsupported('float method on a symbolic decimal literal')
@_freg('is_nan')
def _(it, a, info):
    x = a[0]
    if isinstance(x, SymReal): return False
    return z3.fpIsNaN(x) if fsym(x) else x != x
@_freg('is_finite')
def _(it, a, info):
    x = a[0]
    if isinstance(x, SymReal): return True
    return z3.Not(z3.Or(z3.fpIsNaN(x), z3.fpIsInf(x))) if fsym(x) else not (x != x or math.isinf(x))
@_freg('is_infinite')
def _(it, a, info):
    x = a[0]
    if isinstance(x, SymReal): return False
    return z3.fpIsInf(x) if fsym(x) else math.isinf(x)
@_freg('is_sign_negative')
def _(it, a, info):
    x = a[0]
    if isinstance(x, SymReal): return x.neg
    return z3.fpIsNegative(x) if fsym(x) else math.copysign(1, x) < 0
@_freg('is_sign_positive')
def _(it, a, info):
    x = a[0]
    if isinstance(x, SymReal): return not x.neg
    return z3.fpIsPositive(x) if fsym(x) else math.copysign(1, x) > 0
@_freg('abs')
def _(it, a, info): nosymreal(a[0]); return z3.fpAbs(a[0]) if fsym(a[0]) else abs(a[0])
def _round(mode, pyf):
    def f(it, a, info):
        nosymreal(a[0]); x = a[0]
        if fsym(x): return z3.fpRoundToIntegral(mode, x)
        if x != x or math.isinf(x): return x
        r = float(pyf(x)); return math.copysign(r, x) if r == 0 else r
    return f
_freg('floor')(_round(z3.RTN(), math.floor)); _freg('ceil')(_round(z3.RTP(), math.ceil)); _freg('trunc')(_round(z3.RTZ(), math.trunc))
_freg('round')(_round(z3.RNA(), lambda x: math.floor(abs(x) + 0.5) * (1 if x >= 0 else -1) if abs(x) < 2 ** 52 else x))
_freg('round_ties_even')(_round(z3.RNE(), round))
@_freg('fract')
def _(it, a, info):
    nosymreal(a[0]); x = a[0]
    if fsym(x): return z3.fpSub(RNE, x, z3.fpRoundToIntegral(z3.RTZ(), x))
    return x - math.trunc(x) if not (x != x or math.isinf(x)) else float('nan')
@_freg('sqrt')
def _(it, a, info):
    nosymreal(a[0]); x = a[0]
    if fsym(x): return z3.fpSqrt(RNE, x)
    return math.sqrt(x) if x >= 0 else (x if x == 0 else float('nan'))
def _minmax(is_max):
    def f(it, a, info):
        nosymreal(*a); x, y = a[0], a[1]
        if fsym(x) or fsym(y): return (z3.fpMax if is_max else z3.fpMin)(fp(x), fp(y))
        if x != x: return y
        if y != y: return x
        return max(x, y) if is_max else min(x, y)
    return f
_freg('max')(_minmax(True)); _freg('min')(_minmax(False))
@_freg('clamp')
def _(it, a, info):
    nosymreal(*a); x, lo, hi = a
    if any(fsym(v) for v in a):
        if not truth(it, z3.fpLEQ(fp(lo), fp(hi))): raise RustPanic('min > max, or either was NaN')
        x = fp(x); return z3.If(z3.fpLT(x, fp(lo)), fp(lo), z3.If(z3.fpGT(x, fp(hi)), fp(hi), x))
    if not lo <= hi: raise RustPanic('min > max, or either was NaN')
    return lo if x < lo else hi if x > hi else x
@_freg('signum')
def _(it, a, info):
    nosymreal(a[0]); x = a[0]
    if fsym(x): return z3.If(z3.fpIsNaN(x), x, z3.If(z3.fpIsNegative(x), z3.FPVal(-1.0, z3.Float64()), z3.FPVal(1.0, z3.Float64())))
    return x if x != x else math.copysign(1.0, x)
@_freg('copysign')
def _(it, a, info):
    nosymreal(*a)
    if fsym(a[0]) or fsym(a[1]): raise Unsupported('copysign symbolic')
    return math.copysign(a[0], a[1])
@_freg('mul_add')
def _(it, a, info):
    nosymreal(*a)
    if any(fsym(v) for v in a): return z3.fpFMA(RNE, fp(a[0]), fp(a[1]), fp(a[2]))
    from fractions import Fraction
    try: return float(Fraction(a[0]) * Fraction(a[1]) + Fraction(a[2]))
    except (ValueError, OverflowError): return a[0] * a[1] + a[2]
@_freg('powi')
def _(it, a, info):
    nosymreal(a[0])
    if fsym(a[0]) or is_sym(a[1]): raise Unsupported('powi symbolic')
    try: return float(a[0]) ** a[1]
    except ZeroDivisionError: return float('inf')
    except OverflowError: return float('inf')
@model('f64::to_bits')
def _(it, a, info):
    import struct
    nosymreal(a[0]); x = a[0]
    if fsym(x):
        if truth(it, z3.fpIsNaN(x)): raise Unsupported('to_bits of a symbolic NaN')
        return z3.fpToIEEEBV(x)
    return struct.unpack('<Q', struct.pack('<d', x))[0]
@model('f64::from_bits')
def _(it, a, info):
    import struct
    if is_sym(a[0]): return z3.fpBVToFP(a[0], z3.Float64())
    return struct.unpack('<d', struct.pack('<Q', a[0]))[0]
@_freg('total_cmp')
def _(it, a, info):
    import struct
    x, y = deref(a[0]), deref(a[1]); nosymreal(x, y)
    if fsym(x) or fsym(y): raise Unsupported('total_cmp symbolic')
    def key(v):
        b = struct.unpack('<q', struct.pack('<d', v))[0]
        return b ^ (((b >> 63) & 0xFFFFFFFFFFFFFFFF) >> 1) if b < 0 else b
    kx, ky = key(x), key(y)
    kx = kx - (1 << 64) if kx >= (1 << 63) else kx; ky = ky - (1 << 64) if ky >= (1 << 63) else ky
    return ordering((kx > ky) - (kx < ky))
@_freg('to_string')
def _(it, a, info):
    from models_fmt import fmt_float, DEFAULT
    return RString(fmt_float(a[0], 'display', DEFAULT))

# ------------------------------------------------------------------ chars
def _ascii_class(name, ranges):
    def f(it, a, info):
        c = deref(a[0])
        if isinstance(c, int): return any(lo <= c <= hi for lo, hi in ranges)
        parts = [z3.And(z3.UGE(c, lo), z3.ULE(c, hi)) if lo != hi else c == lo for lo, hi in ranges]
        return z3.Or(*parts) if len(parts) > 1 else parts[0]
    model('char::' + name)(f); model('u8::' + name)(f)
_ascii_class('is_ascii_lowercase', [(97, 122)]); _ascii_class('is_ascii_uppercase', [(65, 90)])
_ascii_class('is_ascii_punctuation', [(33, 47), (58, 64), (91, 96), (123, 126)]); _ascii_class('is_ascii_hexdigit', [(48, 57), (65, 70), (97, 102)])
_ascii_class('is_ascii_graphic', [(33, 126)]); _ascii_class('is_ascii_control', [(0, 31), (127, 127)]); _ascii_class('is_ascii_octdigit', [(48, 55)])
_ascii_class('is_ascii_digit', [(48, 57)]); _ascii_class('is_ascii_alphabetic', [(65, 90), (97, 122)]); _ascii_class('is_ascii_alphanumeric', [(48, 57), (65, 90), (97, 122)])
_ascii_class('is_ascii_whitespace', [(9, 10), (12, 13), (32, 32)]); _ascii_class('is_ascii', [(0, 127)])
def ascii_up(c):
    if isinstance(c, int): return c - 32 if 97 <= c <= 122 else c
    return z3.If(z3.And(z3.UGE(c, 97), z3.ULE(c, 122)), c - 32, c)
def ascii_low(c):
    if isinstance(c, int): return c + 32 if 65 <= c <= 90 else c
    return z3.If(z3.And(z3.UGE(c, 65), z3.ULE(c, 90)), c + 32, c)
@model('char::to_ascii_uppercase', 'u8::to_ascii_uppercase')
def _(it, a, info): return ascii_up(deref(a[0]))
@model('char::to_ascii_lowercase', 'u8::to_ascii_lowercase')
def _(it, a, info): return ascii_low(deref(a[0]))
@model('char::make_ascii_uppercase', 'char::make_ascii_lowercase')
def _(it, a, info):
    r = a[0]; r.set((ascii_up if 'upper' in info['method'] else ascii_low)(r.get())); return UNIT
@model('char::eq_ignore_ascii_case', 'u8::eq_ignore_ascii_case')
def _(it, a, info): return char_eq(ascii_low(deref(a[0])), ascii_low(deref(a[1])))
def case_map(it, c, upper):
    if not isinstance(c, int):
        if truth(it, z3.ULT(c, 128)): return [ascii_up(c) if upper else ascii_low(c)]
        raise Unsupported('case mapping of a symbolic non-ASCII char')
    s = chr(c).upper() if upper else chr(c).lower()
    return [ord(x) for x in s]
@model('char::to_uppercase')
def _(it, a, info): return ListIter(case_map(it, a[0], True))
@model('char::to_lowercase')
def _(it, a, info): return ListIter(case_map(it, a[0], False))
@model('str::to_uppercase', 'str::to_lowercase')
def _(it, a, info):
    ch = as_chars(a[0]); up = info['method'] == 'to_uppercase'
    if all(isinstance(c, int) for c in ch):
        s = ''.join(map(chr, ch)); return RString(S(s.upper() if up else s.lower()))
    return RString([x for c in ch for x in case_map(it, c, up)])
@model('str::to_ascii_uppercase', 'str::to_ascii_lowercase')
def _(it, a, info): return RString([(ascii_up if 'upper' in info['method'] else ascii_low)(c) for c in as_chars(a[0])])
@model('str::make_ascii_uppercase', 'str::make_ascii_lowercase', 'String::make_ascii_uppercase', 'String::make_ascii_lowercase')
def _(it, a, info):
    s = deref(a[0]); s.ch[:] = [(ascii_up if 'upper' in info['method'] else ascii_low)(c) for c in s.ch]; return UNIT
@model('str::eq_ignore_ascii_case')
def _(it, a, info): return chars_eq(it, [ascii_low(c) for c in as_chars(a[0])], [ascii_low(c) for c in as_chars(a[1])])
@model('str::is_ascii')
def _(it, a, info):
    for c in as_chars(a[0]):
        if not truth(it, c < 128 if isinstance(c, int) else z3.ULT(c, 128)): return False
    return True
@model('char::is_alphabetic', 'char::is_numeric', 'char::is_alphanumeric', 'char::is_whitespace', 'char::is_lowercase', 'char::is_uppercase', 'char::is_control')
def _(it, a, info): return char_pred(info['method'], deref(a[0]))
@model('char::len_utf16')
def _(it, a, info):
    c = a[0]
    return (1 if c < 0x10000 else 2) if isinstance(c, int) else z3.If(z3.ULT(c, 0x10000), z3.BitVecVal(1, 64), z3.BitVecVal(2, 64))
@model('char::to_string')
def _(it, a, info): return RString([deref(a[0])])
@model('char::is_ascii_char')
def _(it, a, info): return MODELS['char::is_ascii'](it, a, info)

# ------------------------------------------------------------------ Option / Result extras
def default_of(it, ty):
    t = parse_ty(ty) if isinstance(ty, str) else ty
    if t is None: raise Unsupported('Default of unknown type')
    if t[0] == 'tuple': return Agg('tuple', [default_of(it, x) for x in t[1]]) if t[1] else UNIT
    if t[0] == 'array': return Agg('array', [default_of(it, t[1]) for _ in range(int(t[2]))])
    if t[0] == 'ref' and t[2][0] == 'path' and t[2][1] == 'str': return Str([])
    if t[0] == 'ref' and t[2][0] == 'slice': return SliceRef([], 0, 0)
    if t[0] != 'path': raise Unsupported('Default of ' + show_ty(t))
    n = t[1]
    if n in INT_TYS or n == 'char': return 0
    if n in ('f64', 'f32'): return 0.0
    if n == 'bool': return False
    if n == 'String': return RString()
    if n in ('Vec', 'VecDeque'): return RVec()
    if n == 'HashSet': return RSet()
    if n == 'BTreeSet': return RBSet()
    if n == 'HashMap': return RMap()
    if n == 'BTreeMap': return RBMap()
    if n == 'Option': return none()
    if n in ('Box', 'Rc', 'Arc') and t[3]: return RBox(default_of(it, t[3][0]))
    if n in ('DefaultHasher', 'RandomState'): return MODELS[n + '::new'](it, [], {'method': 'new'})
    return it.call_named('<%s as Default>::default' % show_ty(t), [], [], show_ty(t))
@model('Default::default')
def _(it, a, info): return default_of(it, info.get('self_ty'))
def owner_arg(info, i=0):
    g = info.get('owner_gen') or []
    return g[i] if len(g) > i else None
@model('Option::unwrap_or_default')
def _(it, a, info):
    if a[0].variant == 'Some': return a[0].f[0]
    return default_of(it, owner_arg(info))
@model('Result::unwrap_or_default')
def _(it, a, info):
    if a[0].variant == 'Ok': return a[0].f[0]
    return default_of(it, owner_arg(info))
@model('Option::flatten')
def _(it, a, info): return a[0].f[0] if a[0].variant == 'Some' else none()
@model('Result::flatten')
def _(it, a, info): return a[0].f[0] if a[0].variant == 'Ok' else a[0]
@model('Option::transpose')
def _(it, a, info):
    o = a[0]
    if o.variant == 'None': return ok(none())
    r = o.f[0]; return ok(some(r.f[0])) if r.variant == 'Ok' else err(r.f[0])
@model('Result::transpose')
def _(it, a, info):
    r = a[0]
    if r.variant == 'Err': return some(err(r.f[0]))
    o = r.f[0]; return some(ok(o.f[0])) if o.variant == 'Some' else none()
@model('Option::map_or_else')
def _(it, a, info): return call_closure_like(it, a[2], [a[0].f[0]]) if a[0].variant == 'Some' else call_closure_like(it, a[1], [])
@model('Result::map_or_else')
def _(it, a, info): return call_closure_like(it, a[2], [a[0].f[0]]) if a[0].variant == 'Ok' else call_closure_like(it, a[1], [a[0].f[0]])
@model('Option::is_none_or')
def _(it, a, info): return True if a[0].variant == 'None' else call_closure_like(it, a[1], [a[0].f[0]])
@model('Result::is_err_and')
def _(it, a, info): return False if a[0].variant == 'Ok' else call_closure_like(it, a[1], [a[0].f[0]])
@model('Option::take_if')
def _(it, a, info):
    r = a[0]; o = r.get()
    if o.variant == 'Some' and truth(it, call_closure_like(it, a[1], [Ref(o.f, 0)])): r.set(none()); return o
    return none()
@model('Option::insert')
def _(it, a, info):
    o = some(a[1]); a[0].set(o); return Ref(o.f, 0)
@model('Option::get_or_insert_default')
def _(it, a, info):
    r = a[0]
    if r.get().variant == 'None': r.set(some(default_of(it, owner_arg(info))))
    return Ref(r.get().f, 0)
@model('Option::as_deref_mut', 'Option::as_deref')
def _(it, a, info):
    o = deref(a[0])
    if o.variant == 'None': return none()
    v = o.f[0]
    if isinstance(v, RString): return some(Str(v.ch)) if info['method'] == 'as_deref' else some(Ref(o.f, 0))
    if isinstance(v, RVec): return some(SliceRef(v.items, 0, len(v.items)))
    if isinstance(v, RBox): return some(Ref(v.cell, 0))
    if isinstance(v, Ref): return some(v)
    return some(Ref(o.f, 0))
@model('Result::as_deref')
def _(it, a, info):
    o = deref(a[0])
    if o.variant == 'Err': return err(Ref(o.f, 0))
    v = o.f[0]
    return ok(Str(v.ch) if isinstance(v, RString) else SliceRef(v.items, 0, len(v.items)) if isinstance(v, RVec) else Ref(v.cell, 0) if isinstance(v, RBox) else Ref(o.f, 0))
@model('Result::as_mut')
def _(it, a, info):
    o = deref(a[0]); return Enum('Result', o.variant, o.idx, [Ref(o.f, 0)])
@model('Result::ok_or', 'Result::copied', 'Result::cloned')
def _(it, a, info):
    o = a[0]
    return ok(deep_copy(deref1(o.f[0]))) if o.variant == 'Ok' else o
@model('Result::unwrap_or_else')
def _(it, a, info): return a[0].f[0] if a[0].variant == 'Ok' else call_closure_like(it, a[1], [a[0].f[0]])
@model('Result::inspect_err')
def _(it, a, info):
    if a[0].variant == 'Err': call_closure_like(it, a[1], [Ref(a[0].f, 0)])
    return a[0]
@model('Option::unzip')
def _(it, a, info):
    o = a[0]
    return Agg('tuple', [some(o.f[0].f[0]), some(o.f[0].f[1])]) if o.variant == 'Some' else Agg('tuple', [none(), none()])
@model('Option::then', 'bool::then')
def _(it, a, info): return some(call_closure_like(it, a[1], [])) if truth(it, a[0]) else none()
@model('bool::then_some')
def _(it, a, info): return some(a[1]) if truth(it, a[0]) else none()
@model('Option::and_then')
def _(it, a, info): return call_closure_like(it, a[1], [a[0].f[0]]) if a[0].variant == 'Some' else none()
@model('Option::iter_mut', 'Option::iter', 'Result::iter')
def _(it, a, info):
    o = deref(a[0]); return ListIter([Ref(o.f, 0)] if o.variant in ('Some', 'Ok') else [])
@model('Option::into_iter', 'Result::into_iter')
def _(it, a, info):
    o = a[0]
    if isinstance(o, Ref): o = o.get(); return ListIter([Ref(o.f, 0)] if o.variant in ('Some', 'Ok') else [])
    return ListIter(o.f[:1] if o.variant in ('Some', 'Ok') else [])

# ------------------------------------------------------------------ str: general patterns
class Pat:
    """str pattern: char | &str | &String | closure/fn(char)->bool | [char] / &[char]"""
    def __init__(self, it, p):
        self.it = it
        p0 = p
        while isinstance(p, Ref) and not isinstance(p.get(), (Agg,)) : p = p.get()
        if isinstance(p, Ref): p = p.get()
        if isinstance(p, RBox): p = p.cell[0]
        self.kind = None
        if isinstance(p, int) or (is_sym(p) and not z3.is_bool(p)): self.kind = 'char'; self.c = p
        elif isinstance(p, (Str, RString)): self.kind = 'str'; self.s = list(p.ch)
        elif isinstance(p, FnRef) or (isinstance(p, Agg) and p.ty.startswith('{closure')) or p is UNINIT: self.kind = 'pred'; self.f = p
        elif isinstance(p, (SliceRef, RVec)) or (isinstance(p, Agg) and p.ty == 'array'): self.kind = 'set'; self.cs = list(as_items(p))
        else: raise Unsupported('pattern %r' % (p0,))
    def empty(self): return self.kind == 'str' and not self.s
    def at(self, hay, i):
        """length of the match starting at char index i, or None"""
        it = self.it
        if self.kind == 'str':
            n = len(self.s)
            if i + n > len(hay): return None
            return n if truth(it, chars_eq(it, hay[i:i + n], self.s)) else None
        if i >= len(hay): return None
        c = hay[i]
        if self.kind == 'char': return 1 if truth(it, char_eq(c, self.c)) else None
        if self.kind == 'pred': return 1 if truth(it, call_closure_like(it, self.f, [c])) else None
        for x in self.cs:
            if truth(it, char_eq(c, deref(x))): return 1
        return None
    def ending_at(self, hay, j):
        """length of the match ending at char index j (exclusive), or None"""
        n = len(self.s) if self.kind == 'str' else 1
        if j - n < 0: return None
        return self.at(hay[:j], j - n)
    def find_all(self, hay):
        """non-overlapping matches left to right: [(start, len)]"""
        out = []; i = 0
        if self.empty(): raise Unsupported('empty string pattern')
        while i < len(hay):
            n = self.at(hay, i)
            if n: out.append((i, n)); i += n
            else: i += 1
        return out
    def rfind_all(self, hay):
        out = []; j = len(hay)
        if self.empty(): raise Unsupported('empty string pattern')
        while j > 0:
            n = self.ending_at(hay, j)
            if n: out.append((j - n, n)); j -= n
            else: j -= 1
        return out

def bpos(it, hay, i): return conc_len(it, hay[:i])
def cwidth(it, c):
    """UTF-8 width of a char, concrete on this path (branches on the width class of a symbolic char)"""
    if isinstance(c, int): return utf8_len(c)
    if truth(it, z3.ULT(c, 0x80)): return 1
    if truth(it, z3.ULT(c, 0x800)): return 2
    return 3 if truth(it, z3.ULT(c, 0x10000)) else 4
def b2c(it, ch, b, what='byte index'):
    """byte offset -> char index (panics like str slicing when b is not a boundary / out of range)"""
    if is_sym(b):
        from models_fmt import concretize_int
        b = concretize_int(it, b)
    pos = 0
    for i, c in enumerate(ch):
        if pos == b: return i
        pos += cwidth(it, c)
        if pos > b: raise RustPanic('%s %d is not a char boundary' % (what, b))
    if pos == b: return len(ch)
    raise RustPanic('%s %d is out of bounds' % (what, b))
def blen(it, ch): return sum(cwidth(it, c) for c in ch)
def pat_arg(it, a, info):
    # a zero-sized closure / fn item passed as a pattern is never materialised: rebuild it from the generic argument
    p = a[1]
    if deref(p) is UNINIT and info.get('mgen'):
        p = it.zst_value(info['mgen'][0].lstrip('&').strip(), {})
    return Pat(it, p)
@model('str::starts_with')
def _(it, a, info):
    hay = as_chars(a[0]); p = pat_arg(it, a, info)
    if p.kind == 'str': return chars_eq(it, hay[:len(p.s)], p.s) if len(p.s) <= len(hay) else False
    return p.at(hay, 0) is not None
@model('str::ends_with')
def _(it, a, info):
    hay = as_chars(a[0]); p = pat_arg(it, a, info)
    if p.kind == 'str': return chars_eq(it, hay[len(hay) - len(p.s):], p.s) if len(p.s) <= len(hay) else False
    return p.ending_at(hay, len(hay)) is not None
@model('str::contains')
def _(it, a, info):
    hay = as_chars(a[0]); p = pat_arg(it, a, info)
    if p.empty(): return True
    return any(p.at(hay, i) for i in range(len(hay)))
@model('str::find')
def _(it, a, info):
    hay = as_chars(a[0]); p = pat_arg(it, a, info)
    if p.empty(): return some(0)
    for i in range(len(hay)):
        if p.at(hay, i): return some(bpos(it, hay, i))
    return none()
@model('str::rfind')
def _(it, a, info):
    hay = as_chars(a[0]); p = pat_arg(it, a, info)
    if p.empty(): return some(bpos(it, hay, len(hay)))
    for j in range(len(hay), 0, -1):
        n = p.ending_at(hay, j)
        if n: return some(bpos(it, hay, j - n))
    return none()
def split_pieces(hay, ms):
    out = []; prev = 0
    for s, n in ms: out.append(hay[prev:s]); prev = s + n
    out.append(hay[prev:]); return out
@model('str::split')
def _(it, a, info):
    hay = as_chars(a[0]); p = pat_arg(it, a, info)
    return ListIter([Str(x) for x in split_pieces(hay, p.find_all(hay))])
@model('str::rsplit')
def _(it, a, info):
    hay = as_chars(a[0]); p = pat_arg(it, a, info)
    ms = sorted(p.rfind_all(hay)); return ListIter([Str(x) for x in reversed(split_pieces(hay, ms))])
@model('str::split_terminator')
def _(it, a, info):
    hay = as_chars(a[0]); p = pat_arg(it, a, info); ps = split_pieces(hay, p.find_all(hay))
    if ps and not ps[-1]: ps.pop()
    return ListIter([Str(x) for x in ps])
@model('str::rsplit_terminator')
def _(it, a, info):
    hay = as_chars(a[0]); p = pat_arg(it, a, info); ps = split_pieces(hay, sorted(p.rfind_all(hay)))
    if ps and not ps[-1]: ps.pop()
    return ListIter([Str(x) for x in reversed(ps)])
@model('str::split_inclusive')
def _(it, a, info):
    hay = as_chars(a[0]); p = pat_arg(it, a, info); out = []; prev = 0
    for s, n in p.find_all(hay): out.append(hay[prev:s + n]); prev = s + n
    if prev < len(hay): out.append(hay[prev:])
    return ListIter([Str(x) for x in out])
@model('str::splitn')
def _(it, a, info):
    hay = as_chars(a[0]); n = a[1]; p = Pat(it, a[2])
    if n == 0: return ListIter([])
    ms = p.find_all(hay)[:n - 1]; return ListIter([Str(x) for x in split_pieces(hay, ms)])
@model('str::rsplitn')
def _(it, a, info):
    hay = as_chars(a[0]); n = a[1]; p = Pat(it, a[2])
    if n == 0: return ListIter([])
    ms = sorted(p.rfind_all(hay)[:n - 1]); return ListIter([Str(x) for x in reversed(split_pieces(hay, ms))])
@model('str::split_once')
def _(it, a, info):
    hay = as_chars(a[0]); p = pat_arg(it, a, info)
    for i in range(len(hay)):
        n = p.at(hay, i)
        if n: return some(Agg('tuple', [Str(hay[:i]), Str(hay[i + n:])]))
    return none()
@model('str::rsplit_once')
def _(it, a, info):
    hay = as_chars(a[0]); p = pat_arg(it, a, info)
    for j in range(len(hay), 0, -1):
        n = p.ending_at(hay, j)
        if n: return some(Agg('tuple', [Str(hay[:j - n]), Str(hay[j:])]))
    return none()
@model('str::matches')
def _(it, a, info):
    hay = as_chars(a[0]); p = pat_arg(it, a, info); return ListIter([Str(hay[s:s + n]) for s, n in p.find_all(hay)])
@model('str::rmatches')
def _(it, a, info):
    hay = as_chars(a[0]); p = pat_arg(it, a, info); return ListIter([Str(hay[s:s + n]) for s, n in p.rfind_all(hay)])
@model('str::match_indices')
def _(it, a, info):
    hay = as_chars(a[0]); p = pat_arg(it, a, info); return ListIter([Agg('tuple', [bpos(it, hay, s), Str(hay[s:s + n])]) for s, n in p.find_all(hay)])
@model('str::rmatch_indices')
def _(it, a, info):
    hay = as_chars(a[0]); p = pat_arg(it, a, info); return ListIter([Agg('tuple', [bpos(it, hay, s), Str(hay[s:s + n])]) for s, n in p.rfind_all(hay)])
def trim_with(it, hay, p, left, right):
    i, j = 0, len(hay)
    if p.empty(): return hay
    if left:
        while True:
            n = p.at(hay[:j], i)
            if not n: break
            i += n
    if right:
        while j > i:
            n = p.ending_at(hay[i:j], j - i)
            if not n: break
            j -= n
    return hay[i:j]
@model('str::trim_matches')
def _(it, a, info): return Str(trim_with(it, as_chars(a[0]), pat_arg(it, a, info), True, True))
@model('str::trim_start_matches', 'str::trim_left_matches')
def _(it, a, info): return Str(trim_with(it, as_chars(a[0]), pat_arg(it, a, info), True, False))
@model('str::trim_end_matches', 'str::trim_right_matches')
def _(it, a, info): return Str(trim_with(it, as_chars(a[0]), pat_arg(it, a, info), False, True))
@model('str::trim_ascii', 'str::trim_ascii_start', 'str::trim_ascii_end')
def _(it, a, info):
    ws = Pat(it, RVec([9, 10, 12, 13, 32])); m = info['method']
    return Str(trim_with(it, as_chars(a[0]), ws, m != 'trim_ascii_end', m != 'trim_ascii_start'))
@model('str::strip_prefix')
def _(it, a, info):
    hay = as_chars(a[0]); n = pat_arg(it, a, info).at(hay, 0) if not pat_arg(it, a, info).empty() else 0
    return none() if n is None else some(Str(hay[n:]))
@model('str::strip_suffix')
def _(it, a, info):
    hay = as_chars(a[0]); p = pat_arg(it, a, info); n = 0 if p.empty() else p.ending_at(hay, len(hay))
    return none() if n is None else some(Str(hay[:len(hay) - n]))
@model('str::replace')
def _(it, a, info):
    hay = as_chars(a[0]); p = pat_arg(it, a, info); to = as_chars(a[2]); out = []
    for i, piece in enumerate(split_pieces(hay, p.find_all(hay))):
        if i: out.extend(to)
        out.extend(piece)
    return RString(out)
@model('str::replacen')
def _(it, a, info):
    hay = as_chars(a[0]); p = pat_arg(it, a, info); to = as_chars(a[2]); out = []
    for i, piece in enumerate(split_pieces(hay, p.find_all(hay)[:a[3]])):
        if i: out.extend(to)
        out.extend(piece)
    return RString(out)
@model('str::char_indices')
def _(it, a, info):
    ch = as_chars(a[0]); return ListIter([Agg('tuple', [bpos(it, ch, i), c]) for i, c in enumerate(ch)])
@model('str::chars')
def _(it, a, info): return ListIter(as_chars(a[0]))

def byte_range(it, ch, r):
    nbytes = blen(it, ch); lo, hi = range_bounds(it, r, nbytes)
    return b2c(it, ch, lo), b2c(it, ch, hi)
@model('str::get', 'str::get_mut')
def _(it, a, info):
    ch = as_chars(a[0])
    try: i, j = byte_range(it, ch, a[1])
    except RustPanic: return none()
    return some(Str(ch[i:j]))
@model('str::get_unchecked', 'str::get_unchecked_mut')
def _(it, a, info):
    ch = as_chars(a[0]); i, j = byte_range(it, ch, a[1]); return Str(ch[i:j])
@model('str::split_at')
def _(it, a, info):
    ch = as_chars(a[0]); i = b2c(it, ch, a[1]); return Agg('tuple', [Str(ch[:i]), Str(ch[i:])])
@model('str::split_at_checked')
def _(it, a, info):
    ch = as_chars(a[0])
    try: i = b2c(it, ch, a[1])
    except RustPanic: return none()
    return some(Agg('tuple', [Str(ch[:i]), Str(ch[i:])]))
@model('str::is_char_boundary')
def _(it, a, info):
    ch = as_chars(a[0])
    try: b2c(it, ch, a[1]); return True
    except RustPanic: return False
@model('str::floor_char_boundary')
def _(it, a, info):
    ch = as_chars(a[0]); b = a[1]; pos = 0
    for c in ch:
        w = utf8_len(c) if isinstance(c, int) else None
        if w is None: raise Unsupported('floor_char_boundary symbolic')
        if pos + w > b: return pos
        pos += w
    return pos

# bytes (UTF-8 view): concrete chars only, symbolic chars must be provably ASCII
def utf8_bytes(it, ch):
    out = []
    for c in ch:
        if isinstance(c, int): out.extend(chr(c).encode('utf-8', 'surrogatepass'))
        else:
            w = cwidth(it, c); e = lambda hi, lo: z3.Extract(hi, lo, c)
            if w == 1: out.append(e(7, 0))
            elif w == 2: out += [z3.Concat(z3.BitVecVal(6, 3), e(10, 6)), z3.Concat(z3.BitVecVal(2, 2), e(5, 0))]
            elif w == 3: out += [z3.Concat(z3.BitVecVal(14, 4), e(15, 12)), z3.Concat(z3.BitVecVal(2, 2), e(11, 6)), z3.Concat(z3.BitVecVal(2, 2), e(5, 0))]
            else: out += [z3.Concat(z3.BitVecVal(30, 5), e(20, 18)), z3.Concat(z3.BitVecVal(2, 2), e(17, 12)), z3.Concat(z3.BitVecVal(2, 2), e(11, 6)), z3.Concat(z3.BitVecVal(2, 2), e(5, 0))]
    return out
@model('str::as_bytes', 'String::as_bytes')
def _(it, a, info):
    b = utf8_bytes(it, as_chars(a[0])); return SliceRef(b, 0, len(b))
@model('str::bytes')
def _(it, a, info): return ListIter(utf8_bytes(it, as_chars(a[0])))
@model('String::into_bytes', 'str::to_vec_bytes')
def _(it, a, info): return RVec(utf8_bytes(it, as_chars(a[0])))
def decode_utf8(items):
    bs = []
    for b in items:
        b = deref(b)
        if is_sym(b): raise Unsupported('from_utf8 on symbolic bytes')
        bs.append(b)
    return bytes(bs)
@model('String::from_utf8', 'str::from_utf8', 'from_utf8')
def _(it, a, info):
    raw = decode_utf8(as_items(a[0]))
    try: s = raw.decode('utf-8')
    except UnicodeDecodeError: return err(Opaque('Utf8Error', None))
    return ok(RString(S(s)) if info.get('owner') == 'String' else Str(S(s)))
@model('String::from_utf8_lossy')
def _(it, a, info):
    raw = decode_utf8(as_items(a[0]))
    try: return Enum('Cow', 'Borrowed', 0, [Str(S(raw.decode('utf-8')))])
    except UnicodeDecodeError: return Enum('Cow', 'Owned', 1, [RString(S(raw.decode('utf-8', 'replace')))])
@model('String::from_utf8_unchecked', 'from_utf8_unchecked')
def _(it, a, info): return RString(S(decode_utf8(as_items(a[0])).decode('utf-8', 'replace')))
@model('Cow::into_owned', 'Cow::to_mut')
def _(it, a, info):
    c = deref(a[0]); v = c.f[0]
    if c.variant == 'Borrowed':
        v = deref(v); v = RString(v.ch) if isinstance(v, (Str, RString)) else RVec([deep_copy(deref1(x)) for x in as_items(v)]) if isinstance(v, (SliceRef, RVec)) else deep_copy(v)
        if info['method'] == 'to_mut': c.variant = 'Owned'; c.idx = 1; c.f[0] = v; return Ref(c.f, 0)
    return v if info['method'] == 'into_owned' else Ref(c.f, 0)
@model('Cow::is_borrowed')
def _(it, a, info): return deref(a[0]).variant == 'Borrowed'
@model('Cow::is_owned')
def _(it, a, info): return deref(a[0]).variant == 'Owned'

# ------------------------------------------------------------------ String extras
@model('String::drain')
def _(it, a, info):
    s = deref(a[0]); i, j = byte_range(it, s.ch, a[1]); out = s.ch[i:j]; del s.ch[i:j]; return ListIter(out)
@model('String::replace_range')
def _(it, a, info):
    s = deref(a[0]); i, j = byte_range(it, s.ch, a[1]); s.ch[i:j] = as_chars(a[2]); return UNIT
@model('String::chars')
def _(it, a, info): return ListIter(as_chars(a[0]))
@model('String::from', 'String::from_str')
def _(it, a, info): return RString(as_chars(a[0]))
@model('String::insert')
def _(it, a, info):
    s = deref(a[0]); s.ch.insert(b2c(it, s.ch, a[1]), a[2]); return UNIT
@model('String::insert_str')
def _(it, a, info):
    s = deref(a[0]); i = b2c(it, s.ch, a[1]); s.ch[i:i] = as_chars(a[2]); return UNIT
@model('String::remove')
def _(it, a, info):
    s = deref(a[0]); i = b2c(it, s.ch, a[1])
    if i >= len(s.ch): raise RustPanic('cannot remove a char from the end of a string')
    return s.ch.pop(i)
@model('String::truncate')
def _(it, a, info):
    s = deref(a[0])
    if a[1] <= blen(it, s.ch): del s.ch[b2c(it, s.ch, a[1]):]
    return UNIT
@model('String::split_off')
def _(it, a, info):
    s = deref(a[0]); i = b2c(it, s.ch, a[1]); out = s.ch[i:]; del s.ch[i:]; return RString(out)
@model('String::pop')
def _(it, a, info):
    s = deref(a[0]); return some(s.ch.pop()) if s.ch else none()
@model('String::retain')
def _(it, a, info):
    s = deref(a[0]); s.ch[:] = [c for c in s.ch if truth(it, call_closure_like(it, a[1], [c]))]; return UNIT
@model('String::into_chars')
def _(it, a, info): return ListIter(as_chars(a[0]))
@model('String::leak', 'String::into_boxed_str', 'String::as_str', 'String::as_mut_str', 'String::deref')
def _(it, a, info): return Str(as_chars(a[0]))
@model('String::extend_from_within')
def _(it, a, info):
    s = deref(a[0]); i, j = byte_range(it, s.ch, a[1]); s.ch.extend(s.ch[i:j]); return UNIT
@model('str::parse', 'FromStr::from_str')
def _(it, a, info):
    ch = as_chars(a[0])
    target = ((info['mgen'][0] if info.get('mgen') else None) if info['method'] == 'parse' else info.get('self_ty')) or ''
    target = target.strip()
    if target in INT_TYS: return parse_int(it, ch, target)
    if target in ('f64', 'f32'):
        r = parse_float(it, ch)
        if target == 'f32' and r.variant == 'Ok' and isinstance(r.f[0], float):
            import struct
            try: r.f[0] = struct.unpack('f', struct.pack('f', r.f[0]))[0]
            except OverflowError: r.f[0] = math.copysign(float('inf'), r.f[0])
        return r
    if target == 'bool':
        if truth(it, chars_eq(it, ch, S('true'))): return ok(True)
        if truth(it, chars_eq(it, ch, S('false'))): return ok(False)
        return err(Opaque('ParseBoolError', None))
    if target == 'char':
        if len(ch) == 1: return ok(ch[0])
        return err(Opaque('ParseCharError', 'EmptyString' if not ch else 'TooManyChars'))
    if target == 'String': return ok(RString(ch))
    return it.call_named('<%s as std::str::FromStr>::from_str' % target, [a[0]], [None], None) if info['method'] == 'parse' else (_ for _ in ()).throw(Unsupported('str::parse::<%s>' % target))

# ------------------------------------------------------------------ Vec / slice extras
def cmpkey(it): return functools.cmp_to_key(lambda x, y: compare(it, x, y))
@model('from_elem')
def _(it, a, info):
    n = a[1]
    if is_sym(n): raise Unsupported('vec![x; symbolic n]')
    return RVec([deep_copy(a[0]) for _ in range(n)])
@model('Vec::drain', 'VecDeque::drain')
def _(it, a, info):
    v = deref(a[0]); lo, hi = range_bounds(it, a[1], len(v.items)); out = v.items[lo:hi]; del v.items[lo:hi]; return ListIter(out)
@model('Vec::splice')
def _(it, a, info):
    v = deref(a[0]); lo, hi = range_bounds(it, a[1], len(v.items)); out = v.items[lo:hi]
    v.items[lo:hi] = list(drain(it, to_iter(it, a[2]))); return ListIter(out)
@model('Vec::dedup_by_key')
def _(it, a, info):
    v = deref(a[0]); out = []; lastk = None
    for i, x in enumerate(v.items):
        k = call_closure_like(it, a[1], [Ref(v.items, i)])
        if out and truth(it, values_equal(it, k, lastk)): continue
        out.append(x); lastk = k
    v.items[:] = out; return UNIT
@model('Vec::dedup_by')
def _(it, a, info):
    v = deref(a[0]); out = []
    for x in v.items:
        if out and truth(it, call_closure_like(it, a[1], [Ref([x], 0), Ref(out, len(out) - 1)])): continue
        out.append(x)
    v.items[:] = out; return UNIT
@model('Vec::into_boxed_slice', 'slice::into_vec', 'Vec::leak')
def _(it, a, info):
    v = a[0]
    if info['method'] == 'into_boxed_slice': return RBox(v)
    if info['method'] == 'leak': return SliceRef(v.items, 0, len(v.items))
    return v.cell[0] if isinstance(v, RBox) else v
@model('Vec::resize_with')
def _(it, a, info):
    v = deref(a[0]); n = a[1]
    if n < len(v.items): del v.items[n:]
    while len(v.items) < n: v.items.append(call_closure_like(it, a[2], []))
    return UNIT
@model('Vec::extend_from_within')
def _(it, a, info):
    v = deref(a[0]); lo, hi = range_bounds(it, a[1], len(v.items)); v.items.extend(deep_copy(x) for x in v.items[lo:hi]); return UNIT
@model('Vec::pop_if')
def _(it, a, info):
    v = deref(a[0])
    if v.items and truth(it, call_closure_like(it, a[1], [Ref(v.items, len(v.items) - 1)])): return some(v.items.pop())
    return none()
@model('Vec::from', 'Vec::from_iter')
def _(it, a, info):
    x = a[0]
    if isinstance(deref(x), (Str, RString)): return RVec(utf8_bytes(it, as_chars(x)))
    return RVec([deep_copy(deref1(y)) if isinstance(x, (Ref, SliceRef)) else y for y in as_items(x)])
@model('slice::fill')
def _(it, a, info):
    base, lo, hi = seqview(it, a[0])
    for i in range(lo, hi): base[i] = deep_copy(a[1])
    return UNIT
@model('slice::fill_with')
def _(it, a, info):
    base, lo, hi = seqview(it, a[0])
    for i in range(lo, hi): base[i] = call_closure_like(it, a[1], [])
    return UNIT
@model('slice::rotate_left', 'slice::rotate_right', 'VecDeque::rotate_left', 'VecDeque::rotate_right')
def _(it, a, info):
    base, lo, hi = seqview(it, a[0]); k = a[1]; n = hi - lo
    if k > n: raise RustPanic('assertion failed: mid <= self.len()')
    xs = base[lo:hi]; k = k if 'left' in info['method'] else n - k
    base[lo:hi] = xs[k:] + xs[:k]; return UNIT
@model('slice::copy_from_slice', 'slice::clone_from_slice')
def _(it, a, info):
    base, lo, hi = seqview(it, a[0]); src = as_items(a[1])
    if len(src) != hi - lo: raise RustPanic('source slice length does not match destination slice length')
    base[lo:hi] = [deep_copy(x) for x in src]; return UNIT
@model('slice::to_owned', 'slice::to_vec')
def _(it, a, info): return RVec([deep_copy(x) for x in as_items(a[0])])
class WindowsIter(PyIter):
    def __init__(self, base, lo, hi, n, step, exact=False, rev=False):
        self.w = []
        i = lo
        if step == 1:
            while i + n <= hi: self.w.append(SliceRef(base, i, i + n)); i += 1
        else:
            while i < hi:
                j = min(i + n, hi)
                if exact and j - i < n: break
                self.w.append(SliceRef(base, i, j)); i += n
        self.i = 0; self.j = len(self.w)
    def nxt(self, it):
        if self.i >= self.j: return STOP
        self.i += 1; return self.w[self.i - 1]
    def back(self, it):
        if self.i >= self.j: return STOP
        self.j -= 1; return self.w[self.j]
@model('slice::windows')
def _(it, a, info):
    if a[1] == 0: raise RustPanic('window size must be non-zero')
    base, lo, hi = seqview(it, a[0]); return WindowsIter(base, lo, hi, a[1], 1)
@model('slice::chunks', 'slice::chunks_mut', 'slice::chunks_exact', 'slice::chunks_exact_mut')
def _(it, a, info):
    if a[1] == 0: raise RustPanic('chunk size must be non-zero')
    base, lo, hi = seqview(it, a[0]); return WindowsIter(base, lo, hi, a[1], a[1], 'exact' in info['method'])
@model('slice::rchunks')
def _(it, a, info):
    if a[1] == 0: raise RustPanic('chunk size must be non-zero')
    base, lo, hi = seqview(it, a[0]); out = []; j = hi
    while j > lo: out.append(SliceRef(base, max(lo, j - a[1]), j)); j -= a[1]
    return ListIter(out)
@model('slice::split', 'slice::split_mut')
def _(it, a, info):
    base, lo, hi = seqview(it, a[0]); out = []; st = lo
    for i in range(lo, hi):
        if truth(it, call_closure_like(it, a[1], [Ref(base, i)])): out.append(SliceRef(base, st, i)); st = i + 1
    out.append(SliceRef(base, st, hi)); return ListIter(out)
@model('slice::join', 'slice::concat')
def _(it, a, info):
    items = as_items(a[0])
    txt = info.get('text') or ''
    strs = all(isinstance(deref(x), (Str, RString)) for x in items) and (bool(items) or re.search(r'impl \[&?(mut )?(str|String|std::string::String)\]', txt) is not None)
    if strs and (len(a) == 1 or isinstance(deref(a[1]), (Str, RString))):
        sep = as_chars(a[1]) if len(a) > 1 else []; out = []
        for i, s in enumerate(items):
            if i: out.extend(sep)
            out.extend(as_chars(s))
        return RString(out)
    out = []
    for i, x in enumerate(items):
        if i and len(a) > 1:
            sp = deref(a[1])
            out.extend(deep_copy(y) for y in (as_items(sp) if isinstance(sp, (RVec, SliceRef)) or (isinstance(sp, Agg) and sp.ty == 'array') else [sp]))
        out.extend(deep_copy(y) for y in as_items(x))
    return RVec(out)
@model('slice::contains', 'Vec::contains', 'VecDeque::contains')
def _(it, a, info):
    x = deref(a[1])
    for y in as_items(a[0]):
        if truth(it, values_equal(it, y, x)): return True
    return False
@model('slice::iter', 'Vec::iter', 'slice::iter_mut', 'Vec::iter_mut', 'VecDeque::iter', 'VecDeque::iter_mut', 'array::iter', 'array::iter_mut')
def _(it, a, info):
    base, lo, hi = seqview(it, a[0]); return RefIter(base, lo, hi)
@model('slice::map', 'array::map')
def _(it, a, info): return Agg('array', [call_closure_like(it, a[1], [x]) for x in as_items(a[0])])
@model('slice::as_slice', 'array::as_slice', 'slice::as_mut_slice', 'Vec::as_slice', 'Vec::as_mut_slice', 'Vec::deref', 'Vec::as_ref')
def _(it, a, info):
    base, lo, hi = seqview(it, a[0]); return SliceRef(base, lo, hi)
@model('slice::first_chunk', 'slice::last_chunk')
def _(it, a, info): raise Unsupported('first_chunk/last_chunk')
@model('slice::repeat')
def _(it, a, info): return RVec([deep_copy(x) for _ in range(a[1]) for x in as_items(a[0])])
@model('slice::is_sorted')
def _(it, a, info):
    xs = as_items(a[0]); return all(compare(it, xs[i], xs[i + 1]) <= 0 for i in range(len(xs) - 1))
@model('slice::binary_search_by', 'slice::binary_search_by_key', 'slice::partition_point')
def _(it, a, info):
    items = as_items(a[0]); m = info['method']
    if m == 'partition_point':
        lo, hi = 0, len(items)
        while lo < hi:
            mid = (lo + hi) // 2
            if truth(it, call_closure_like(it, a[1], [Ref(items, mid)])): lo = mid + 1
            else: hi = mid
        return lo
    lo, hi = 0, len(items)
    while lo < hi:
        mid = (lo + hi) // 2
        if m == 'binary_search_by': c = OV[call_closure_like(it, a[1], [Ref(items, mid)]).variant]
        else: c = compare(it, call_closure_like(it, a[2], [Ref(items, mid)]), a[1])
        if c == 0: return ok(mid)
        if c < 0: lo = mid + 1
        else: hi = mid
    return err(lo)
@model('slice::iter_rev')
def _(it, a, info): raise Unsupported('iter_rev')
@model('slice::select_nth_unstable')
def _(it, a, info): raise Unsupported('select_nth_unstable')
# VecDeque as RVec
@model('VecDeque::push_front')
def _(it, a, info): deref(a[0]).items.insert(0, a[1]); return UNIT
@model('VecDeque::pop_back')
def _(it, a, info):
    v = deref(a[0]); return some(v.items.pop()) if v.items else none()
@model('VecDeque::with_capacity', 'VecDeque::new')
def _(it, a, info): return RVec()
@model('VecDeque::get', 'VecDeque::get_mut')
def _(it, a, info):
    v = deref(a[0]); return some(Ref(v.items, a[1])) if 0 <= a[1] < len(v.items) else none()
@model('VecDeque::make_contiguous', 'VecDeque::as_slices')
def _(it, a, info):
    v = deref(a[0]); s = SliceRef(v.items, 0, len(v.items))
    return s if info['method'] == 'make_contiguous' else Agg('tuple', [s, SliceRef(v.items, len(v.items), len(v.items))])
@model('VecDeque::extend', 'VecDeque::append', 'VecDeque::insert', 'VecDeque::remove', 'VecDeque::truncate', 'VecDeque::retain', 'VecDeque::swap', 'VecDeque::into_iter')
def _(it, a, info):
    m = info['method']
    if m == 'remove':
        v = deref(a[0]); return some(v.items.pop(a[1])) if 0 <= a[1] < len(v.items) else none()
    return MODELS['Vec::' + m](it, a, info)

# ------------------------------------------------------------------ iterator extras
def norm_range(v):
    """ops::Range* aggregate used directly as an iterator -> in-place stepping helpers"""
    return isinstance(v, Agg) and v.ty.split('::')[-1] in ('Range', 'RangeInclusive', 'RangeFrom')
_old_next, _old_back = iter_next, iter_back
def iter_next2(it, src):
    v = src.get() if isinstance(src, Ref) else src
    if norm_range(v):
        k = v.ty.split('::')[-1]
        if k == 'RangeFrom':
            x = v.f[0]; v.f[0] = do_binop('Add', x, 1, None); return x
        if k == 'Range':
            if not truth(it, do_binop('Lt', v.f[0], v.f[1], None)): return STOP
            x = v.f[0]; v.f[0] = do_binop('Add', x, 1, None); return x
        if len(v.f) > 2 and v.f[2]: return STOP
        if not truth(it, do_binop('Le', v.f[0], v.f[1], None)): return STOP
        x = v.f[0]
        if truth(it, do_binop('Eq', v.f[0], v.f[1], None)):
            if len(v.f) > 2: v.f[2] = True
            else: v.f.append(True)
        else: v.f[0] = do_binop('Add', x, 1, None)
        return x
    return _old_next(it, src)
def iter_back2(it, src):
    v = src.get() if isinstance(src, Ref) else src
    if norm_range(v):
        k = v.ty.split('::')[-1]
        if k == 'Range':
            if not truth(it, do_binop('Lt', v.f[0], v.f[1], None)): return STOP
            v.f[1] = do_binop('Sub', v.f[1], 1, None); return v.f[1]
        if k == 'RangeInclusive':
            if len(v.f) > 2 and v.f[2]: return STOP
            if not truth(it, do_binop('Le', v.f[0], v.f[1], None)): return STOP
            x = v.f[1]
            if truth(it, do_binop('Eq', v.f[0], v.f[1], None)):
                if len(v.f) > 2: v.f[2] = True
                else: v.f.append(True)
            else: v.f[1] = do_binop('Sub', x, 1, None)
            return x
    if isinstance(v, (Agg, Enum)) and not isinstance(v, PyIter):
        cell = src if isinstance(src, Ref) else Ref([v], 0)
        r = it.call_named('<%s as DoubleEndedIterator>::next_back' % v.ty, [cell], [None], None)
        return r.f[0] if r.variant == 'Some' else STOP
    return _old_back(it, src)
import models_iter as _mi
_mi.iter_next = iter_next2; _mi.iter_back = iter_back2
iter_next = iter_next2; iter_back = iter_back2
def drain(it, src):
    while True:
        v = iter_next2(it, src)
        if v is STOP: return
        yield v
_mi.drain = drain
@model('Iterator::next')
def _(it, a, info):
    v = iter_next2(it, a[0]); return none() if v is STOP else some(v)
@model('DoubleEndedIterator::next_back')
def _(it, a, info):
    v = iter_back2(it, a[0]); return none() if v is STOP else some(v)
def by_cmp(it, f):
    return functools.cmp_to_key(lambda x, y: OV[call_closure_like(it, f, [Ref([x], 0), Ref([y], 0)]).variant])
@model('Iterator::max', 'Iterator::min')
def _(it, a, info):
    best = STOP; mx = info['method'] == 'max'
    for v in drain(it, a[0]):
        if best is STOP: best = v; continue
        c = compare(it, v, best)
        if (c >= 0) if mx else (c < 0): best = v
    return none() if best is STOP else some(best)
@model('Iterator::max_by', 'Iterator::min_by')
def _(it, a, info):
    best = STOP; mx = info['method'] == 'max_by'
    for v in drain(it, a[0]):
        if best is STOP: best = v; continue
        c = OV[call_closure_like(it, a[1], [Ref([best], 0), Ref([v], 0)]).variant]
        if (c <= 0) if mx else (c > 0): best = v
    return none() if best is STOP else some(best)
@model('Iterator::max_by_key', 'Iterator::min_by_key')
def _(it, a, info):
    best = STOP; bk = None; mx = info['method'] == 'max_by_key'
    for v in drain(it, a[0]):
        k = call_closure_like(it, a[1], [Ref([v], 0)])
        if best is STOP: best, bk = v, k; continue
        c = compare(it, k, bk)
        if (c >= 0) if mx else (c < 0): best, bk = v, k
    return none() if best is STOP else some(best)
def ret_scalar(info, i=0):
    g = info.get('mgen') or []
    return g[i].strip() if len(g) > i else None
@model('Iterator::sum')
def _(it, a, info):
    ty = ret_scalar(info); isf = ty in ('f64', 'f32')
    acc = -0.0 if isf else 0
    for v in drain(it, a[0]):
        v = deref(v)
        if isinstance(v, Enum): raise Unsupported('sum of Option/Result')
        acc = do_binop('Add', acc, v, ty) if isf or ty not in INT_TYS else checked_arith(it, 'Add', acc, v, ty)
    return acc
@model('Iterator::product')
def _(it, a, info):
    ty = ret_scalar(info); isf = ty in ('f64', 'f32'); acc = 1.0 if isf else 1
    for v in drain(it, a[0]):
        v = deref(v); acc = do_binop('Mul', acc, v, ty) if isf or ty not in INT_TYS else checked_arith(it, 'Mul', acc, v, ty)
    return acc
@model('Iterator::reduce')
def _(it, a, info):
    acc = STOP
    for v in drain(it, a[0]): acc = v if acc is STOP else call_closure_like(it, a[1], [acc, v])
    return none() if acc is STOP else some(acc)
class ScanIter(PyIter):
    def __init__(self, src, st, f): self.src = src; self.st = [st]; self.f = f; self.done = False
    def nxt(self, it):
        if self.done: return STOP
        v = iter_next2(it, self.src)
        if v is STOP: return STOP
        r = call_closure_like(it, self.f, [Ref(self.st, 0), v])
        if r.variant == 'None': self.done = True; return STOP
        return r.f[0]
@model('Iterator::scan')
def _(it, a, info): return ScanIter(a[0], a[1], a[2])
class CycleIter(PyIter):
    def __init__(self, it, src): self.buf = []; self.src = src; self.k = 0
    def nxt(self, it):
        if self.src is not None:
            v = iter_next2(it, self.src)
            if v is not STOP: self.buf.append(v); return deep_copy(v)
            self.src = None
        if not self.buf: return STOP
        v = self.buf[self.k % len(self.buf)]; self.k += 1; return deep_copy(v)
@model('Iterator::cycle')
def _(it, a, info): return CycleIter(it, a[0])
class RepeatIter(PyIter):
    def __init__(self, v, n=None): self.v = v; self.n = n
    def nxt(self, it):
        if self.n is not None:
            if self.n <= 0: return STOP
            self.n -= 1
        return deep_copy(self.v)
    def back(self, it): return self.nxt(it)
@model('repeat', 'iter::repeat')
def _(it, a, info): return RepeatIter(a[0])
@model('repeat_n')
def _(it, a, info): return RepeatIter(a[0], a[1])
class RepeatWithIter(PyIter):
    def __init__(self, f): self.f = f
    def nxt(self, it): return call_closure_like(it, self.f, [])
@model('repeat_with')
def _(it, a, info): return RepeatWithIter(a[0])
class SuccIter(PyIter):
    def __init__(self, first, f): self.cur = first; self.f = f
    def nxt(self, it):
        if self.cur.variant == 'None': return STOP
        v = self.cur.f[0]; self.cur = call_closure_like(it, self.f, [Ref([v], 0)]); return v
@model('successors')
def _(it, a, info): return SuccIter(a[0], a[1])
@model('zip', 'iter::zip')
def _(it, a, info): return _mi.ZipIter(to_iter(it, a[0]), to_iter(it, a[1]))
@model('Iterator::cmp', 'Iterator::partial_cmp')
def _(it, a, info):
    xs = list(drain(it, a[0])); ys = list(drain(it, to_iter(it, a[1]))); c = compare_seq(it, xs, ys)
    return ordering(c) if info['method'] == 'cmp' else (none() if c is None else some(ordering(c)))
for _n, _f in (('lt', lambda c: c < 0), ('le', lambda c: c <= 0), ('gt', lambda c: c > 0), ('ge', lambda c: c >= 0)):
    def _mk(f):
        def g(it, a, info):
            xs = list(drain(it, a[0])); ys = list(drain(it, to_iter(it, a[1]))); return f(compare_seq(it, xs, ys))
        return g
    model('Iterator::' + _n)(_mk(_f))
@model('Iterator::ne')
def _(it, a, info):
    e = MODELS['Iterator::eq'](it, a, info); return (not e) if isinstance(e, bool) else z3.Not(e)
@model('Iterator::is_sorted')
def _(it, a, info):
    xs = list(drain(it, a[0])); return all(compare(it, xs[i], xs[i + 1]) <= 0 for i in range(len(xs) - 1))
def try_parts(r):
    """(continue?, payload) for Option / Result / ControlFlow"""
    if r.variant in ('Some', 'Ok', 'Continue'): return True, (r.f[0] if r.f else UNIT)
    return False, r
@model('Iterator::try_fold')
def _(it, a, info):
    acc = a[1]; last = None
    for v in drain(it, a[0]):
        r = call_closure_like(it, a[2], [acc, v]); cont, p = try_parts(r); last = r
        if not cont: return r
        acc = p
    if last is not None: return Enum(last.ty, last.variant, last.idx, [acc])
    rt = parse_ty(ret_scalar(info, 2) or '')
    n = rt[1] if rt[0] == 'path' else None
    if n == 'Option': return some(acc)
    if n == 'Result': return ok(acc)
    if n == 'ControlFlow': return Enum('ControlFlow', 'Continue', 0, [acc])
    raise Unsupported('try_fold on an empty iterator with unknown Try type')
@model('Iterator::try_for_each')
def _(it, a, info):
    last = None
    for v in drain(it, a[0]):
        r = call_closure_like(it, a[1], [v]); cont, p = try_parts(r); last = r
        if not cont: return r
    if last is not None: return last
    rt = parse_ty(ret_scalar(info, 1) or ''); n = rt[1] if rt[0] == 'path' else None
    if n == 'Option': return some(UNIT)
    if n == 'Result': return ok(UNIT)
    if n == 'ControlFlow': return Enum('ControlFlow', 'Continue', 0, [UNIT])
    raise Unsupported('try_for_each on an empty iterator with unknown Try type')
@model('Iterator::try_find')
def _(it, a, info): raise Unsupported('try_find')
@model('Peekable::next_if')
def _(it, a, info):
    p = deref(a[0]); v = p.peek(it)
    if v is STOP: return none()
    if truth(it, call_closure_like(it, a[1], [Ref([v], 0)])): p.buf = None; return some(v)
    return none()
@model('Peekable::next_if_eq')
def _(it, a, info):
    p = deref(a[0]); v = p.peek(it)
    if v is STOP: return none()
    if truth(it, values_equal(it, v, a[1])): p.buf = None; return some(v)
    return none()
@model('Peekable::peek_mut')
def _(it, a, info):
    p = deref(a[0]); v = p.peek(it); return none() if v is STOP else some(Ref(p.buf, 0))
@model('Iterator::last')
def _(it, a, info):
    last = STOP
    for v in drain(it, a[0]): last = v
    return none() if last is STOP else some(last)
@model('Iterator::fuse')
def _(it, a, info): return a[0]
@model('Iterator::advance_by')
def _(it, a, info): raise Unsupported('advance_by')
class DedupIter(PyIter): pass
@model('Iterator::unzip')
def _(it, a, info):
    xs, ys = [], []
    for v in drain(it, a[0]): xs.append(v.f[0]); ys.append(v.f[1])
    g = info.get('mgen') or []
    def mk(items, i):
        t = g[i] if len(g) > i else None
        return collect_into(it, ListIter(items), t) if t and t.strip() not in ('FromA', 'FromB') else RVec(items)
    return Agg('tuple', [mk(xs, 2), mk(ys, 3)])

# ------------------------------------------------------------------ Deref for Cow / Rc, smart pointers
_old_deref = MODELS['Deref::deref']
@model('Deref::deref', 'DerefMut::deref_mut')
def _(it, a, info):
    v = deref1(a[0])
    if isinstance(v, Enum) and v.ty == 'Cow':
        inner = v.f[0]
        if isinstance(inner, RString): return Str(inner.ch)
        if isinstance(inner, RVec): return SliceRef(inner.items, 0, len(inner.items))
        if isinstance(inner, (Str, SliceRef, Ref)): return inner
        return Ref(v.f, 0)
    return _old_deref(it, a, info)
@model('Rc::new', 'Arc::new')
def _(it, a, info): return RRc(a[0])
@model('Rc::clone', 'Arc::clone')
def _(it, a, info): return deref1(a[0])
@model('Rc::ptr_eq', 'Arc::ptr_eq')
def _(it, a, info): return deref1(a[0]) is deref1(a[1])
@model('Rc::strong_count', 'Arc::strong_count', 'Rc::weak_count', 'Arc::weak_count')
def _(it, a, info): raise Unsupported('reference counts are not modelled')
@model('Rc::try_unwrap', 'Arc::try_unwrap', 'Rc::get_mut', 'Arc::get_mut', 'Rc::make_mut', 'Arc::make_mut')
def _(it, a, info): raise Unsupported('uniqueness of Rc/Arc is not modelled')
@model('Box::leak', 'Box::as_ref', 'Box::as_mut', 'Rc::as_ref', 'Arc::as_ref')
def _(it, a, info): return Ref(deref1(a[0]).cell, 0)
@model('Box::into_inner')
def _(it, a, info): return a[0].cell[0]
@model('RefCell::new', 'Cell::new')
def _(it, a, info): return RBox(a[0])
@model('RefCell::borrow', 'RefCell::borrow_mut', 'Cell::get_mut', 'RefCell::get_mut')
def _(it, a, info): return Ref(deref1(a[0]).cell, 0)
@model('Cell::get')
def _(it, a, info): return deref1(a[0]).cell[0]
@model('Cell::set')
def _(it, a, info): deref1(a[0]).cell[0] = a[1]; return UNIT
@model('Cell::replace', 'RefCell::replace')
def _(it, a, info):
    c = deref1(a[0]); o = c.cell[0]; c.cell[0] = a[1]; return o
@model('RefCell::into_inner', 'Cell::into_inner')
def _(it, a, info): return a[0].cell[0]

# ------------------------------------------------------------------ sets
def bsorted_insert(it, items, x, vals=None, v=None):
    lo, hi = 0, len(items)
    while lo < hi:
        mid = (lo + hi) // 2
        if compare(it, items[mid], x) < 0: lo = mid + 1
        else: hi = mid
    items.insert(lo, x)
    if vals is not None: vals.insert(lo, v)
def sinsert(it, s, x):
    if set_contains(it, s, x): return False
    if isinstance(s, RBSet): bsorted_insert(it, s.items, x)
    else: s.items.append(x)
    return True
def sfind(it, s, x):
    x = deref(x)
    for i, y in enumerate(s.items):
        if truth(it, values_equal(it, y, x)): return i
    return None
for _S, _C in (('HashSet', RSet), ('BTreeSet', RBSet)):
    def _mk(S, C):
        model(S + '::new', S + '::with_capacity', S + '::default')(lambda it, a, info: C())
        model(S + '::insert')(lambda it, a, info: sinsert(it, deref(a[0]), a[1]))
        model(S + '::replace')(lambda it, a, info: (lambda s, i: (some(s.items.pop(i)) if i is not None else none(), sinsert(it, s, a[1]))[0])(deref(a[0]), sfind(it, deref(a[0]), a[1])))
        model(S + '::contains')(lambda it, a, info: sfind(it, deref(a[0]), a[1]) is not None)
        model(S + '::len')(lambda it, a, info: len(deref(a[0]).items))
        model(S + '::is_empty')(lambda it, a, info: not deref(a[0]).items)
        model(S + '::clear')(lambda it, a, info: (deref(a[0]).items.__setitem__(slice(None), []), UNIT)[1])
        def remove(it, a, info):
            s = deref(a[0]); i = sfind(it, s, a[1])
            if i is None: return False
            s.items.pop(i); return True
        model(S + '::remove')(remove)
        def take(it, a, info):
            s = deref(a[0]); i = sfind(it, s, a[1]); return none() if i is None else some(s.items.pop(i))
        model(S + '::take')(take)
        def get(it, a, info):
            s = deref(a[0]); i = sfind(it, s, a[1]); return none() if i is None else some(Ref(s.items, i))
        model(S + '::get')(get)
        def retain(it, a, info):
            s = deref(a[0]); s.items[:] = [x for i, x in enumerate(list(s.items)) if truth(it, call_closure_like(it, a[1], [Ref([x], 0)]))]; return UNIT
        model(S + '::retain')(retain)
        model(S + '::iter')(lambda it, a, info: RefIter(deref(a[0]).items, 0, len(deref(a[0]).items)))
        model(S + '::into_iter')(lambda it, a, info: to_iter(it, a[0]))
        model(S + '::drain')(lambda it, a, info: (lambda s: (ListIter(list(s.items)), s.items.__setitem__(slice(None), []))[0])(deref(a[0])))
        def setop(kind):
            def f(it, a, info):
                x, y = deref(a[0]), deref(a[1]); out = []
                if kind in ('intersection', 'difference', 'symmetric_difference', 'union'):
                    for i, e in enumerate(x.items):
                        inn = sfind(it, y, e) is not None
                        if (kind == 'intersection' and inn) or (kind in ('difference', 'symmetric_difference') and not inn) or kind == 'union': out.append(Ref(x.items, i))
                    if kind in ('union', 'symmetric_difference'):
                        for i, e in enumerate(y.items):
                            if sfind(it, x, e) is None: out.append(Ref(y.items, i))
                    if C is RBSet: out.sort(key=cmpkey(it))
                return ListIter(out)
            return f
        for k in ('intersection', 'difference', 'symmetric_difference', 'union'): model(S + '::' + k)(setop(k))
        model(S + '::is_subset')(lambda it, a, info: all(sfind(it, deref(a[1]), e) is not None for e in deref(a[0]).items))
        model(S + '::is_superset')(lambda it, a, info: all(sfind(it, deref(a[0]), e) is not None for e in deref(a[1]).items))
        model(S + '::is_disjoint')(lambda it, a, info: all(sfind(it, deref(a[1]), e) is None for e in deref(a[0]).items))
        def ext(it, a, info):
            s = deref(a[0])
            for v in drain(it, to_iter(it, a[1])): sinsert(it, s, deep_copy(deref1(v)) if isinstance(v, Ref) and not isinstance(deref1(v), Ref) and False else v)
            return UNIT
        model(S + '::extend')(ext)
        model(S + '::from', S + '::from_iter')(lambda it, a, info: (lambda s: ([sinsert(it, s, v) for v in drain(it, to_iter(it, a[0]))], s)[1])(C()))
    _mk(_S, _C)
@model('BTreeSet::first')
def _(it, a, info):
    s = deref(a[0]); return some(Ref(s.items, 0)) if s.items else none()
@model('BTreeSet::last')
def _(it, a, info):
    s = deref(a[0]); return some(Ref(s.items, len(s.items) - 1)) if s.items else none()
@model('BTreeSet::pop_first')
def _(it, a, info):
    s = deref(a[0]); return some(s.items.pop(0)) if s.items else none()
@model('BTreeSet::pop_last')
def _(it, a, info):
    s = deref(a[0]); return some(s.items.pop()) if s.items else none()

# ------------------------------------------------------------------ maps
def mfind(it, m, k):
    k = deref(k)
    for i, y in enumerate(m.keys):
        if truth(it, values_equal(it, y, k)): return i
    return None
def minsert(it, m, k, v):
    i = mfind(it, m, k)
    if i is not None:
        old = m.vals[i]; m.vals[i] = v; return some(old)
    if isinstance(m, RBMap): bsorted_insert(it, m.keys, k, m.vals, v)
    else: m.keys.append(k); m.vals.append(v)
    return none()
class PairIter(PyIter):
    """(&K, &V) / (&K, &mut V) over a live map"""
    def __init__(self, m, owned=False): self.m = m; self.i = 0; self.j = len(m.keys); self.owned = owned
    def item(self, i): return Agg('tuple', [self.m.keys[i], self.m.vals[i]] if self.owned else [Ref(self.m.keys, i), Ref(self.m.vals, i)])
    def nxt(self, it):
        if self.i >= self.j: return STOP
        self.i += 1; return self.item(self.i - 1)
    def back(self, it):
        if self.i >= self.j: return STOP
        self.j -= 1; return self.item(self.j)
for _M, _C in (('HashMap', RMap), ('BTreeMap', RBMap)):
    def _mk(M, C):
        model(M + '::new', M + '::with_capacity', M + '::default')(lambda it, a, info: C())
        model(M + '::insert')(lambda it, a, info: minsert(it, deref(a[0]), a[1], a[2]))
        model(M + '::len')(lambda it, a, info: len(deref(a[0]).keys))
        model(M + '::is_empty')(lambda it, a, info: not deref(a[0]).keys)
        model(M + '::contains_key')(lambda it, a, info: mfind(it, deref(a[0]), a[1]) is not None)
        def get(it, a, info):
            m = deref(a[0]); i = mfind(it, m, a[1]); return none() if i is None else some(Ref(m.vals, i))
        model(M + '::get', M + '::get_mut')(get)
        def get_kv(it, a, info):
            m = deref(a[0]); i = mfind(it, m, a[1]); return none() if i is None else some(Agg('tuple', [Ref(m.keys, i), Ref(m.vals, i)]))
        model(M + '::get_key_value')(get_kv)
        def remove(it, a, info):
            m = deref(a[0]); i = mfind(it, m, a[1])
            if i is None: return none()
            m.keys.pop(i); return some(m.vals.pop(i))
        model(M + '::remove')(remove)
        def remove_entry(it, a, info):
            m = deref(a[0]); i = mfind(it, m, a[1])
            if i is None: return none()
            return some(Agg('tuple', [m.keys.pop(i), m.vals.pop(i)]))
        model(M + '::remove_entry')(remove_entry)
        def clear(it, a, info):
            m = deref(a[0]); m.keys[:] = []; m.vals[:] = []; return UNIT
        model(M + '::clear')(clear)
        model(M + '::iter', M + '::iter_mut')(lambda it, a, info: PairIter(deref(a[0])))
        model(M + '::into_iter')(lambda it, a, info: PairIter(deref(a[0]), owned=not isinstance(a[0], Ref)))
        model(M + '::keys')(lambda it, a, info: RefIter(deref(a[0]).keys, 0, len(deref(a[0]).keys)))
        model(M + '::values', M + '::values_mut')(lambda it, a, info: RefIter(deref(a[0]).vals, 0, len(deref(a[0]).vals)))
        model(M + '::into_keys')(lambda it, a, info: ListIter(a[0].keys))
        model(M + '::into_values')(lambda it, a, info: ListIter(a[0].vals))
        def retain(it, a, info):
            m = deref(a[0]); keep = [i for i in range(len(m.keys)) if truth(it, call_closure_like(it, a[1], [Ref(m.keys, i), Ref(m.vals, i)]))]
            m.keys[:] = [m.keys[i] for i in keep]; m.vals[:] = [m.vals[i] for i in keep]; return UNIT
        model(M + '::retain')(retain)
        model(M + '::entry')(lambda it, a, info: Opaque('entry', (deref(a[0]), a[1])))
        def ext(it, a, info):
            m = deref(a[0])
            for v in drain(it, to_iter(it, a[1])): minsert(it, m, v.f[0], v.f[1])
            return UNIT
        model(M + '::extend')(ext)
        def frm(it, a, info):
            m = C()
            for v in drain(it, to_iter(it, a[0])): minsert(it, m, v.f[0], v.f[1])
            return m
        model(M + '::from', M + '::from_iter')(frm)
    _mk(_M, _C)
def entry_slot(it, e, mk):
    m, k = e.data; i = mfind(it, m, k)
    if i is None:
        minsert(it, m, k, mk()); i = mfind(it, m, k)
    return Ref(m.vals, i)
@model('Entry::or_insert')
def _(it, a, info): return entry_slot(it, a[0], lambda: a[1])
@model('Entry::or_insert_with')
def _(it, a, info): return entry_slot(it, a[0], lambda: call_closure_like(it, a[1], []))
@model('Entry::or_insert_with_key')
def _(it, a, info): return entry_slot(it, a[0], lambda: call_closure_like(it, a[1], [Ref([a[0].data[1]], 0)]))
@model('Entry::or_default')
def _(it, a, info):
    g = info.get('owner_gen') or []
    return entry_slot(it, a[0], lambda: default_of(it, g[1] if len(g) > 1 else None))
@model('Entry::and_modify')
def _(it, a, info):
    m, k = a[0].data; i = mfind(it, m, k)
    if i is not None: call_closure_like(it, a[1], [Ref(m.vals, i)])
    return a[0]
@model('Entry::key')
def _(it, a, info): return Ref([a[0].data[1]], 0)
@model('Entry::insert_entry')
def _(it, a, info):
    m, k = a[0].data; minsert(it, m, k, a[1]); return a[0]
@model('BTreeMap::first_key_value', 'BTreeMap::last_key_value')
def _(it, a, info):
    m = deref(a[0])
    if not m.keys: return none()
    i = 0 if 'first' in info['method'] else len(m.keys) - 1
    return some(Agg('tuple', [Ref(m.keys, i), Ref(m.vals, i)]))
@model('BTreeMap::pop_first', 'BTreeMap::pop_last')
def _(it, a, info):
    m = deref(a[0])
    if not m.keys: return none()
    i = 0 if 'first' in info['method'] else len(m.keys) - 1
    return some(Agg('tuple', [m.keys.pop(i), m.vals.pop(i)]))

_old_index = MODELS['Index::index']
@model('Index::index', 'IndexMut::index_mut')
def _(it, a, info):
    tgt = deref(a[0]) if not isinstance(a[0], (SliceRef, Str)) else a[0]
    if isinstance(tgt, RMap):
        i = mfind(it, tgt, a[1])
        if i is None: raise RustPanic('key not found in map')
        return Ref(tgt.vals, i)
    if isinstance(tgt, Enum) and tgt.ty == 'Cow': return _old_index(it, [tgt.f[0]] + list(a[1:]), info)
    if isinstance(tgt, (Str, RString)) and isinstance(a[1], Agg):
        ch = list(tgt.ch); i, j = byte_range(it, ch, a[1]); return Str(ch[i:j])
    return _old_index(it, a, info)
_old_collect = collect_into
def collect_into2(it, src, target):
    t = parse_ty(target) if target else None
    name = t[1] if t and t[0] == 'path' else None
    if name == 'BTreeSet':
        s = RBSet()
        for v in drain(it, src): sinsert(it, s, v)
        return s
    if name in ('HashMap', 'BTreeMap'):
        m = RBMap() if name == 'BTreeMap' else RMap()
        for v in drain(it, src): minsert(it, m, v.f[0], v.f[1])
        return m
    if name in ('Rc', 'Arc') and t[3]: return RRc(collect_into2(it, src, show_ty(t[3][0])))
    if name == 'Cow': return Enum('Cow', 'Owned', 1, [collect_into2(it, src, 'String' if 'str' in target else 'Vec<_>')])
    if name in ('Result', 'Option'):
        items = []
        for v in drain(it, src):
            if v.variant in ('Err', 'None'): return v if name == 'Result' else none()
            items.append(v.f[0])
        r = collect_into2(it, ListIter(items), show_ty(t[3][0]))
        return ok(r) if name == 'Result' else some(r)
    if t and t[0] == 'tuple' and not t[1]:
        for v in drain(it, src): pass
        return UNIT
    return _old_collect(it, src, target)
_mi.collect_into = collect_into2
@model('Iterator::collect')
def _(it, a, info): return collect_into2(it, a[0], info['mgen'][0] if info.get('mgen') else None)
@model('FromIterator::from_iter')
def _(it, a, info): return collect_into2(it, to_iter(it, a[0]), info.get('self_ty'))
_old_to_iter = to_iter
def to_iter2(it, v):
    if isinstance(v, RMap): return PairIter(v, owned=True)
    if isinstance(v, Ref) and isinstance(v.get(), RMap): return PairIter(v.get())
    if isinstance(v, RString): raise Unsupported('String into_iter')
    if isinstance(v, RBox) and isinstance(v.cell[0], (RVec, RSet, RMap)): return to_iter2(it, v.cell[0])
    return _old_to_iter(it, v)
_mi.to_iter = to_iter2; to_iter = to_iter2
@model('IntoIterator::into_iter')
def _(it, a, info): return to_iter2(it, a[0])
@model('Extend::extend')
def _(it, a, info):
    tgt = deref(a[0]); src = to_iter2(it, a[1])
    if isinstance(tgt, RMap):
        for v in drain(it, src): minsert(it, tgt, deref1(v.f[0]) if False else v.f[0], v.f[1])
    elif isinstance(tgt, RSet):
        for v in drain(it, src): sinsert(it, tgt, v)
    elif isinstance(tgt, RVec): tgt.items.extend(deep_copy(deref1(v)) if isinstance(v, Ref) and is_scalar(deref1(v)) else v for v in drain(it, src))
    elif isinstance(tgt, RString):
        for v in drain(it, src):
            v = deref(v)
            if isinstance(v, (Str, RString)): tgt.ch.extend(v.ch)
            elif isinstance(v, Enum) and v.ty == 'Cow': tgt.ch.extend(as_chars(v.f[0]))
            else: tgt.ch.append(v)
    else: raise Unsupported('extend of %r' % (tgt,))
    return UNIT

# ---- reaching the *model* of a comparison trait for a non-std aggregate means there is no MIR impl: compare structurally
from models import is_std_value
def _peel(v):
    v = deref(v)
    return v.cell[0] if isinstance(v, RBox) else v
def struct_cmp(it, x, y):
    x = _peel(x); y = _peel(y)
    if isinstance(x, Enum) and isinstance(y, Enum):
        if x.idx != y.idx: return (x.idx > y.idx) - (x.idx < y.idx)
        return compare_seq(it, x.f, y.f)
    if isinstance(x, Agg) and isinstance(y, Agg): return compare_seq(it, x.f, y.f)
    return compare(it, x, y)
def has_mir_impl(it, ty, trait, method, x, y):
    from resolve import resolve_call, Unresolved
    try: return resolve_call(it, '<%s as %s>::%s' % (ty, trait, method), [Ref([x], 0), Ref([y], 0)], [None, None], None)[0] == 'mir'
    except (Unresolved, Unsupported): return False
@model('PartialEq::eq')
def _(it, a, info):
    x, y = _peel(a[0]), _peel(a[1])
    if isinstance(x, (Agg, Enum)) and not is_std_value(x) and not has_mir_impl(it, x.ty, 'PartialEq', 'eq', x, y): return std_equal(it, x, y)
    return values_equal(it, x, y)
@model('PartialEq::ne')
def _(it, a, info):
    e = MODELS['PartialEq::eq'](it, a, info); return (not e) if isinstance(e, bool) else z3.Not(e)
@model('Ord::cmp')
def _(it, a, info):
    x = _peel(a[0])
    return ordering(struct_cmp(it, a[0], a[1]) if isinstance(x, (Agg, Enum)) and not is_std_value(x) and not has_mir_impl(it, x.ty, 'Ord', 'cmp', x, _peel(a[1])) else compare(it, a[0], a[1]))
@model('PartialOrd::partial_cmp')
def _(it, a, info):
    x = _peel(a[0])
    if isinstance(x, (Agg, Enum)) and not is_std_value(x) and has_mir_impl(it, x.ty, 'PartialOrd', 'partial_cmp', x, _peel(a[1])):
        return it.call_named('<%s as PartialOrd>::partial_cmp' % x.ty, [Ref([x], 0), Ref([_peel(a[1])], 0)], [None, None], None)
    c = struct_cmp(it, a[0], a[1]) if isinstance(x, (Agg, Enum)) and not is_std_value(x) and not has_mir_impl(it, x.ty, 'Ord', 'cmp', x, _peel(a[1])) else compare(it, a[0], a[1])
    return none() if c is None else some(ordering(c))

# ---- small integer types get the same checked / wrapping / saturating family as the wide ones
def _arith_family(n):
    bits, signed = INT_TYS[n]
    def chk(it, a, info):
        op = {'checked_add': 'AddWithOverflow', 'checked_sub': 'SubWithOverflow', 'checked_mul': 'MulWithOverflow'}[info['method']]
        r = do_binop(op, a[0], a[1], n); return none() if truth(it, r.f[1]) else some(r.f[0])
    def wrp(it, a, info):
        return do_binop({'wrapping_add': 'Add', 'wrapping_sub': 'Sub', 'wrapping_mul': 'Mul'}[info['method']], a[0], a[1], n)
    def sat(it, a, info):
        m = info['method']; r = do_binop({'saturating_add': 'AddWithOverflow', 'saturating_sub': 'SubWithOverflow'}[m], a[0], a[1], n)
        if not truth(it, r.f[1]): return r.f[0]
        lo, hi = int_range(n)
        if not signed: return lo if m == 'saturating_sub' else hi
        neg_b = truth(it, do_binop('Lt', a[1], 0, n))
        return (lo if neg_b else hi) if m == 'saturating_add' else (hi if neg_b else lo)
    def shl(it, a, info):
        m = info['method']; x, k = a[0], a[1]
        if is_sym(x) or is_sym(k): raise Unsupported('symbolic shift method')
        if m.startswith('checked') and k >= bits: return none()
        k %= bits; u = x & ((1 << bits) - 1)
        if 'shl' in m: r = wrap_int(u << k, (bits, signed))
        else: r = (x >> k) if signed else (u >> k)
        return some(r) if m.startswith('checked') else r
    def rot(it, a, info):
        x, k = a[0], a[1]
        if is_sym(x) or is_sym(k): raise Unsupported('symbolic rotate')
        k %= bits; u = x & ((1 << bits) - 1)
        if info['method'] == 'rotate_right': k = (bits - k) % bits
        return wrap_int(((u << k) | (u >> (bits - k))) & ((1 << bits) - 1), (bits, signed))
    for m_ in ('checked_add', 'checked_sub', 'checked_mul'): model(n + '::' + m_)(chk)
    for m_ in ('wrapping_add', 'wrapping_sub', 'wrapping_mul'): model(n + '::' + m_)(wrp)
    for m_ in ('saturating_add', 'saturating_sub'): model(n + '::' + m_)(sat)
    for m_ in ('checked_shl', 'checked_shr', 'wrapping_shl', 'wrapping_shr'): model(n + '::' + m_)(shl)
    for m_ in ('rotate_left', 'rotate_right'): model(n + '::' + m_)(rot)
for _n in INT_TYS: _arith_family(_n)
@model('slice::split_at_mut', 'slice::split_at')
def _(it, a, info):
    base, lo, hi = seqview(it, a[0]); m = a[1]
    if m > hi - lo: raise RustPanic('mid > len')
    return Agg('tuple', [SliceRef(base, lo, lo + m), SliceRef(base, lo + m, hi)])
_old_tryinto = MODELS['TryInto::try_into']
@model('TryInto::try_into')
def _(it, a, info):
    if is_scalar(a[0]): return _old_tryinto(it, a, info)
    tr = parse_ty(info.get('trait') or ''); dst = show_ty(tr[3][0]) if tr[0] == 'path' and tr[3] else None
    return it.call_named('<%s as TryFrom<%s>>::try_from' % (dst, info.get('self_ty')), [a[0]], [info.get('self_ty')], None)

_old_from = MODELS['From::from']
@model('From::from')
def _(it, a, info):
    v = a[0]; dst = parse_ty(info.get('self_ty') or ''); tr = parse_ty(info.get('trait') or '')
    src = tr[3][0] if tr[0] == 'path' and tr[3] else None
    dn = dst[1] if dst[0] == 'path' else None
    sn = src[1] if src and src[0] == 'path' else None
    if dn == 'Option' and not (isinstance(v, Enum) and v.ty == 'Option' and sn == 'Option'):
        if src is not None and src[0] == 'ref' and src[2][0] == 'path' and src[2][1] == 'Option':      # From<&Option<T>> for Option<&T>
            o = deref(v); return some(Ref(o.f, 0)) if o.variant == 'Some' else none()
        return some(v)
    if dn in ('Rc', 'Arc'):
        inner = dst[3][0] if dst[3] else None
        if inner and inner[0] == 'path' and inner[1] == 'str': return RRc(Str(as_chars(v)))
        if inner and inner[0] == 'slice': return RRc(RVec(list(as_items(v))))
        return RRc(v)
    if dn == 'Box':
        inner = dst[3][0] if dst[3] else None
        if inner and inner[0] == 'path' and inner[1] == 'str': return RBox(Str(as_chars(v)))
        if inner and inner[0] == 'slice': return RBox(v if isinstance(v, RVec) else RVec([deep_copy(x) for x in as_items(v)]))
        if inner and inner[0] == 'opaque' and inner[1].startswith('dyn '):
            pv = deref(v)
            if isinstance(pv, (Str, RString)): return RBox(Opaque('ioerror', (None, RString(pv.ch))))      # Box<dyn Error> from a message
            return v if isinstance(v, RBox) else RBox(v)
        return v if isinstance(v, RBox) and sn == 'Box' else RBox(v)
    if dn == 'Cow':
        pv = deref(v)
        if isinstance(pv, Enum) and pv.ty == 'Cow': return pv
        owned = isinstance(v, (RString, RVec))
        return Enum('Cow', 'Owned' if owned else 'Borrowed', 1 if owned else 0, [v if owned else (Str(pv.ch) if isinstance(pv, (Str, RString)) else v)])
    if dn == 'String':
        pv = deref(v)
        if isinstance(pv, Enum) and pv.ty == 'Cow': return RString(as_chars(pv.f[0]))
        if isinstance(pv, (Str, RString)): return v if isinstance(v, RString) else RString(pv.ch)
        if isinstance(pv, RBox): return RString(as_chars(pv))
        if isinstance(pv, int) or is_sym(pv): return RString([pv])
    if dn in ('Vec', 'VecDeque', 'BinaryHeap'):
        pv = deref(v)
        if isinstance(pv, (Str, RString)): return RVec(utf8_bytes(it, list(pv.ch)))
        if isinstance(pv, Enum) and pv.ty == 'Cow': pv = deref(pv.f[0])
        if isinstance(v, RVec): return v
        if isinstance(pv, RBox): pv = pv.cell[0]
        return RVec([deep_copy(x) for x in as_items(pv)]) if not isinstance(v, Agg) else RVec(list(v.f))
    if dn in ('HashSet', 'BTreeSet'):
        s = RBSet() if dn == 'BTreeSet' else RSet()
        for x in as_items(v): sinsert(it, s, x)
        return s
    if dn in ('HashMap', 'BTreeMap'):
        m = RBMap() if dn == 'BTreeMap' else RMap()
        for x in as_items(v): minsert(it, m, x.f[0], x.f[1])
        return m
    if dn in ('f64', 'f32') and is_scalar(v):
        if isinstance(v, (int, bool)) and not isinstance(v, float): return float(v)
        if is_sym(v) and z3.is_bv(v):
            sinfo = INT_TYS.get(sn, (v.size(), False))
            return z3.fpSignedToFP(RNE, v, z3.Float64()) if sinfo[1] else z3.fpUnsignedToFP(RNE, v, z3.Float64())
        return v
    if dn in INT_TYS and is_scalar(v):
        if isinstance(v, bool): return int(v)
        if is_sym(v):
            if z3.is_bool(v): return z3.If(v, z3.BitVecVal(1, INT_TYS[dn][0]), z3.BitVecVal(0, INT_TYS[dn][0]))
            db = INT_TYS[dn][0]; sb = v.size(); sinfo = INT_TYS.get(sn, (sb, False))
            return v if db == sb else (z3.SignExt(db - sb, v) if sinfo[1] else z3.ZeroExt(db - sb, v)) if db > sb else z3.Extract(db - 1, 0, v)
        return v
    if dn == 'char' and is_scalar(v):
        return z3.ZeroExt(24, v) if is_sym(v) and v.size() == 8 else v
    return _old_from(it, a, info)

# ------------------------------------------------------------------ found by the benign-refactor round
from models_coll import HasherState, hasher_of, feed, uf
@model('BuildHasherDefault::default', 'BuildHasherDefault::new')
def _(it, a, info): return Opaque('randomstate', None)
@model('BuildHasher::hash_one')
def _(it, a, info):
    h = Opaque('hasher', HasherState()); v = a[1]
    ty = info['mgen'][0] if info.get('mgen') else None
    pv = deref(v)
    if isinstance(pv, RBox): pv = pv.cell[0]
    if isinstance(pv, (Agg, Enum)) and not is_std_value(pv):
        it.call_named('<%s as Hash>::hash' % pv.ty, [Ref([pv], 0), Ref([h], 0)], [None, None], None)
    else: feed(it, pv, h.data, ty)
    return uf('Fin', 1)(h.data.h)
@model('ToOwned::clone_into')
def _(it, a, info):
    src = deref(a[0]); dst = deref(a[1])
    if isinstance(dst, RString): dst.ch[:] = as_chars(src)
    elif isinstance(dst, RVec): dst.items[:] = [deep_copy(x) for x in as_items(src)]
    else: raise Unsupported('clone_into %r' % (dst,))
    return UNIT
@model('Clone::clone_from')
def _(it, a, info):
    src = deref1(a[1]); a[0].set(deep_copy(src)); return UNIT
_default_active = set()
_old_default_of = default_of
def default_of(it, ty):
    key = ty if isinstance(ty, str) else show_ty(ty) if ty else None
    t = parse_ty(ty) if isinstance(ty, str) else ty
    if t is not None and t[0] == 'path' and t[1] == 'BuildHasherDefault': return Opaque('randomstate', None)
    if key in _default_active: raise Unsupported('Default::default of ' + str(key))
    _default_active.add(key)
    try: return _old_default_of(it, ty)
    finally: _default_active.discard(key)
@model('Default::default')
def _(it, a, info): return default_of(it, info.get('self_ty'))

@model('slice::get', 'slice::get_mut', 'Vec::get', 'Vec::get_mut')
def _(it, a, info):
    base, lo, hi = seqview(it, a[0]); i = a[1]; n = hi - lo
    if isinstance(i, Agg):                                   # range argument -> Option<&[T]>
        try: s, e = range_bounds(it, i, n)
        except RustPanic: return none()
        return some(SliceRef(base, lo + s, lo + e))
    if is_sym(i):
        if not truth(it, z3.ULT(i, n)): return none()
        i = small_value(it, i, n)
    return some(Ref(base, lo + i)) if 0 <= i < n else none()
@model('slice::get_unchecked', 'slice::get_unchecked_mut')
def _(it, a, info):
    r = MODELS['slice::get'](it, a, info)
    if r.variant == 'None': raise RustPanic('get_unchecked out of bounds (UB)')
    return r.f[0]
@model('from_ref', 'slice::from_ref', 'from_mut', 'slice::from_mut')
def _(it, a, info):
    r = a[0]
    if isinstance(r, Ref): return SliceRef(r.c, r.k, r.k + 1)
    return SliceRef([r], 0, 1)
@model('slice::first_chunk', 'slice::last_chunk', 'slice::split_first_chunk')
def _(it, a, info): raise Unsupported(info['method'])

def slice_eq_at(it, hay, i, pat):
    if i < 0 or i + len(pat) > len(hay): return False
    for x, y in zip(hay[i:i + len(pat)], pat):
        if not truth(it, values_equal(it, x, y)): return False
    return True
@model('slice::strip_prefix')
def _(it, a, info):
    base, lo, hi = seqview(it, a[0]); pat = list(as_items(a[1]))
    return some(SliceRef(base, lo + len(pat), hi)) if slice_eq_at(it, base[lo:hi], 0, pat) else none()
@model('slice::strip_suffix')
def _(it, a, info):
    base, lo, hi = seqview(it, a[0]); pat = list(as_items(a[1])); n = hi - lo
    return some(SliceRef(base, lo, hi - len(pat))) if slice_eq_at(it, base[lo:hi], n - len(pat), pat) else none()
@model('slice::starts_with')
def _(it, a, info):
    return slice_eq_at(it, list(as_items(a[0])), 0, list(as_items(a[1])))
@model('slice::ends_with')
def _(it, a, info):
    hay = list(as_items(a[0])); pat = list(as_items(a[1])); return slice_eq_at(it, hay, len(hay) - len(pat), pat)
@model('slice::iter_position')
def _(it, a, info): raise Unsupported('iter_position')
@model('slice::rsplit', 'slice::splitn', 'slice::rsplitn', 'slice::split_inclusive')
def _(it, a, info):
    m = info['method']; base, lo, hi = seqview(it, a[0])
    f = a[2] if m in ('splitn', 'rsplitn') else a[1]; lim = a[1] if m in ('splitn', 'rsplitn') else None
    cuts = [i for i in range(lo, hi) if truth(it, call_closure_like(it, f, [Ref(base, i)]))]
    if m == 'split_inclusive':
        out = []; st = lo
        for c in cuts: out.append(SliceRef(base, st, c + 1)); st = c + 1
        if st < hi: out.append(SliceRef(base, st, hi))
        return ListIter(out)
    if m == 'rsplit' or m == 'rsplitn':
        if lim is not None: cuts = cuts[len(cuts) - (lim - 1):] if lim - 1 < len(cuts) else cuts
        if lim == 0: return ListIter([])
        out = []; en = hi
        for c in reversed(cuts): out.append(SliceRef(base, c + 1, en)); en = c
        out.append(SliceRef(base, lo, en)); return ListIter(out)
    if lim == 0: return ListIter([])
    cuts = cuts[:lim - 1]; out = []; st = lo
    for c in cuts: out.append(SliceRef(base, st, c)); st = c + 1
    out.append(SliceRef(base, st, hi)); return ListIter(out)

# ------------------------------------------------------------------ thread_local! (state lives in the interpreter's per-execution statics)
@model('LocalKey::new')
def _(it, a, info): return Agg('LocalKey', [a[0]])
def _tls_ptr(it, key):
    k = deref(key)
    if not (isinstance(k, Agg) and k.ty == 'LocalKey'): raise Unsupported('thread-local key %r' % (k,))
    p = it.call_value(k.f[0], [none()])
    if not isinstance(p, Ref): raise Unsupported('thread-local accessor returned %r' % (p,))
    return p
@model('LocalKey::with', 'LocalKey::try_with')
def _(it, a, info):
    r = call_closure_like(it, a[1], [_tls_ptr(it, a[0])])
    return ok(r) if info['method'] == 'try_with' else r
@model('LocalKey::with_borrow', 'LocalKey::with_borrow_mut')
def _(it, a, info):
    p = _tls_ptr(it, a[0]); c = deref(p)
    return call_closure_like(it, a[1], [Ref(c.cell, 0) if isinstance(c, RBox) else p])
@model('LocalKey::get')
def _(it, a, info): return deep_copy(deref(_tls_ptr(it, a[0])).cell[0])
@model('LocalKey::set')
def _(it, a, info): deref(_tls_ptr(it, a[0])).cell[0] = a[1]; return UNIT
@model('LocalKey::replace')
def _(it, a, info):
    c = deref(_tls_ptr(it, a[0])); o = c.cell[0]; c.cell[0] = a[1]; return o
@model('LocalKey::take')
def _(it, a, info):
    c = deref(_tls_ptr(it, a[0])); o = c.cell[0]; c.cell[0] = default_of(it, (info.get('owner_gen') or [None])[0] and parse_ty(info['owner_gen'][0])[3][0]); return o
@model('EagerStorage::new')
def _(it, a, info): return Agg('EagerStorage', [a[0]])
@model('EagerStorage::get')
def _(it, a, info): return Ref(deref(a[0]).f, 0)
@model('LazyStorage::new')
def _(it, a, info): return Agg('LazyStorage', [UNINIT])
@model('LazyStorage::get_or_init')
def _(it, a, info):
    s = deref(a[0])
    if s.f[0] is UNINIT:
        init = a[1]
        v = None
        if isinstance(init, Enum) and init.variant == 'Some':
            o = deref(init.f[0])
            if isinstance(o, Enum) and o.variant == 'Some': v = o.f[0]
        s.f[0] = v if v is not None else call_closure_like(it, a[2], [])
    return Ref(s.f, 0)
@model('needs_drop')
def _(it, a, info):
    t = (info.get('mgen') or [''])[0]
    return bool(re.search(r'\b(String|Vec|Box|Rc|Arc|HashMap|HashSet|BTreeMap|BTreeSet|VecDeque)\b', t))
@model('RefCell::borrow', 'RefCell::borrow_mut', 'RefCell::try_borrow', 'RefCell::try_borrow_mut', 'Cell::get_mut', 'RefCell::get_mut', 'Cell::as_ptr', 'RefCell::as_ptr')
def _(it, a, info):
    r = Ref(deref(a[0]).cell, 0)
    return ok(r) if info['method'].startswith('try_') else r
@model('Cell::take', 'RefCell::take')
def _(it, a, info):
    c = deref(a[0]); o = c.cell[0]; c.cell[0] = default_of(it, (info.get('owner_gen') or [None])[0]); return o
@model('Cell::update')
def _(it, a, info):
    c = deref(a[0]); c.cell[0] = call_closure_like(it, a[1], [c.cell[0]]); return UNIT
@model('Cell::replace', 'RefCell::replace')
def _(it, a, info):
    c = deref(a[0]); o = c.cell[0]; c.cell[0] = a[1]; return o
