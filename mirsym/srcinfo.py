"""Light-weight scan of Rust sources for the facts textual MIR does not carry:
struct field order, enum variant order, type aliases, impl headers (by file:line),
and the generic parameter names of fns/impls.  Regenerated from the tree on every run."""
import os, re

def blank_comments_and_strings(src):
    out = []; i = 0; n = len(src)
    while i < n:
        c = src[i]
        if src.startswith('//', i):
            j = src.find('\n', i)
            if j < 0: j = n
            out.append(' ' * (j - i)); i = j; continue
        if src.startswith('/*', i):
            depth = 1; j = i + 2
            while j < n and depth:
                if src.startswith('/*', j): depth += 1; j += 2
                elif src.startswith('*/', j): depth -= 1; j += 2
                else: j += 1
            out.append(''.join(ch if ch == '\n' else ' ' for ch in src[i:j])); i = j; continue
        if c == 'r' and re.match(r'r#*"', src[i:]):
            m = re.match(r'r(#*)"', src[i:]); h = m.group(1)
            end = src.find('"' + h, i + len(m.group(0)))
            j = end + 1 + len(h)
            out.append('""' + ''.join(ch if ch == '\n' else ' ' for ch in src[i + 2:j])); i = j; continue
        if c == '"':
            j = i + 1
            while j < n:
                if src[j] == '\\': j += 2; continue
                if src[j] == '"': break
                j += 1
            out.append('"' + ''.join(ch if ch == '\n' else ' ' for ch in src[i + 1:j]) + '"'); i = j + 1; continue
        if c == "'":
            m = re.match(r"'(\\u\{[0-9a-fA-F]+\}|\\.|[^\\'])'", src[i:])
            if m:
                out.append("' '" + ' ' * (len(m.group(0)) - 3)); i += len(m.group(0)); continue
        out.append(c); i += 1
    return ''.join(out)

def match_bracket(s, i):
    o = s[i]; c = {'(': ')', '[': ']', '{': '}', '<': '>'}[o]
    depth = 0; n = len(s)
    while i < n:
        ch = s[i]
        if ch == o: depth += 1
        elif ch == c:
            if not (c == '>' and s[i - 1] in '-='):
                depth -= 1
                if depth == 0: return i
        i += 1
    return -1

def split_top(s, sep=','):
    out = []; depth = 0; cur = []
    for i, ch in enumerate(s):
        if ch in '([{<': depth += 1
        elif ch in ')]}': depth -= 1
        elif ch == '>' and not (i > 0 and s[i - 1] in '-='): depth -= 1
        if ch == sep and depth == 0:
            out.append(''.join(cur).strip()); cur = []
        else: cur.append(ch)
    t = ''.join(cur).strip()
    if t: out.append(t)
    return out

def generic_names(g):
    """'<'a, T: Foo<X>, const N: usize>' (without the outer <>) -> ['T','N']"""
    names = []
    for p in split_top(g):
        p = p.strip()
        if not p or p.startswith("'"): continue
        if p.startswith('const '): p = p[6:]
        m = re.match(r'^([A-Za-z_]\w*)', p)
        if m: names.append(m.group(1))
    return names

class SrcInfo:
    def __init__(self):
        self.structs = {}     # name -> list of (fields list) per definition  [(file, [field names])]
        self.enums = {}       # name -> [(file, [(variant, [field names] or int arity)])]
        self.aliases = {}     # name -> target text
        self.impls = {}       # (relfile, line) -> dict(trait, self_ty, generics)
        self.fns = {}         # (relfile, line) -> dict(name, generics, impl_key)
        self.fn_by_name = {}  # name -> [(relfile, line)]
        self.files = {}

    def scan_tree(self, root, rel_prefix=''):
        for dp, dn, fnames in os.walk(root):
            if '/target' in dp or '/.git' in dp: continue
            for f in fnames:
                if f.endswith('.rs'):
                    p = os.path.join(dp, f)
                    rel = os.path.relpath(p, root)
                    self.scan_file(p, rel_prefix + rel)

    def scan_file(self, path, rel):
        raw = open(path, encoding='utf-8').read()
        src = blank_comments_and_strings(raw)
        self.files[rel] = src
        line_of = lambda pos: src.count('\n', 0, pos) + 1
        # structs
        for m in re.finditer(r'\bstruct\s+([A-Za-z_]\w*)', src):
            name = m.group(1); i = m.end()
            # skip generics
            while i < len(src) and src[i].isspace(): i += 1
            if i < len(src) and src[i] == '<':
                i = match_bracket(src, i) + 1
            # where clauses / tuple / unit
            j = i
            while j < len(src) and src[j] not in '{(;': j += 1
            if j >= len(src) or src[j] == ';': self.structs.setdefault(name, []).append((rel, [])); continue
            if src[j] == '(':
                e = match_bracket(src, j)
                n = len(split_top(src[j + 1:e]))
                self.structs.setdefault(name, []).append((rel, [str(k) for k in range(n)])); continue
            e = match_bracket(src, j)
            self.structs.setdefault(name, []).append((rel, self._field_names(src[j + 1:e])))
        # enums
        for m in re.finditer(r'\benum\s+([A-Za-z_]\w*)', src):
            name = m.group(1); i = m.end()
            while i < len(src) and src[i].isspace(): i += 1
            if i < len(src) and src[i] == '<': i = match_bracket(src, i) + 1
            j = src.find('{', i)
            if j < 0: continue
            e = match_bracket(src, j)
            variants = []
            for v in split_top(src[j + 1:e]):
                v = re.sub(r'#\[[^\]]*\]', '', v).strip()
                if not v: continue
                mm = re.match(r'^([A-Za-z_]\w*)\s*(.*)$', v, re.S)
                vn = mm.group(1); rest = mm.group(2).strip()
                if rest.startswith('('):
                    ee = match_bracket(rest, 0)
                    variants.append((vn, [str(k) for k in range(len(split_top(rest[1:ee])))]))
                elif rest.startswith('{'):
                    ee = match_bracket(rest, 0)
                    variants.append((vn, self._field_names(rest[1:ee])))
                else:
                    variants.append((vn, []))
            self.enums.setdefault(name, []).append((rel, variants))
        # type aliases
        for m in re.finditer(r'\btype\s+([A-Za-z_]\w*)\s*', src):
            i = m.end(); gens = ''
            if i < len(src) and src[i] == '<':
                e = match_bracket(src, i); gens = src[i:e + 1]; i = e + 1
            mm = re.match(r'\s*=\s*([^;]+);', src[i:])
            if mm:
                self.aliases.setdefault(m.group(1), []).append((gens, ' '.join(mm.group(1).split()), rel))
        # `use path::Name as Alias;` renames act like type aliases for impl headers written with the alias
        for um in re.finditer(r'(?ms)^[ \t]*(?:pub(?:\([^)]*\))?\s+)?use\s+(.*?);', src):
            for am in re.finditer(r'([A-Za-z_]\w*)\s+as\s+([A-Za-z_]\w*)', um.group(1)):
                if am.group(1) != am.group(2) and am.group(2) != '_' and am.group(1)[:1].isupper():
                    self.aliases.setdefault(am.group(2), []).append(('', am.group(1), rel))
        # impl headers
        for m in re.finditer(r'(?m)^[ \t]*(?:unsafe\s+)?impl\b', src):
            i = m.end(); start_line = line_of(m.start() + len(m.group(0)) - 4)
            k = i
            while k < len(src) and src[k].isspace(): k += 1
            generics = []
            if k < len(src) and src[k] == '<':
                e = match_bracket(src, k); generics = generic_names(src[k + 1:e]); k = e + 1
            j = k
            depth = 0
            while j < len(src):
                ch = src[j]
                if ch in '(<[': depth += 1
                elif ch in ')]': depth -= 1
                elif ch == '>' and src[j - 1] not in '-=': depth -= 1
                elif ch == '{' and depth == 0: break
                j += 1
            header = ' '.join(src[k:j].split())
            header = re.split(r'\bwhere\b', header)[0].strip()
            trait = None; self_ty = header
            mm = re.match(r'^(.*?)\s+for\s+(.*)$', header)
            if mm and not header.startswith('for<'):
                trait, self_ty = mm.group(1).strip(), mm.group(2).strip()
            body_end = match_bracket(src, j) if j < len(src) else j
            assoc = {}
            if trait is not None:
                for am in re.finditer(r'\btype\s+(\w+)\s*(?:<[^=]*>)?\s*=\s*([^;]+);', src[j:body_end]):
                    assoc[am.group(1)] = ' '.join(am.group(2).split())
            self.impls[(rel, start_line)] = dict(trait=trait, self_ty=self_ty, generics=generics, body=(j, body_end), file=rel, assoc=assoc)
        # fns
        for m in re.finditer(r'\bfn\s+([A-Za-z_]\w*)\s*(<)?', src):
            name = m.group(1); gens = []
            if m.group(2):
                k = m.end() - 1; e = match_bracket(src, k); gens = generic_names(src[k + 1:e]); k = e + 1
            else:
                k = m.end()
            # anonymous `impl Trait` params, in order
            pe = None
            while k < len(src) and src[k].isspace(): k += 1
            if k < len(src) and src[k] == '(':
                pe = match_bracket(src, k)
                params = src[k + 1:pe]
                anon = []
                for p in split_top(params):
                    for mm in re.finditer(r'\bimpl\s+', p):
                        # capture the impl-trait type text up to depth-0 end
                        t = p[mm.start():]
                        depth_ = 0
                        for k_, ch_ in enumerate(t):
                            if ch_ in '([<': depth_ += 1
                            elif ch_ in ')]' or (ch_ == '>' and t[k_ - 1] not in '-='):
                                depth_ -= 1
                                if depth_ < 0: t = t[:k_]; break
                        # cut at a top-level ',' or ')' — p is already one param; strip trailing
                        anon.append(' '.join(t.split()))
                        break
                gens = gens + anon
            ln = line_of(m.start())
            self.fns[(rel, ln)] = dict(name=name, generics=gens, pos=m.start(), file=rel)
            self.fn_by_name.setdefault(name, []).append((rel, ln))

    @staticmethod
    def _field_names(body):
        names = []
        for f in split_top(body):
            f = re.sub(r'#\[[^\]]*\]', '', f).strip()
            f = re.sub(r'^pub(\([^)]*\))?\s+', '', f)
            mm = re.match(r'^([A-Za-z_]\w*)\s*:', f)
            if mm: names.append(mm.group(1))
        return names

    # ---- queries
    def derive_at(self, relfile, line, c1, c2, rawsrc=None):
        """impl generated by #[derive(Trait)] whose span is the trait token at line:c1..c2 -> impl dict"""
        src = self.files.get(relfile)
        if src is None: return None
        lines = src.split('\n')
        if line - 1 >= len(lines): return None
        tok = lines[line - 1][c1 - 1:c2 - 1].strip()
        if not re.match(r'^[A-Za-z_]\w*$', tok): return None
        rest = '\n'.join(lines[line - 1:])
        m = re.search(r'\b(struct|enum)\s+([A-Za-z_]\w*)\s*(<[^>{(;]*>)?', rest)
        if not m: return None
        gens = generic_names(m.group(3)[1:-1]) if m.group(3) else []
        return dict(trait=tok, self_ty=m.group(2) + (m.group(3) or ''), generics=gens, body=(0, 0), file=relfile, derived=True)

    def alias_for(self, name, ctx_file):
        """alias target text if `name`, written in `ctx_file`, denotes a type alias (not a same-named ADT)"""
        als = self.aliases.get(name)
        if not als: return None
        def closeness(f):
            a = f.split('/'); b = (ctx_file or '').split('/'); n = 0
            for x, y in zip(a, b):
                if x != y: break
                n += 1
            return n
        best_alias = max(als, key=lambda t: closeness(t[2]))
        adts = [rel for rel, _ in self.structs.get(name, [])] + [rel for rel, _ in self.enums.get(name, [])]
        if adts and max(closeness(f) for f in adts) >= closeness(best_alias[2]):
            return None
        return best_alias[1]

    def impl_at(self, relfile, line):
        return self.impls.get((relfile, line))

    def fn_in_impl(self, relfile, impl_line, name):
        imp = self.impls.get((relfile, impl_line))
        if not imp: return None
        src = self.files[relfile]
        a, b = imp['body']
        best = None
        for (rf, ln) in self.fn_by_name.get(name, []):
            if rf != relfile: continue
            d = self.fns[(rf, ln)]
            if a <= d['pos'] <= b:
                if best is None or d['pos'] < best['pos']: best = d
        return best

    def free_fn(self, name, module_hint=''):
        cands = [self.fns[k] for k in self.fn_by_name.get(name, [])]
        if not cands: return None
        if len(cands) == 1: return cands[0]
        hint = module_hint.replace('::', '/')
        for c in cands:
            if hint and hint in c['file'].replace('.rs', ''): return c
        return cands[0]

    def struct_fields(self, name, field_hint=None):
        defs = self.structs.get(name)
        if not defs: return None
        if len(defs) == 1 or not field_hint: return defs[0][1]
        for rel, fs in defs:
            if set(fs) == set(field_hint): return fs
        for rel, fs in defs:
            if all(h in fs for h in field_hint): return fs
        return defs[0][1]

    def enum_variants(self, name, variant_hint=None):
        defs = self.enums.get(name)
        if not defs: return None
        if len(defs) == 1 or variant_hint is None: return defs[0][1]
        for rel, vs in defs:
            if any(v == variant_hint for v, _ in vs): return vs
        return None

if __name__ == '__main__':
    import sys
    si = SrcInfo(); si.scan_tree(sys.argv[1])
    print(len(si.structs), 'structs', len(si.enums), 'enums', len(si.impls), 'impls', len(si.fns), 'fns', len(si.aliases), 'aliases')
    print(si.struct_fields('ParseState'), si.struct_fields('NarseseFormat'))
    print(si.enum_variants('Term', 'Word')[:4], si.enum_variants('Term', 'Atom'))
    for k, v in list(si.impls.items())[:8]: print(k, v['trait'], '|', v['self_ty'], v['generics'])
    print(si.aliases)
