"""Native oracle process (the REAL compiled crate): build, query, compare."""
import os, sys, json, subprocess, struct, shutil, threading
HERE = os.path.dirname(os.path.abspath(__file__))
from engine import REPO, WORK_ROOT, tree_digest

def _die_with_parent():
    # a replayed input may loop forever (that is what the 20 s timeout detects): never leave such a child behind
    try:
        import ctypes, signal
        ctypes.CDLL('libc.so.6', use_errno=True).prctl(1, signal.SIGKILL)      # PR_SET_PDEATHSIG
    except Exception: pass

def _src_digest():
    import hashlib
    h = hashlib.sha256()
    for f in ('src/main.rs', 'Cargo.toml'):
        h.update(open(os.path.join(HERE, '..', 'native', 'oracle', f), 'rb').read())
    return h.hexdigest()[:8]

class Oracle:
    def __init__(self, work=None):
        self.work = work or os.path.join(WORK_ROOT, 'oracle_' + _src_digest() + '_' + tree_digest(REPO))
        self.proc = None
        self.n = 0
        self.build_s = 0.0
        self.lock = threading.Lock()

    def exe(self): return os.path.join(self.work, 'narsese_oracle')

    def build(self):
        import time, fcntl
        if os.path.exists(os.path.join(self.work, 'ok')) and os.path.exists(self.exe()): return
        t = time.time()
        os.makedirs(self.work, exist_ok=True)
        with open(os.path.join(self.work, 'lock'), 'w') as lf:
            fcntl.flock(lf, fcntl.LOCK_EX)
            if os.path.exists(os.path.join(self.work, 'ok')) and os.path.exists(self.exe()): return
            src = os.path.join(self.work, 'crate')
            if os.path.exists(src): shutil.rmtree(src)
            shutil.copytree(os.path.join(HERE, '..', 'native', 'oracle'), src, ignore=shutil.ignore_patterns('target'))
            # path dependency on the repo under test (REPO may be overridden for seeded-change experiments)
            ct = open(os.path.join(src, 'Cargo.toml')).read().replace('path = "/repo"', 'path = "%s"' % REPO)
            open(os.path.join(src, 'Cargo.toml'), 'w').write(ct)
            lockf = os.path.join(REPO, 'Cargo.lock')
            env = dict(os.environ, CARGO_NET_OFFLINE='true', CARGO_TARGET_DIR=os.path.join(self.work, 'target'))
            r = subprocess.run(['cargo', 'build', '--offline'], cwd=src, env=env, capture_output=True, text=True)
            if r.returncode != 0:
                raise RuntimeError('oracle build failed:\n' + r.stderr[-4000:])
            shutil.copy(os.path.join(self.work, 'target', 'debug', 'narsese_oracle'), self.exe())
            shutil.rmtree(os.path.join(self.work, 'target'), ignore_errors=True)
            open(os.path.join(self.work, 'ok'), 'w').write('ok')
        self.build_s = time.time() - t

    def start(self):
        if self.proc is None:
            self.build()
            self.proc = subprocess.Popen([self.exe()], stdin=subprocess.PIPE, stdout=subprocess.PIPE, text=True, bufsize=1, preexec_fn=_die_with_parent)

    def ask(self, op, *args, timeout=20.0):
        import select
        with self.lock:
            self.start()
            self.n += 1
            line = '\t'.join([str(self.n), op] + list(args))
            self.proc.stdin.write(line + '\n'); self.proc.stdin.flush()
            ready, _, _ = select.select([self.proc.stdout], [], [], timeout)
            if not ready:
                # the native code did not answer: non-termination (or far beyond any reasonable time bound)
                self.proc.kill(); self.proc.wait(); self.proc = None
                return ('timeout', None)
            out = self.proc.stdout.readline()
            if not out:
                self.proc = None
                return ('crash', None)
            i, status, payload = out.rstrip('\n').split('\t', 2)
            assert i == str(self.n), (i, self.n)
            return (status, json.loads(payload))

    def close(self):
        if self.proc is not None:
            try: self.proc.stdin.close(); self.proc.wait(timeout=5)
            except Exception: self.proc.kill()
            self.proc = None

    def cleanup(self):
        self.close(); shutil.rmtree(self.work, ignore_errors=True)

def hexs(s):
    """string or list of code points -> oracle hex encoding"""
    cps = [ord(c) for c in s] if isinstance(s, str) else list(s)
    return ','.join('%x' % c for c in cps) if cps else '-'

def fbits(f): return '%016x' % struct.unpack('<Q', struct.pack('<d', f))[0]
def bits_to_f(h): return struct.unpack('<d', struct.pack('<Q', int(h, 16)))[0]
