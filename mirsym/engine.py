"""Builds the MIR dumps from /repo's current tree and exposes a small API to run the crate's real code
symbolically: Engine.load() -> Program;  Engine.new_interp(ctx);  helpers to build/inspect values."""
import os, sys, subprocess, shutil, glob, json, time, hashlib, re
HERE = os.path.dirname(os.path.abspath(__file__))
sys.path.insert(0, HERE)
import z3
from srcinfo import SrcInfo
from values import *
import interp as _interp
from interp import Program, Interp, PathCtx, RustPanic, Unsupported, StepLimit, Infeasible
import models, models_str, models_iter, models_coll
import models_fmt, models_std2
from resolve import Unresolved

REPO = os.environ.get('VERIF_REPO', '/repo')
WORK_ROOT = os.environ.get('VERIF_WORK', '/var/tmp/narsese_verif_work')

NARSESE_TY = ('narsese_value::NarseseValue<enum_narsese::term::structs::Term, enum_narsese::sentence::Sentence, '
              'enum_narsese::task::Task>')
FMT_TY = 'conversion::string::impl_enum::format::NarseseFormat<&str>'
PERR_TY = 'conversion::string::impl_enum::parser::ParseError'

def tree_digest(root):
    h = hashlib.sha256()
    for dp, dn, fn in sorted(os.walk(os.path.join(root, 'src'))):
        dn.sort()
        for f in sorted(fn):
            p = os.path.join(dp, f)
            h.update(p.encode()); h.update(open(p, 'rb').read())
    for f in ('Cargo.toml', 'Cargo.lock'):
        p = os.path.join(root, f)
        if os.path.exists(p): h.update(open(p, 'rb').read())
    return h.hexdigest()[:16]

class Engine:
    """one per process; `load()` regenerates everything from REPO's working tree (cached per tree digest for the
    lifetime of the scratch dir, which the driver removes at the end of a check)"""
    def __init__(self, work=None):
        self.work = work or os.path.join(WORK_ROOT, 'mir_' + tree_digest(REPO))
        self.prog = None
        self.build_s = 0.0

    def build(self):
        w = self.work
        mir = os.path.join(w, 'mir.txt'); ndu = os.path.join(w, 'mir_ndu.txt'); uni = os.path.join(w, 'unitab.json')
        if all(os.path.exists(p) and os.path.getsize(p) > 0 for p in (mir, ndu, uni)) and os.path.exists(os.path.join(w, 'ok')):
            return
        t = time.time()
        os.makedirs(w, exist_ok=True)
        lock = os.path.join(w, 'lock')
        import fcntl
        with open(lock, 'w') as lf:
            fcntl.flock(lf, fcntl.LOCK_EX)
            if os.path.exists(os.path.join(w, 'ok')): return
            src = os.path.join(w, 'repo')
            if os.path.exists(src): shutil.rmtree(src)
            shutil.copytree(REPO, src, ignore=shutil.ignore_patterns('target', '.git'))
            env = dict(os.environ, CARGO_NET_OFFLINE='true', CARGO_TARGET_DIR=os.path.join(w, 'target'))
            flags = ['--', '-Zunpretty=mir', '-C', 'debug-assertions=off', '-C', 'overflow-checks=on']
            for out, extra in ((mir, ['--lib']), (ndu, ['-p', 'nar_dev_utils'])):
                r = subprocess.run(['cargo', '+nightly', 'rustc', '--offline'] + extra + flags, cwd=src, env=env,
                                   stdout=open(out, 'w'), stderr=subprocess.PIPE, text=True)
                if r.returncode != 0 or os.path.getsize(out) == 0:
                    raise RuntimeError('MIR dump failed:\n' + r.stderr[-3000:])
            exe = os.path.join(w, 'unitab')
            r = subprocess.run(['rustc', '-O', os.path.join(HERE, '..', 'native', 'unitab.rs'), '-o', exe], capture_output=True, text=True)
            if r.returncode != 0: raise RuntimeError('unitab build failed: ' + r.stderr[-2000:])
            with open(uni, 'w') as fh: subprocess.run([exe], stdout=fh, check=True)
            shutil.rmtree(os.path.join(w, 'target'), ignore_errors=True)
            open(os.path.join(w, 'ok'), 'w').write('ok')
        self.build_s = time.time() - t

    def load(self):
        if self.prog is not None: return self.prog
        self.build()
        w = self.work
        si = SrcInfo(); si.scan_tree(os.path.join(w, 'repo', 'src'))
        cands = glob.glob(os.path.expanduser('~/.cargo/registry/src/*/nar_dev_utils-*/src'))
        lock = open(os.path.join(w, 'repo', 'Cargo.lock')).read()
        m = re.search(r'name = "nar_dev_utils"\nversion = "([^"]+)"', lock)
        ver = m.group(1) if m else None
        cands = [c for c in cands if ver is None or ('nar_dev_utils-' + ver) in c]
        si.scan_tree(cands[0], 'ndu:')
        models_str.load_unitab(os.path.join(w, 'unitab.json'))
        self.prog = Program([(os.path.join(w, 'mir.txt'), 'crate'), (os.path.join(w, 'mir_ndu.txt'), 'ndu')], si)
        self.si = si
        return self.prog

    def cleanup(self):
        shutil.rmtree(self.work, ignore_errors=True)

    def new_interp(self, ctx=None, step_limit=3_000_000):
        self.load()
        return Interp(self.prog, ctx or PathCtx(), models.MODELS, step_limit)

# ---------------------------------------------------------------------- convenience API on an Interp

def find_fn(prog, suffix, must_contain=()):
    out = [f for n, f in prog.fns.items() if n.endswith(suffix) and all(m in n for m in must_contain)]
    if len(out) != 1:
        raise KeyError('fn %s %s -> %d matches' % (suffix, must_contain, len(out)))
    return out[0]

def enum_format(it, name):
    """the shipped enum format constant, as an interpreter value (fresh copy)"""
    return it.eval_const_item('conversion::string::impl_enum::format_instances::FORMAT_' + name)

def lexical_format(it, name):
    return it.call_named('conversion::string::impl_lexical::format_instances::create_format_' + name.lower(), [], [], None)

def parse_enum(it, fmt, chars, target=NARSESE_TY):
    """NarseseFormat::parse::<target>(&fmt, &str) with the &str given as a list of chars (ints or z3 BV32)"""
    text = 'conversion::string::impl_enum::format::NarseseFormat::<&str>::parse::<%s>' % target
    return it.call_named(text, [Ref([fmt], 0), Str(chars)], ['&' + FMT_TY, '&str'], 'Result<%s, %s>' % (target, PERR_TY))

def parse_enum_chars(it, fmt, chars, target=NARSESE_TY):
    text = 'conversion::string::impl_enum::format::NarseseFormat::<&str>::parse_chars::<%s>' % target
    return it.call_named(text, [Ref([fmt], 0), RVec(list(chars))], ['&' + FMT_TY, 'std::vec::Vec<char>'], 'Result<%s, %s>' % (target, PERR_TY))

def py(v):
    """interpreter value -> plain Python tree (for comparison with the native dump)"""
    if isinstance(v, Ref): return py(v.get())
    if isinstance(v, RBox): return py(v.cell[0])
    if isinstance(v, (Str, RString)): return v.py() if all(isinstance(c, int) for c in v.ch) else ['symstr'] + list(v.ch)
    if isinstance(v, Enum): return [v.variant] + [py(x) for x in v.f]
    if isinstance(v, Agg): return [v.ty.split('::')[-1]] + [py(x) for x in v.f]
    if isinstance(v, RVec): return [py(x) for x in v.items]
    if isinstance(v, RSet): return ['#set'] + [py(x) for x in v.items]
    if isinstance(v, SliceRef): return [py(x) for x in v.items()]
    if v is UNIT: return '()'
    if isinstance(v, Opaque): return '<%s>' % v.kind
    return v

LEX_FMT_TY = 'conversion::string::impl_lexical::format::NarseseFormat'
LEX_NARSESE_TY = 'narsese_value::NarseseValue<lexical::term::Term, lexical::sentence::Sentence, lexical::task::Task>'

def format_enum(it, fmt, value):
    """NarseseFormat::format_narsese(&fmt, &narsese) -> String (interpreter value)"""
    return it.call_named('conversion::string::impl_enum::format::NarseseFormat::<&str>::format_narsese',
                         [Ref([fmt], 0), Ref([value], 0)], ['&' + FMT_TY, '&' + NARSESE_TY], 'std::string::String')

def lex_parse(it, lfmt, chars):
    return it.call_named('conversion::string::impl_lexical::format::NarseseFormat::parse',
                         [Ref([lfmt], 0), Str(chars)], ['&' + LEX_FMT_TY, '&str'], None)

def lex_parse_term(it, lfmt, chars):
    return it.call_named('conversion::string::impl_lexical::format::NarseseFormat::parse_term',
                         [Ref([lfmt], 0), Str(chars)], ['&' + LEX_FMT_TY, '&str'], None)

def lex_format(it, lfmt, value):
    return it.call_named('conversion::string::impl_lexical::format::NarseseFormat::format_narsese',
                         [Ref([lfmt], 0), Ref([value], 0)], ['&' + LEX_FMT_TY, '&' + LEX_NARSESE_TY], 'std::string::String')

def lex_fold(it, value, efmt):
    """<lexical Narsese as TryFoldInto<enum Narsese, FoldError>>::try_fold_into(value, &enum_format)"""
    return it.call_named('<%s as TryFoldInto<%s, FoldError>>::try_fold_into' % (LEX_NARSESE_TY, NARSESE_TY),
                         [value, Ref([efmt], 0)], [LEX_NARSESE_TY, '&' + FMT_TY], 'Result<%s, FoldError>' % NARSESE_TY)

def typst_format(it, value):
    fz = Agg('conversion::string::typst_formatter::definition::FormatterTypst', [])
    return it.call_named('<%s as FormatTo<&FormatterTypst, String>>::format_to' % NARSESE_TY,
                         [Ref([value], 0), Ref([fz], 0)], ['&' + NARSESE_TY, '&conversion::string::typst_formatter::definition::FormatterTypst'], 'std::string::String')
