"""Vec / slice / HashSet / Index / ranges / comparison / fmt / hash / misc models"""
import re, math
import z3
from values import *
from interp import RustPanic, Unsupported, do_binop, wrap_int, INT_TYS
from models import (model, some, none, ok, err, deref, deref1, as_chars, as_items, truth, chars_eq, call_closure_like,
                    values_equal, std_equal, set_insert, set_contains, ordering, is_std_value)
from models_str import to_display_chars, fmt_debug_str, fmt_f64
from tyunify import parse_ty

# ------------------------------------------------------------------ Vec
@model('Vec::new', 'Vec::with_capacity', 'VecDeque::new')
def _(it, a, info): return RVec()
@model('Vec::len', 'slice::len', 'HashSet::len', 'VecDeque::len')
def _(it, a, info):
    v = a[0]
    if isinstance(v, SliceRef): return len(v)
    return len(as_items(v))
@model('Vec::is_empty', 'slice::is_empty', 'HashSet::is_empty', 'VecDeque::is_empty')
def _(it, a, info):
    v = a[0]
    if isinstance(v, SliceRef): return len(v) == 0
    return len(as_items(v)) == 0
@model('Vec::push', 'VecDeque::push_back')
def _(it, a, info): deref(a[0]).items.append(a[1]); return UNIT
@model('Vec::pop')
def _(it, a, info):
    v = deref(a[0])
    return some(v.items.pop()) if v.items else none()
@model('VecDeque::pop_front')
def _(it, a, info):
    v = deref(a[0])
    return some(v.items.pop(0)) if v.items else none()
@model('Vec::insert')
def _(it, a, info):
    v = deref(a[0]); i = a[1]
    if is_sym(i):
        if truth(it, z3.UGT(i, len(v.items))): raise RustPanic('insertion index should be <= len (is %d)' % len(v.items))
        i = small_value(it, i, len(v.items))
    if i > len(v.items): raise RustPanic('insertion index (is %d) should be <= len (is %d)' % (i, len(v.items)))
    v.items.insert(i, a[2]); return UNIT
@model('Vec::remove')
def _(it, a, info):
    v = deref(a[0]); i = a[1]
    if is_sym(i):
        if truth(it, z3.UGE(i, len(v.items))): raise RustPanic('removal index should be < len (is %d)' % len(v.items))
        i = small_value(it, i, len(v.items))
    if i >= len(v.items): raise RustPanic('removal index (is %d) should be < len (is %d)' % (i, len(v.items)))
    return v.items.pop(i)
@model('Vec::clear', 'VecDeque::clear')
def _(it, a, info): deref(a[0]).items[:] = []; return UNIT
@model('Vec::truncate')
def _(it, a, info): del deref(a[0]).items[a[1]:]; return UNIT
@model('Vec::as_slice', 'Vec::as_mut_slice')
def _(it, a, info):
    v = deref(a[0]); return SliceRef(v.items, 0, len(v.items))
@model('Vec::extend_from_slice')
def _(it, a, info): deref(a[0]).items.extend(deep_copy(x) for x in as_items(a[1])); return UNIT
@model('Vec::append')
def _(it, a, info):
    d = deref(a[0]); s = deref(a[1]); d.items.extend(s.items); s.items[:] = []; return UNIT
@model('Vec::contains', 'slice::contains', 'VecDeque::contains')
def _(it, a, info):
    x = deref(a[1])
    for y in as_items(a[0]):
        if truth(it, values_equal(it, y, x)): return True
    return False
@model('Vec::first', 'slice::first')
def _(it, a, info):
    v = a[0]
    base, lo, hi = it.seq_items(deref(v) if not isinstance(v, SliceRef) else v)
    return some(Ref(base, lo)) if hi > lo else none()
@model('Vec::last', 'slice::last', 'VecDeque::back')
def _(it, a, info):
    v = a[0]
    base, lo, hi = it.seq_items(deref(v) if not isinstance(v, SliceRef) else v)
    return some(Ref(base, hi - 1)) if hi > lo else none()
@model('slice::get', 'slice::get_mut', 'Vec::get', 'Vec::get_mut')
def _(it, a, info):
    v = a[0]; i = a[1]
    base, lo, hi = it.seq_items(deref(v) if not isinstance(v, SliceRef) else v)
    if isinstance(i, Agg): raise Unsupported('slice::get with range')
    if is_sym(i): raise Unsupported('symbolic get index')
    return some(Ref(base, lo + i)) if 0 <= i < hi - lo else none()
@model('slice::to_vec')
def _(it, a, info): return RVec([deep_copy(x) for x in as_items(a[0])])
@model('slice::starts_with')
def _(it, a, info):
    xs = as_items(a[0]); ys = as_items(a[1])
    if len(ys) > len(xs): return False
    for x, y in zip(xs, ys):
        if not truth(it, values_equal(it, x, y)): return False
    return True
@model('slice::ends_with')
def _(it, a, info):
    xs = as_items(a[0]); ys = as_items(a[1])
    if len(ys) > len(xs): return False
    for x, y in zip(xs[len(xs) - len(ys):], ys):
        if not truth(it, values_equal(it, x, y)): return False
    return True
@model('slice::reverse')
def _(it, a, info):
    v = a[0]
    base, lo, hi = it.seq_items(deref(v) if not isinstance(v, SliceRef) else v)
    base[lo:hi] = base[lo:hi][::-1]; return UNIT
@model('slice::split_at')
def _(it, a, info):
    v = a[0]; base, lo, hi = it.seq_items(deref(v) if not isinstance(v, SliceRef) else v); m = a[1]
    if m > hi - lo: raise RustPanic('mid > len')
    return Agg('tuple', [SliceRef(base, lo, lo + m), SliceRef(base, lo + m, hi)])

def small_value(it, x, n):
    """x is known to lie in [0, n]: pick the concrete value by branching"""
    if not is_sym(x): return x
    for k in range(n + 1):
        if truth(it, x == z3.BitVecVal(k, x.size())): return k
    raise Unsupported('value outside [0,%d]' % n)

def range_bounds(it, r, n):
    """-> (lo, hi) for Range / RangeFrom / RangeTo / RangeInclusive / RangeFull over length n"""
    ty = r.ty.split('::')[-1]
    if ty == 'Range': lo, hi = r.f[0], r.f[1]
    elif ty == 'RangeFrom': lo, hi = r.f[0], n
    elif ty == 'RangeTo': lo, hi = 0, r.f[0]
    elif ty == 'RangeFull': lo, hi = 0, n
    elif ty == 'RangeInclusive': lo, hi = r.f[0], r.f[1] + 1
    elif ty == 'RangeToInclusive': lo, hi = 0, r.f[0] + 1
    else: raise Unsupported('range type ' + r.ty)
    if is_sym(lo) or is_sym(hi):
        # obligations first (these are the real panics of slice indexing), then concretise within [0, n]
        if truth(it, do_binop('Gt', lo, hi, 'usize')): raise RustPanic('slice index starts at ? but ends at ?')
        if truth(it, do_binop('Gt', hi, n, 'usize')): raise RustPanic('range end index ? out of range for slice of length %d' % n)
        lo = small_value(it, lo, n); hi = small_value(it, hi, n)
    if lo > hi: raise RustPanic('slice index starts at %d but ends at %d' % (lo, hi))
    if hi > n: raise RustPanic('range end index %d out of range for slice of length %d' % (hi, n))
    return lo, hi

@model('Index::index', 'IndexMut::index_mut')
def _(it, a, info):
    v = a[0]; i = a[1]
    tgt = v if isinstance(v, (SliceRef, Str)) else deref(v)
    if isinstance(tgt, (Str, RString)):
        from models_str import byte_to_char_index
        ch = list(tgt.ch)
        nbytes = 0
        for c in ch:
            if not isinstance(c, int): raise Unsupported('byte-range index into symbolic string')
        from interp import utf8_len
        nbytes = sum(utf8_len(c) for c in ch)
        lo, hi = range_bounds(it, i, nbytes)
        return Str(ch[byte_to_char_index(it, ch, lo):byte_to_char_index(it, ch, hi)])
    base, lo0, hi0 = it.seq_items(tgt)
    if isinstance(i, Agg):
        lo, hi = range_bounds(it, i, hi0 - lo0)
        return SliceRef(base, lo0 + lo, lo0 + hi)
    if is_sym(i): raise Unsupported('symbolic index')
    if not (0 <= i < hi0 - lo0):
        raise RustPanic('index out of bounds: the len is %d but the index is %d' % (hi0 - lo0, i))
    return Ref(base, lo0 + i)

@model('RangeInclusive::new')
def _(it, a, info): return Agg('RangeInclusive', [a[0], a[1]])
@model('RangeInclusive::contains', 'Range::contains')
def _(it, a, info):
    r = deref(a[0]); x = deref(a[1])
    lo = do_binop('Le', r.f[0], x, 'f64' if isinstance(r.f[0], float) else None)
    hi = do_binop('Le' if r.ty.endswith('Inclusive') else 'Lt', x, r.f[1], 'f64' if isinstance(r.f[1], float) else None)
    if lo is False or hi is False: return False
    if lo is True: return hi
    if hi is True: return lo
    return z3.And(lo, hi)

# ------------------------------------------------------------------ HashSet / HashMap
@model('HashSet::new', 'HashSet::with_capacity')
def _(it, a, info): return RSet()
@model('HashSet::insert')
def _(it, a, info): return set_insert(it, deref(a[0]), a[1])
@model('HashSet::contains')
def _(it, a, info): return set_contains(it, deref(a[0]), deref(a[1]))
@model('HashSet::remove')
def _(it, a, info):
    s = deref(a[0]); x = deref(a[1])
    for i, y in enumerate(s.items):
        if truth(it, values_equal(it, y, x)): del s.items[i]; return True
    return False
@model('HashSet::clear')
def _(it, a, info): deref(a[0]).items[:] = []; return UNIT

# ------------------------------------------------------------------ comparisons
@model('PartialEq::eq')
def _(it, a, info): return values_equal(it, a[0], a[1])
@model('PartialEq::ne')
def _(it, a, info):
    e = values_equal(it, a[0], a[1])
    return (not e) if isinstance(e, bool) else z3.Not(e)

def compare(it, x, y):
    x = deref(x); y = deref(y)
    if isinstance(x, RBox): x = x.cell[0]
    if isinstance(y, RBox): y = y.cell[0]
    if isinstance(x, (int, bool)) and isinstance(y, (int, bool)): return (x > y) - (x < y)
    if isinstance(x, float) and isinstance(y, float):
        if x != x or y != y: return None
        return (x > y) - (x < y)
    if is_sym(x) or is_sym(y):
        if truth(it, do_binop('Lt', x, y, None)): return -1
        if truth(it, do_binop('Eq', x, y, None)): return 0
        return 1
    if isinstance(x, (Str, RString)) and isinstance(y, (Str, RString)):
        xs, ys = list(x.ch), list(y.ch)
        if all(isinstance(c, int) for c in xs + ys):
            bx = ''.join(map(chr, xs)).encode('utf-8', 'surrogatepass'); by = ''.join(map(chr, ys)).encode('utf-8', 'surrogatepass')
            return (bx > by) - (bx < by)
        # byte-wise order of UTF-8 equals code-point order: decide position by position
        for p_, q_ in zip(xs, ys):
            if isinstance(p_, int) and isinstance(q_, int):
                if p_ != q_: return (p_ > q_) - (p_ < q_)
                continue
            if truth(it, do_binop('Lt', p_, q_, 'char')): return -1
            if not truth(it, do_binop('Eq', p_, q_, 'char')): return 1
        return (len(xs) > len(ys)) - (len(xs) < len(ys))
    if isinstance(x, (Agg, Enum)) and not is_std_value(x):
        r = it.call_named('<%s as Ord>::cmp' % x.ty, [Ref([x], 0), Ref([y], 0)], [None, None], None)
        return {'Less': -1, 'Equal': 0, 'Greater': 1}[r.variant]
    if isinstance(x, Enum) and isinstance(y, Enum):
        if x.idx != y.idx: return (x.idx > y.idx) - (x.idx < y.idx)
        return compare_seq(it, x.f, y.f)
    if isinstance(x, (Agg, RVec, SliceRef)): return compare_seq(it, as_items(x), as_items(y))
    if x is UNIT: return 0
    raise Unsupported('compare %r %r' % (x, y))

def compare_seq(it, xs, ys):
    for p, q in zip(xs, ys):
        c = compare(it, p, q)
        if c != 0: return c
    return (len(xs) > len(ys)) - (len(xs) < len(ys))

@model('Ord::cmp')
def _(it, a, info): return ordering(compare(it, a[0], a[1]))
@model('PartialOrd::partial_cmp')
def _(it, a, info):
    c = compare(it, a[0], a[1])
    return none() if c is None else some(ordering(c))
@model('PartialOrd::lt')
def _(it, a, info): return do_binop('Lt', deref(a[0]), deref(a[1]), None)
@model('PartialOrd::le')
def _(it, a, info): return do_binop('Le', deref(a[0]), deref(a[1]), None)
@model('PartialOrd::gt')
def _(it, a, info): return do_binop('Gt', deref(a[0]), deref(a[1]), None)
@model('PartialOrd::ge')
def _(it, a, info): return do_binop('Ge', deref(a[0]), deref(a[1]), None)
@model('Ord::max', 'max')
def _(it, a, info):
    return a[1] if truth(it, do_binop('Ge', a[1], a[0], None)) else a[0]
@model('Ord::min', 'min')
def _(it, a, info):
    return a[0] if truth(it, do_binop('Le', a[0], a[1], None)) else a[1]
@model('Ordering::is_eq')
def _(it, a, info): return a[0].variant == 'Equal'
@model('Ordering::reverse')
def _(it, a, info): return ordering({'Less': 1, 'Equal': 0, 'Greater': -1}[a[0].variant])

# ------------------------------------------------------------------ numbers
@model('f64::powf', 'f32::powf')
def _(it, a, info):
    if is_sym(a[0]) or is_sym(a[1]): raise Unsupported('symbolic powf')
    try: return math.pow(a[0], a[1])
    except (OverflowError, ValueError): return float('nan')
@model('f64::is_nan')
def _(it, a, info):
    x = a[0]
    return x != x if not is_sym(x) else z3.fpIsNaN(x)
@model('f64::abs')
def _(it, a, info): return abs(a[0]) if not is_sym(a[0]) else z3.fpAbs(a[0])
for _n in ('usize', 'isize', 'u64', 'i64', 'u32', 'i32'):
    def _mk(n):
        def chk(it, a, info):
            op = {'checked_add': 'AddWithOverflow', 'checked_sub': 'SubWithOverflow', 'checked_mul': 'MulWithOverflow'}[info['method']]
            r = do_binop(op, a[0], a[1], n)
            return none() if truth(it, r.f[1]) else some(r.f[0])
        def wrp(it, a, info):
            op = {'wrapping_add': 'Add', 'wrapping_sub': 'Sub', 'wrapping_mul': 'Mul'}[info['method']]
            return do_binop(op, a[0], a[1], n)
        def sat(it, a, info):
            op = {'saturating_add': 'AddWithOverflow', 'saturating_sub': 'SubWithOverflow'}[info['method']]
            r = do_binop(op, a[0], a[1], n)
            if truth(it, r.f[1]):
                bits, signed = INT_TYS[n]
                return 0 if info['method'] == 'saturating_sub' else (1 << bits) - 1
            return r.f[0]
        return chk, wrp, sat
    c, w, s = _mk(_n)
    for m_ in ('checked_add', 'checked_sub', 'checked_mul'): model(_n + '::' + m_)(c)
    for m_ in ('wrapping_add', 'wrapping_sub', 'wrapping_mul'): model(_n + '::' + m_)(w)
    for m_ in ('saturating_add', 'saturating_sub'): model(_n + '::' + m_)(s)

# ------------------------------------------------------------------ io::Error / misc
@model('Error::new')
def _(it, a, info): return Opaque('ioerror', (a[0], a[1]))
@model('Error::other')
def _(it, a, info): return Opaque('ioerror', (None, a[0]))
@model('Error::kind')
def _(it, a, info): return deref(a[0]).data[0]

# ------------------------------------------------------------------ fmt
def decode_template(b):
    """new-style fmt::Arguments byte template -> list of ('lit', bytes) / ('arg',)"""
    raw = eval('b"' + b + '"')
    out = []; i = 0
    while i < len(raw):
        n = raw[i]; i += 1
        if n == 0: break
        if n < 0x80:
            out.append(('lit', raw[i:i + n].decode('utf-8', 'replace'))); i += n
        elif n == 0xC0:
            out.append(('arg',))
        else:
            out.append(('arg',))
            # placeholder with explicit options: skip its option bytes conservatively (flags/width/precision)
            extra = 0
            if n & 0x01: extra += 4
            if n & 0x02: extra += 2
            if n & 0x04: extra += 2
            if n & 0x08: extra += 2
            i += extra
    return out

@model('Arguments::new')
def _(it, a, info):
    tmpl = a[0]; args = as_items(a[1])
    return Opaque('fmtargs', (decode_template(tmpl.data) if isinstance(tmpl, Opaque) else [('lit', '?')], list(args)))
@model('Arguments::from_str', 'Arguments::new_const')
def _(it, a, info):
    s = a[0]
    if isinstance(s, Str): return Opaque('fmtargs', ([('lit', s.ch)], []))
    if isinstance(s, Ref):
        items = as_items(s)
        return Opaque('fmtargs', ([('lit', x.ch) for x in items], []))
    return Opaque('fmtargs', ([('lit', '?')], []))
@model('Argument::new_display')
def _(it, a, info): return Opaque('fmtarg', ('display', a[0]))
@model('Argument::new_debug')
def _(it, a, info): return Opaque('fmtarg', ('debug', a[0]))

def render_args(it, fa):
    pieces, args = fa.data
    out = []; k = 0
    for p in pieces:
        if p[0] == 'lit':
            out.extend(p[1] if not isinstance(p[1], str) else [ord(c) for c in p[1]])
        else:
            if k < len(args):
                out.extend(render_arg(it, args[k])); k += 1
    return out

def render_arg(it, arg):
    kind, ref = arg.data
    v = deref(ref)
    if kind == 'display':
        try: return to_display_chars(it, v, None)
        except Unsupported: return [ord(c) for c in '<?>']
    return debug_chars(it, v)

def debug_chars(it, v, depth=0):
    v = deref(v)
    if isinstance(v, (Str, RString)): return fmt_debug_str(list(v.ch), it)
    if isinstance(v, bool): return [ord(c) for c in ('true' if v else 'false')]
    if isinstance(v, float):
        s = fmt_f64(v)
        if '.' not in s and 'n' not in s.lower(): s += '.0'
        return [ord(c) for c in s]
    if isinstance(v, int): return [ord(c) for c in str(v)]
    if is_sym(v): return [v] if (z3.is_bv(v) and v.size() == 32) else [ord('?')]
    if isinstance(v, RBox): return debug_chars(it, v.cell[0], depth)
    if isinstance(v, (RVec, SliceRef, RSet)) or (isinstance(v, Agg) and v.ty in ('array',)):
        out = [ord('[')]
        for i, x in enumerate(as_items(v)):
            if i: out += [ord(','), ord(' ')]
            out += debug_chars(it, x, depth + 1)
        return out + [ord(']')]
    if isinstance(v, Enum):
        out = [ord(c) for c in v.variant]
        if v.f:
            out.append(ord('('))
            for i, x in enumerate(v.f):
                if i: out += [ord(','), ord(' ')]
                out += debug_chars(it, x, depth + 1)
            out.append(ord(')'))
        return out
    if isinstance(v, Agg):
        out = [ord(c) for c in v.ty.split('::')[-1]] + [ord('(')]
        for i, x in enumerate(v.f):
            if i: out += [ord(','), ord(' ')]
            out += debug_chars(it, x, depth + 1)
        return out + [ord(')')]
    return [ord(c) for c in '<%s>' % type(v).__name__]

@model('format')
def _(it, a, info): return RString(render_args(it, a[0]))
@model('Formatter::write_fmt')
def _(it, a, info):
    f = deref(a[0]); f.data.ch.extend(render_args(it, a[1])); return ok(UNIT)
@model('Formatter::write_str')
def _(it, a, info):
    f = deref(a[0]); f.data.ch.extend(as_chars(a[1])); return ok(UNIT)
@model('Write::write_str')
def _(it, a, info):
    f = deref(a[0])
    (f.data if isinstance(f, Opaque) else f).ch.extend(as_chars(a[1])); return ok(UNIT)
@model('Formatter::pad')
def _(it, a, info):
    f = deref(a[0]); f.data.ch.extend(as_chars(a[1])); return ok(UNIT)
@model('Display::fmt')
def _(it, a, info):
    v = deref(a[0]); f = deref(a[1]); f.data.ch.extend(to_display_chars(it, v, {'self_ty': info['self_ty']})); return ok(UNIT)
@model('Debug::fmt')
def _(it, a, info):
    v = deref(a[0]); f = deref(a[1]); f.data.ch.extend(debug_chars(it, v)); return ok(UNIT)
for _k in range(1, 6):
    def _mk(k):
        def dt(it, a, info):
            f = deref(a[0]); f.data.ch.extend(as_chars(a[1])); f.data.ch.append(ord('('))
            for i in range(k):
                if i: f.data.ch += [ord(','), ord(' ')]
                f.data.ch += debug_chars(it, a[2 + i])
            f.data.ch.append(ord(')')); return ok(UNIT)
        def ds(it, a, info):
            f = deref(a[0]); f.data.ch.extend(as_chars(a[1])); f.data.ch += [ord(' '), ord('{'), ord(' ')]
            for i in range(k):
                if i: f.data.ch += [ord(','), ord(' ')]
                f.data.ch += as_chars(a[2 + 2 * i]) + [ord(':'), ord(' ')] + debug_chars(it, a[3 + 2 * i])
            f.data.ch += [ord(' '), ord('}')]; return ok(UNIT)
        return dt, ds
    dt, ds = _mk(_k)
    model('Formatter::debug_tuple_field%d_finish' % _k)(dt)
    model('Formatter::debug_struct_field%d_finish' % _k)(ds)
@model('Formatter::debug_struct_fields_finish')
def _(it, a, info):
    f = deref(a[0]); f.data.ch.extend(as_chars(a[1])); f.data.ch += [ord(c) for c in ' { .. }']; return ok(UNIT)

@model('panic_fmt')
def _(it, a, info):
    msg = ''.join(chr(c) if isinstance(c, int) else '?' for c in render_args(it, a[0]))
    raise RustPanic(msg)
@model('panic', 'panic_str', 'panic_display', 'panic_explicit', 'begin_panic', 'unreachable_display', 'panic_nounwind')
def _(it, a, info):
    m = a[0] if a else None
    raise RustPanic(m.py() if isinstance(m, Str) else 'explicit panic')
@model('unwrap_failed', 'expect_failed')
def _(it, a, info): raise RustPanic('unwrap/expect failed')
@model('panic_bounds_check')
def _(it, a, info): raise RustPanic('index out of bounds')

# ------------------------------------------------------------------ hashing
# A hasher is modelled as a 64-bit z3 term built from uninterpreted functions: new() = K0, each write folds its
# argument into the state with an uninterpreted W_<kind>, finish() applies Fin.  Equal write sequences give equal
# hashes by congruence; different sequences are NOT forced equal, i.e. the hasher is treated as collision-free,
# while genuine arithmetic on hash values (wrapping_add / xor of element hashes) keeps its bit-vector meaning.
BV64 = z3.BitVecSort(64)
_UF = {}
def uf(name, arity=2):
    f = _UF.get(name)
    if f is None:
        f = z3.Function(name, *([BV64] * arity + [BV64])); _UF[name] = f
    return f
K0 = z3.BitVec('hasher_k0', 64)

class HasherState:
    def __init__(self, h=None): self.h = K0 if h is None else h; self.nwrites = 0

def to64(x):
    if isinstance(x, bool): return z3.BitVecVal(int(x), 64)
    if isinstance(x, int): return z3.BitVecVal(x, 64)
    if isinstance(x, float):
        import struct
        return z3.BitVecVal(struct.unpack('<Q', struct.pack('<d', x))[0], 64)
    if is_sym(x):
        if z3.is_bool(x): return z3.If(x, z3.BitVecVal(1, 64), z3.BitVecVal(0, 64))
        if z3.is_fp(x): return z3.fpToIEEEBV(x)
        if x.size() < 64: return z3.ZeroExt(64 - x.size(), x)
        return x
    raise Unsupported('hash of %r' % (x,))

def hwrite(h, kind, x):
    h.h = uf('W_' + kind)(h.h, to64(x)); h.nwrites += 1

@model('DefaultHasher::new', 'RandomState::build_hasher', 'BuildHasher::build_hasher', 'DefaultHasher::default')
def _(it, a, info): return Opaque('hasher', HasherState())
@model('RandomState::new')
def _(it, a, info): return Opaque('randomstate', None)

def hasher_of(v):
    v = deref(v)
    if isinstance(v, Opaque) and v.kind == 'hasher': return v.data
    raise Unsupported('not a hasher: %r' % (v,))

@model('Hash::hash')
def _(it, a, info):
    v = deref(a[0]); h = hasher_of(a[1])
    feed(it, v, h, info['self_ty']); return UNIT

def feed(it, v, h, ty=None):
    if isinstance(v, RBox): v = v.cell[0]
    if isinstance(v, (Str, RString)):
        for c in v.ch: hwrite(h, 'strchar', c)
        hwrite(h, 'strend', 0xff)
    elif isinstance(v, (bool, int, float)) or is_sym(v):
        t = ty.strip().lstrip('&') if ty else ''
        hwrite(h, t if t in INT_TYS or t in ('char', 'bool') else 'num', v)
    elif isinstance(v, (Agg, Enum)) and not is_std_value(v):
        hv = Opaque('hasher', h)
        it.call_named('<%s as Hash>::hash::<DefaultHasher>' % v.ty, [Ref([v], 0), Ref([hv], 0)], [None, None], None)
    elif isinstance(v, Enum):
        hwrite(h, 'discr', v.idx)
        for x in v.f: feed(it, deref(x), h)
    elif isinstance(v, (Agg, RVec, SliceRef)):
        items = as_items(v)
        if not isinstance(v, Agg) or v.ty == 'array': hwrite(h, 'len', len(items))
        for x in items: feed(it, deref(x), h)
    elif v is UNIT: pass
    else: raise Unsupported('hash of %r' % (v,))

@model('Hasher::finish')
def _(it, a, info):
    h = hasher_of(a[0])
    return uf('Fin', 1)(h.h)
for _w in ('write_u8', 'write_u32', 'write_u64', 'write_usize', 'write_i64', 'write_isize', 'write_u16', 'write_i32', 'write_length_prefix'):
    def _mk(w):
        def f(it, a, info):
            hwrite(hasher_of(a[0]), w, a[1]); return UNIT
        return f
    model('Hasher::' + _w)(_mk(_w))
@model('Hasher::write_str')
def _(it, a, info):
    h = hasher_of(a[0])
    for c in as_chars(a[1]): hwrite(h, 'strchar', c)
    hwrite(h, 'strend', 0xff); return UNIT
@model('Hasher::write')
def _(it, a, info):
    h = hasher_of(a[0])
    for b in as_items(a[1]): hwrite(h, 'byte', b)
    return UNIT
@model('Hash::hash_slice')
def _(it, a, info):
    h = hasher_of(a[1])
    for x in as_items(a[0]): feed(it, deref(x), h)
    return UNIT

# ------------------------------------------------------------------ lazy_static
@model('Lazy::get')
def _(it, a, info):
    lazy = deref(a[0])
    cache = it.prog.const_cache.setdefault('__lazy__', {})
    key = info['text']
    if key not in cache:
        cache[key] = [it.call_value(a[1], [])]
    return Ref(cache[key], 0)

# ------------------------------------------------------------------ more Vec / slice / Option / Result methods
@model('Vec::retain', 'Vec::retain_mut')
def _(it, a, info):
    v = deref(a[0]); keep = []
    for i in range(len(v.items)):
        if truth(it, call_closure_like(it, a[1], [Ref(v.items, i)])): keep.append(v.items[i])
    v.items[:] = keep; return UNIT
@model('Vec::dedup')
def _(it, a, info):
    v = deref(a[0]); out = []
    for x in v.items:
        if out and truth(it, values_equal(it, out[-1], x)): continue
        out.append(x)
    v.items[:] = out; return UNIT
@model('Vec::swap_remove')
def _(it, a, info):
    v = deref(a[0]); i = a[1]
    if i >= len(v.items): raise RustPanic('swap_remove index (is %d) should be < len (is %d)' % (i, len(v.items)))
    x = v.items[i]; v.items[i] = v.items[-1]; v.items.pop(); return x
@model('Vec::split_off')
def _(it, a, info):
    v = deref(a[0]); i = a[1]
    if i > len(v.items): raise RustPanic('`at` split index (is %d) should be <= len (is %d)' % (i, len(v.items)))
    t = v.items[i:]; del v.items[i:]; return RVec(t)
@model('Vec::resize')
def _(it, a, info):
    v = deref(a[0]); n = a[1]
    if n < len(v.items): del v.items[n:]
    else: v.items.extend(deep_copy(a[2]) for _ in range(n - len(v.items)))
    return UNIT
@model('Vec::last_mut', 'slice::last_mut', 'VecDeque::back_mut')
def _(it, a, info):
    v = a[0]; base, lo, hi = it.seq_items(deref(v) if not isinstance(v, SliceRef) else v)
    return some(Ref(base, hi - 1)) if hi > lo else none()
@model('Vec::first_mut', 'slice::first_mut', 'VecDeque::front', 'VecDeque::front_mut')
def _(it, a, info):
    v = a[0]; base, lo, hi = it.seq_items(deref(v) if not isinstance(v, SliceRef) else v)
    return some(Ref(base, lo)) if hi > lo else none()
@model('slice::swap', 'Vec::swap')
def _(it, a, info):
    v = a[0]; base, lo, hi = it.seq_items(deref(v) if not isinstance(v, SliceRef) else v); i, j = a[1], a[2]
    if i >= hi - lo or j >= hi - lo: raise RustPanic('index out of bounds')
    base[lo + i], base[lo + j] = base[lo + j], base[lo + i]; return UNIT
@model('slice::split_first')
def _(it, a, info):
    v = a[0]; base, lo, hi = it.seq_items(deref(v) if not isinstance(v, SliceRef) else v)
    return some(Agg('tuple', [Ref(base, lo), SliceRef(base, lo + 1, hi)])) if hi > lo else none()
@model('slice::split_last')
def _(it, a, info):
    v = a[0]; base, lo, hi = it.seq_items(deref(v) if not isinstance(v, SliceRef) else v)
    return some(Agg('tuple', [Ref(base, hi - 1), SliceRef(base, lo, hi - 1)])) if hi > lo else none()
@model('slice::concat')
def _(it, a, info):
    out = []
    for x in as_items(a[0]): out.extend(as_items(x))
    return RVec([deep_copy(x) for x in out])
@model('slice::sort', 'slice::sort_unstable', 'Vec::sort')
def _(it, a, info):
    v = a[0]; base, lo, hi = it.seq_items(deref(v) if not isinstance(v, SliceRef) else v)
    import functools
    base[lo:hi] = sorted(base[lo:hi], key=functools.cmp_to_key(lambda x, y: compare(it, x, y))); return UNIT

@model('Option::filter')
def _(it, a, info):
    v = a[0]
    if v.variant == 'Some' and truth(it, call_closure_like(it, a[1], [Ref(v.f, 0)])): return v
    return none()
@model('Option::or')
def _(it, a, info): return a[0] if a[0].variant == 'Some' else a[1]
@model('Option::or_else')
def _(it, a, info): return a[0] if a[0].variant == 'Some' else call_closure_like(it, a[1], [])
@model('Option::and')
def _(it, a, info): return a[1] if a[0].variant == 'Some' else none()
@model('Option::xor')
def _(it, a, info):
    x, y = a[0], a[1]
    if (x.variant == 'Some') != (y.variant == 'Some'): return x if x.variant == 'Some' else y
    return none()
@model('Option::zip')
def _(it, a, info):
    return some(Agg('tuple', [a[0].f[0], a[1].f[0]])) if a[0].variant == 'Some' and a[1].variant == 'Some' else none()
@model('Option::replace')
def _(it, a, info):
    r = a[0]; old = r.get(); r.set(some(a[1])); return old
@model('Option::get_or_insert_with')
def _(it, a, info):
    r = a[0]
    if r.get().variant == 'None': r.set(some(call_closure_like(it, a[1], [])))
    return Ref(r.get().f, 0)
@model('Option::map_or', 'Result::map_or')
def _(it, a, info):
    v = a[0]
    return call_closure_like(it, a[2], [v.f[0]]) if v.variant in ('Some', 'Ok') else a[1]
@model('Option::map_or_else')
def _(it, a, info):
    v = a[0]
    return call_closure_like(it, a[2], [v.f[0]]) if v.variant == 'Some' else call_closure_like(it, a[1], [])
@model('Option::is_some_and', 'Result::is_ok_and')
def _(it, a, info):
    v = a[0]
    return v.variant in ('Some', 'Ok') and truth(it, call_closure_like(it, a[1], [v.f[0]]))
@model('Option::is_none_or')
def _(it, a, info):
    v = a[0]
    return v.variant == 'None' or truth(it, call_closure_like(it, a[1], [v.f[0]]))
@model('Option::inspect', 'Result::inspect')
def _(it, a, info):
    v = a[0]
    if v.variant in ('Some', 'Ok'): call_closure_like(it, a[1], [Ref(v.f, 0)])
    return v
@model('Result::or_else')
def _(it, a, info):
    v = a[0]
    return v if v.variant == 'Ok' else call_closure_like(it, a[1], [v.f[0]])
@model('Result::and')
def _(it, a, info): return a[1] if a[0].variant == 'Ok' else a[0]
@model('Result::or')
def _(it, a, info): return a[0] if a[0].variant == 'Ok' else a[1]
@model('Result::expect_err')
def _(it, a, info):
    if a[0].variant == 'Ok': raise RustPanic('expect_err on Ok')
    return a[0].f[0]
@model('Result::unwrap_or_default')
def _(it, a, info):
    if a[0].variant == 'Ok': return a[0].f[0]
    raise Unsupported('unwrap_or_default')
@model('Result::iter', 'Option::iter')
def _(it, a, info):
    from models_iter import ListIter
    v = deref(a[0]); return ListIter([Ref(v.f, 0)] if v.variant in ('Ok', 'Some') else [])

@model('slice::sort_by_cached_key', 'slice::sort_by_key', 'Vec::sort_by_key', 'Vec::sort_by_cached_key', 'slice::sort_unstable_by_key')
def _(it, a, info):
    v = a[0]; base, lo, hi = it.seq_items(deref(v) if not isinstance(v, SliceRef) else v)
    import functools
    keyed = [(call_closure_like(it, a[1], [Ref(base, i)]), base[i]) for i in range(lo, hi)]
    keyed.sort(key=functools.cmp_to_key(lambda x, y: compare(it, x[0], y[0])))
    base[lo:hi] = [x[1] for x in keyed]; return UNIT
@model('slice::sort_by', 'Vec::sort_by', 'slice::sort_unstable_by')
def _(it, a, info):
    v = a[0]; base, lo, hi = it.seq_items(deref(v) if not isinstance(v, SliceRef) else v)
    import functools
    def cmp(x, y):
        r = call_closure_like(it, a[1], [Ref([x], 0), Ref([y], 0)])
        return {'Less': -1, 'Equal': 0, 'Greater': 1}[r.variant]
    base[lo:hi] = sorted(base[lo:hi], key=functools.cmp_to_key(cmp)); return UNIT
@model('slice::binary_search')
def _(it, a, info):
    items = as_items(a[0]); x = deref(a[1]); lo, hi = 0, len(items)
    while lo < hi:
        mid = (lo + hi) // 2; c = compare(it, items[mid], x)
        if c == 0: return ok(mid)
        if c < 0: lo = mid + 1
        else: hi = mid
    return err(lo)
