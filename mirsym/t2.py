from engine import *
import resolve
e = Engine(); e.load()
it = e.new_interp()
orig = resolve.pick
def pick(interp, opts, info, args, arg_tys, dest_ty, qual, text):
    for g in opts:
        b, ok = resolve.bind_generics(interp, g, info, arg_tys, dest_ty)
        print(ok, g.name[-40:], [p[1][-40:] for p in g.params], g.ret[-60:], b, interp.prog.generics_of[g.name])
    print('ARGS', arg_tys, dest_ty)
    return orig(interp, opts, info, args, arg_tys, dest_ty, qual, text)
resolve.pick = pick
fmt = enum_format(it, 'ASCII')
try: parse_enum(it, fmt, [65])
except Exception as ex: print(type(ex).__name__, str(ex)[:200])
