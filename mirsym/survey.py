import sys, collections, re
from mirparse import *
from srcinfo import SrcInfo
from interp import Program
from resolve import parse_callee, model_key, base_of
import glob
si = SrcInfo(); si.scan_tree('/tmp/w/repo/src')
ndu = glob.glob('/root/.cargo/registry/src/*/nar_dev_utils-0.42.3/src')[0]
si.scan_tree(ndu, 'ndu:')
prog = Program([('/tmp/w/mir.txt','crate'),('/tmp/w/mir_ndu.txt','ndu')], si)
class I: pass
it = I(); it.prog = prog
keys = collections.Counter(); ex = {}
for f in prog.fns.values():
    for bn, b in f.blocks.items():
        if b.cleanup: continue
        t = b.term
        if t[0] != 'call' or t[1][0] != 'direct': continue
        text = t[1][1]
        try:
            info = parse_callee(text)
        except Exception as e:
            keys['PARSEFAIL'] += 1; ex.setdefault('PARSEFAIL', text); continue
        m = info['method']
        cands = prog.by_last.get(m, [])
        local = False
        if info['kind'] == 'path':
            flat = strip_generics(info['text'])
            if flat in prog.fns: local = True
            elif info['owner'] is None:
                local = any('<impl at' not in g.name and (strip_generics(g.name).endswith('::'+flat) or flat.endswith('::'+strip_generics(g.name))) for g in cands)
            else:
                ob = base_of(it, info['owner'])
                local = any(prog.impl_of.get(g.name) and prog.impl_of[g.name]['trait'] is None and base_of(it, prog.impl_of[g.name]['self_ty']) == ob for g in cands)
        else:
            if info['trait']:
                tn = model_key(info).split('::')[0]
                xb = base_of(it, info['self_ty'])
                for g in cands:
                    imp = prog.impl_of.get(g.name)
                    if imp and imp['trait'] and imp['trait'].split('<')[0].split('::')[-1] == tn and base_of(it, imp['self_ty']) == xb: local = True
        if not local:
            k = model_key(info); keys[k] += 1; ex.setdefault(k, (text, f.name[-50:]))
for k, n in sorted(keys.items()): print(n, k, '|', str(ex[k])[:170])
print(len(keys))
