"""Parser for rustc's textual MIR (`-Zunpretty=mir`) into small Python structures.

Everything the interpreter needs is pre-parsed once: places, operands, rvalues,
terminators.  Unknown syntax raises MirSyntaxError; the caller reports the
function as not executable (=> inconclusive), never as a pass.
"""
import re

class MirSyntaxError(Exception):
    pass

# ---------------------------------------------------------------- utilities

def split_top(s, sep=','):
    """split on `sep` at bracket depth 0, respecting string/char literals and `->`."""
    out, depth, cur, i, n = [], 0, [], 0, len(s)
    while i < n:
        c = s[i]
        if c == '"':
            j = i + 1
            while j < n:
                if s[j] == '\\': j += 2; continue
                if s[j] == '"': break
                j += 1
            cur.append(s[i:j + 1]); i = j + 1; continue
        if c == "'":
            # char literal ('x', '\n', '\u{1f2ff}') vs lifetime ('a, '_)
            m = re.match(r"'(\\u\{[0-9a-fA-F]+\}|\\.|[^\\'])'", s[i:])
            if m:
                cur.append(m.group(0)); i += len(m.group(0)); continue
        if c in '([{<':
            depth += 1
        elif c in ')]}':
            depth -= 1
        elif c == '>':
            if i > 0 and s[i - 1] in '-=':
                pass
            else:
                depth -= 1
        if c == sep and depth == 0:
            out.append(''.join(cur).strip()); cur = []
        else:
            cur.append(c)
        i += 1
    t = ''.join(cur).strip()
    if t or out:
        out.append(t)
    return [x for x in out if x != '']

def find_matching(s, i):
    """s[i] is an opening bracket; return index of its match (string aware)."""
    pairs = {'(': ')', '[': ']', '{': '}', '<': '>'}
    depth = 0; n = len(s)
    while i < n:
        c = s[i]
        if c == '"':
            j = i + 1
            while j < n:
                if s[j] == '\\': j += 2; continue
                if s[j] == '"': break
                j += 1
            i = j + 1; continue
        if c == "'":
            m = re.match(r"'(\\u\{[0-9a-fA-F]+\}|\\.|[^\\'])'", s[i:])
            if m: i += len(m.group(0)); continue
        if c in '([{<': depth += 1
        elif c in ')]}': depth -= 1
        elif c == '>' and not (i > 0 and s[i - 1] in '-='): depth -= 1
        if depth == 0: return i
        i += 1
    raise MirSyntaxError('unbalanced: ' + s)

def strip_generics(path):
    """remove every `::<...>` / `<...>` generic argument list from a path (top-level aware)."""
    out = []; i = 0; n = len(path)
    while i < n:
        c = path[i]
        if c == '<' and i > 0 and (path[i - 1] == ':' or path[i - 1].isalnum() or path[i - 1] == '_'):
            j = find_matching(path, i)
            if out[-2:] == [':', ':']:
                out = out[:-2]
            i = j + 1; continue
        out.append(c); i += 1
    return ''.join(out)

# ---------------------------------------------------------------- places

class Place:
    __slots__ = ('local', 'projs', 'ty', 'text')
    def __init__(self, local, projs, ty, text):
        self.local = local; self.projs = projs; self.ty = ty; self.text = text
    def __repr__(self):
        return self.text

_place_cache = {}

def parse_place(s, locals_ty=None):
    s = s.strip()
    if s.startswith('(fake) '): s = s[7:].strip()
    key = s
    hit = _place_cache.get(key)
    if hit is not None and locals_ty is None:
        return hit
    i = 0; n = len(s)
    while i < n and s[i] in '(*':
        i += 1
    m = re.match(r'_(\d+)', s[i:])
    if not m:
        raise MirSyntaxError('place: ' + s)
    local = int(m.group(1)); i += len(m.group(0))
    projs = []
    ty = locals_ty.get(local) if locals_ty else None
    while i < n:
        c = s[i]
        if c == ')':
            projs.append(('deref',)); ty = None; i += 1
        elif c == '.':
            m = re.match(r'\.(\d+): ', s[i:])
            if not m: raise MirSyntaxError('place field: ' + s)
            i += len(m.group(0))
            # type runs to the matching ')' at depth 0
            depth = 0; j = i
            while j < n:
                ch = s[j]
                if ch in '([{<': depth += 1
                elif ch in ']}': depth -= 1
                elif ch == '>' and not (s[j - 1] in '-='): depth -= 1
                elif ch == ')':
                    if depth == 0: break
                    depth -= 1
                j += 1
            ty = s[i:j]
            projs.append(('field', int(m.group(1)), ty)); i = j + 1
        elif c == ' ':
            m = re.match(r' as ([A-Za-z_][A-Za-z_0-9#]*)\)', s[i:])
            if not m: raise MirSyntaxError('place downcast: ' + s)
            projs.append(('downcast', m.group(1))); i += len(m.group(0))
        elif c == '[':
            j = s.index(']', i)
            inner = s[i + 1:j]
            m = re.match(r'^_(\d+)$', inner)
            if m: projs.append(('index', int(m.group(1))))
            else:
                m = re.match(r'^(-?)(\d+) of (\d+)$', inner)
                if m: projs.append(('constidx', int(m.group(2)), m.group(1) == '-'))
                else:
                    m = re.match(r'^(\d+)\.\.(-?)(\d*)$', inner)
                    if m: projs.append(('subslice', int(m.group(1)), int(m.group(3)) if m.group(3) else None, m.group(2) == '-'))
                    else:
                        m = re.match(r'^(\d*):(-?)(\d*)$', inner)          # from_end forms: [f:-t]  [f:]  [:-t]
                        if not m: raise MirSyntaxError('place index: ' + s)
                        projs.append(('subslice', int(m.group(1) or 0), int(m.group(3) or 0), True))
            ty = None; i = j + 1
        else:
            raise MirSyntaxError('place suffix: ' + s + ' @' + str(i))
    p = Place(local, tuple(projs), ty, s)
    if locals_ty is None:
        _place_cache[key] = p
    return p

# ---------------------------------------------------------------- constants / operands

INT_TYS = {'usize': (64, False), 'isize': (64, True), 'u8': (8, False), 'i8': (8, True), 'u16': (16, False),
           'i16': (16, True), 'u32': (32, False), 'i32': (32, True), 'u64': (64, False), 'i64': (64, True),
           'u128': (128, False), 'i128': (128, True)}

def unescape_rust(body):
    out = []; i = 0; n = len(body)
    while i < n:
        c = body[i]
        if c == '\\':
            d = body[i + 1]
            if d == 'n': out.append('\n'); i += 2
            elif d == 't': out.append('\t'); i += 2
            elif d == 'r': out.append('\r'); i += 2
            elif d == '0': out.append('\0'); i += 2
            elif d == '\\': out.append('\\'); i += 2
            elif d == '"': out.append('"'); i += 2
            elif d == "'": out.append("'"); i += 2
            elif d == 'u':
                j = body.index('}', i)
                out.append(chr(int(body[i + 3:j], 16))); i = j + 1
            elif d == 'x':
                out.append(chr(int(body[i + 2:i + 4], 16))); i += 4
            else:
                raise MirSyntaxError('escape: ' + body)
        else:
            out.append(c); i += 1
    return ''.join(out)

def parse_const(c):
    """-> ('int', v, ty) | ('bool', b) | ('char', cp) | ('str', s) | ('float', f, ty) | ('unit',)
          | ('bytes', b) | ('named', path, ty_or_None)"""
    c = c.strip()
    m = re.match(r'^(-?\d+)_(usize|isize|u8|i8|u16|i16|u32|i32|u64|i64|u128|i128)$', c)
    if m: return ('int', int(m.group(1)), m.group(2))
    if c == 'true': return ('bool', True)
    if c == 'false': return ('bool', False)
    if c == '()': return ('unit',)
    if c.startswith('"') and c.endswith('"'):
        return ('str', unescape_rust(c[1:-1]))
    if c.startswith('b"') and c.endswith('"'):
        return ('bytes', c[2:-1])
    if c.startswith("'") and c.endswith("'") and len(c) >= 3:
        s = unescape_rust(c[1:-1])
        if len(s) == 1: return ('char', ord(s))
    m = re.match(r'^(-?(?:\d+\.?\d*(?:[eE][-+]?\d+)?|inf|NaN))(f32|f64)$', c)
    if m:
        t = m.group(1)
        v = float('inf') if t == 'inf' else float('-inf') if t == '-inf' else float('nan') if t == 'NaN' else float(t)
        return ('float', v, m.group(2))
    # `const path::NAME` / fn item / `ZeroSized: Ty` / promoted
    m = re.match(r'^(ZeroSized): (.+)$', c) if c.startswith('ZeroSized') else None
    if m: return ('zst', m.group(2))
    return ('named', c, None)

def parse_operand(s, locals_ty=None):
    s = s.strip()
    if s.startswith('copy '): return ('copy', parse_place(s[5:], locals_ty))
    if s.startswith('move '): return ('move', parse_place(s[5:], locals_ty))
    if s.startswith('const '): return ('const', parse_const(s[6:]))
    if re.match(r'^[(*]*_\d+', s): return ('copy', parse_place(s, locals_ty))
    if re.match(r'^[A-Za-z_<]', s): return ('const', ('named', s, None))
    raise MirSyntaxError('operand: ' + s)

# ---------------------------------------------------------------- rvalues

BINOPS = {'Add', 'Sub', 'Mul', 'Div', 'Rem', 'BitXor', 'BitAnd', 'BitOr', 'Shl', 'Shr', 'Eq', 'Lt', 'Le', 'Ne', 'Ge', 'Gt',
          'Offset', 'Cmp', 'AddWithOverflow', 'SubWithOverflow', 'MulWithOverflow', 'AddUnchecked', 'SubUnchecked',
          'MulUnchecked', 'ShlUnchecked', 'ShrUnchecked'}
UNOPS = {'Not', 'Neg', 'PtrMetadata'}

def parse_rvalue(r, locals_ty=None):
    r = r.strip()
    if r.startswith('no_retag '):
        r = r[len('no_retag '):]
    # references
    if r.startswith('&/*tls*/ '): return ('tlsref', r[len('&/*tls*/ '):].strip())
    for pre, kind in (('&raw const ', 'rawptr'), ('&raw mut ', 'rawptr'), ('&mut ', 'refmut'), ('&', 'ref')):
        if r.startswith(pre):
            rest = r[len(pre):]
            if kind == 'ref' and rest.startswith(('fake ', "'")):
                rest = rest.split(' ', 1)[1]
            return ('ref', parse_place(rest, locals_ty), kind)
    m = re.match(r'^([A-Za-z]+)\((.*)\)$', r)
    if m and m.group(1) in BINOPS:
        a, b = split_top(m.group(2))
        return ('binop', m.group(1), parse_operand(a, locals_ty), parse_operand(b, locals_ty))
    if m and m.group(1) in UNOPS:
        return ('unop', m.group(1), parse_operand(m.group(2), locals_ty))
    if m and m.group(1) == 'discriminant':
        return ('discr', parse_place(m.group(2), locals_ty))
    if m and m.group(1) in ('Len', 'len'):
        return ('len', parse_place(m.group(2), locals_ty))
    if m and m.group(1) == 'CopyForDeref':
        return ('use', ('copy', parse_place(m.group(2), locals_ty)))
    if m and m.group(1) == 'ShallowInitBox':
        a, t = split_top(m.group(2))
        return ('shallow_init_box', parse_operand(a, locals_ty), t)
    # casts: `<operand> as <ty> (<Kind>)`
    m = re.match(r'^(.*) as (.+) \(((?:IntToInt|IntToFloat|FloatToInt|FloatToFloat|PtrToPtr|FnPtrToPtr|Transmute|PointerCoercion|PointerExposeProvenance|PointerWithExposedProvenance|Subtype)(?:\(.*\))?)\)$', r)
    if m:
        src = m.group(1)
        try:
            op = parse_operand(src, locals_ty)
        except MirSyntaxError:
            op = ('const', ('named', src, None))   # fn item being reified
        return ('cast', op, m.group(2), m.group(3))
    if r.startswith(('copy ', 'move ', 'const ')):
        return ('use', parse_operand(r, locals_ty))
    # tuple aggregate
    if r.startswith('(') and r.endswith(')') and find_matching(r, 0) == len(r) - 1:
        inner = r[1:-1].strip()
        if inner == '': return ('use', ('const', ('unit',)))
        return ('tuple', [parse_operand(x, locals_ty) for x in split_top(inner)])
    # array / repeat
    if r.startswith('[') and r.endswith(']'):
        inner = r[1:-1]
        parts = split_top(inner, ';')
        if len(parts) == 2:
            return ('repeat', parse_operand(parts[0], locals_ty), parts[1].strip())
        return ('array', [parse_operand(x, locals_ty) for x in split_top(inner)])
    # closure aggregate
    if r.startswith(('{closure@', '{coroutine@')):
        j = find_matching(r, 0)
        cid = r[:j + 1]
        rest = r[j + 1:].strip()
        fields = {}
        if rest.startswith('{'):
            for f in split_top(rest[1:-1].strip()):
                k, v = f.split(': ', 1)
                fields[k.strip()] = parse_operand(v, locals_ty)
        return ('closure', cid, fields)
    # ADT aggregate: Path::<..>::Variant(args) | Path { f: v } | Path
    m = re.match(r'^(.*?) \{ (.*) \}$', r)
    if m and not m.group(1).startswith(('copy', 'move')):
        fields = {}
        for f in split_top(m.group(2)):
            k, v = f.split(': ', 1)
            fields[k.strip()] = parse_operand(v, locals_ty)
        return ('adt', m.group(1).strip(), fields)
    if r.endswith(')'):
        # find the '(' that matches the last ')'
        depth = 0; k = None
        for idx in range(len(r) - 1, -1, -1):
            ch = r[idx]
            if ch == ')': depth += 1
            elif ch == '(':
                depth -= 1
                if depth == 0: k = idx; break
        if k is not None and k > 0 and re.match(r'^[A-Za-z_<]', r):
            args = split_top(r[k + 1:-1])
            return ('adt', r[:k].strip(), [parse_operand(x, locals_ty) for x in args])
    if re.match(r'^[A-Za-z_][\w:<>&\', \[\];()]*$', r):
        return ('adt', r, [])
    raise MirSyntaxError('rvalue: ' + r)

# ---------------------------------------------------------------- terminators

def parse_targets(t):
    """'[return: bb1, unwind continue]' -> (ret_bb or None)"""
    m = re.search(r'return: bb(\d+)', t)
    return int(m.group(1)) if m else None

def parse_terminator(t, locals_ty=None):
    t = t.strip()
    if t == 'return;': return ('return',)
    if t in ('unreachable;',): return ('unreachable',)
    if t.startswith(('resume;', 'unwind resume', 'terminate(', 'abort;')): return ('resume',)
    m = re.match(r'^goto -> bb(\d+);$', t)
    if m: return ('goto', int(m.group(1)))
    m = re.match(r'^switchInt\((.+)\) -> \[(.+)\];$', t)
    if m:
        op = parse_operand(m.group(1), locals_ty)
        tg = []; other = None
        for x in m.group(2).split(','):
            k, b = x.strip().split(': ')
            b = int(b[2:])
            if k == 'otherwise': other = b
            else: tg.append((int(k), b))
        return ('switch', op, tg, other)
    m = re.match(r'^assert\((!?)(.+?), "((?:[^"\\]|\\.)*)"(.*)\) -> \[success: bb(\d+), unwind[^\]]*\];$', t)
    if m:
        return ('assert', parse_operand(m.group(2), locals_ty), m.group(1) == '!', m.group(3), int(m.group(5)))
    m = re.match(r'^assert\((!?)(.+?), "((?:[^"\\]|\\.)*)"(.*)\) -> bb(\d+);$', t)
    if m:
        return ('assert', parse_operand(m.group(2), locals_ty), m.group(1) == '!', m.group(3), int(m.group(5)))
    m = re.match(r'^drop\((.+)\) -> \[return: bb(\d+), unwind[^\]]*\];$', t)
    if m: return ('drop', parse_place(m.group(1), locals_ty), int(m.group(2)))
    # calls:  [dest = ] callee(args) -> [return: bbN, unwind ...];   or  -> unwind ...;  (diverging)
    m = re.match(r'^(.*) -> (\[return: bb\d+, unwind[^\]]*\]|unwind [a-z()]+(?:: bb\d+)?|bb\d+);$', t)
    if m:
        body = m.group(1); tgt = m.group(2)
        ret = parse_targets(tgt) if tgt.startswith('[') else (int(tgt[2:]) if tgt.startswith('bb') else None)
        # split "dest = callee(args)"; dest is a place so it contains no " = " itself
        dest = None
        mm = re.match(r'^([(*]*_\d+[^=]*?) = (.*)$', body)
        if mm and re.match(r'^[(*]*_\d+', mm.group(1)):
            dest = parse_place(mm.group(1), locals_ty); body = mm.group(2)
        # callee(args): args = last balanced paren group
        if not body.endswith(')'): raise MirSyntaxError('call: ' + t)
        depth = 0; k = None; i = len(body) - 1
        # walk backwards skipping string literals crudely: find matching '(' with a forward scan instead
        # forward scan: find top-level '(' whose match is the final char
        idx = 0; n = len(body)
        while idx < n:
            ch = body[idx]
            if ch in '([{<':
                j = find_matching(body, idx)
                if ch == '(' and j == n - 1:
                    k = idx; break
                idx = j + 1; continue
            idx += 1
        if k is None: raise MirSyntaxError('call parens: ' + t)
        callee = body[:k].strip()
        args = [parse_operand(a, locals_ty) for a in split_top(body[k + 1:-1])]
        m2 = re.match(r'^(copy|move) (.+)$', callee)
        if m2:
            return ('call', ('indirect', parse_place(m2.group(2), locals_ty)), args, dest, ret)
        return ('call', ('direct', callee), args, dest, ret)
    raise MirSyntaxError('terminator: ' + t)

# ---------------------------------------------------------------- functions

class Fn:
    __slots__ = ('name', 'kind', 'params', 'ret', 'locals', 'blocks', 'sig', 'nlocals', 'error', 'src', 'key', 'dup')
    def __repr__(self): return '<Fn %s>' % self.name

class Block:
    __slots__ = ('stmts', 'term', 'cleanup')

HDR_FN = re.compile(r'^fn (.+)\((.*)\) -> (.+) \{$')
HDR_CONST = re.compile(r'^(const|static|static mut) (.+): (.+) = \{$')

def parse_header_fn(line):
    # name may contain parens inside <impl at ...> (no) / closures `{closure#0}`; params are the LAST top-level (...) before ' -> '
    body = line[3:-2]                      # strip 'fn ' and ' {'
    # find ' -> ' at depth 0 from the right
    depth = 0; arrow = None
    i = len(body) - 1
    while i >= 0:
        ch = body[i]
        if ch in ')]}': depth += 1
        elif ch == '>' and body[i - 1] not in '-=': depth += 1
        elif ch in '([{<': depth -= 1
        if depth == 0 and body[i - 3:i + 1] == ' -> ':
            arrow = i - 3; break
        i -= 1
    if arrow is None: raise MirSyntaxError('fn header: ' + line)
    ret = body[arrow + 4:]
    left = body[:arrow]
    assert left.endswith(')')
    depth = 0; k = None
    for idx in range(len(left) - 1, -1, -1):
        ch = left[idx]
        if ch in ')]}': depth += 1
        elif ch == '>' and left[idx - 1] not in '-=': depth += 1
        elif ch in '([{<':
            depth -= 1
            if depth == 0: k = idx; break
    name = left[:k]
    params = []
    for p in split_top(left[k + 1:-1]):
        m = re.match(r'^_(\d+): (.+)$', p)
        params.append((int(m.group(1)), m.group(2)))
    return name, params, ret

class _M:
    def __init__(self, g): self.g = g
    def group(self, i): return self.g[i]
def match_const_header(line, oneline):
    """`const NAME: TYPE = const VALUE;` (oneline) or `const NAME: TYPE = {`; NAME may contain `<impl at f.rs:1:2: 3:4>`"""
    m = re.match(r'^(const|static(?: mut)?) ', line)
    if not m: return None
    rest = line[m.end():]; depth = 0; cut = None
    for i, ch in enumerate(rest):
        if ch == '<': depth += 1
        elif ch == '>' and i > 0 and rest[i - 1] != '-': depth -= 1
        elif ch == ':' and depth == 0 and rest[i:i + 2] == ': ' and rest[i - 1] != ':' :
            cut = i; break
    if cut is None: return None
    name = rest[:cut]; tail = rest[cut + 2:]
    if oneline:
        m2 = re.match(r'^(.+?) = const (.+);$', tail)
        return _M([line, m.group(1).split()[0], name, m2.group(1), m2.group(2)]) if m2 else None
    m2 = re.match(r'^(.+?) = \{$', tail)
    return _M([line, m.group(1).split()[0], name, m2.group(1)]) if m2 else None

def parse_mir(path, src_tag=''):
    fns = {}
    cur = None; blk = None; pending = []
    with open(path, encoding='utf-8') as fh:
        lines = fh.read().split('\n')
    i = 0; n = len(lines)
    ctfe = False; skip = False
    while i < n:
        line = lines[i]; i += 1
        if cur is None and line.startswith('// MIR FOR CTFE'):
            ctfe = True; continue
        if cur is None:
            if line.startswith('fn '):
                try:
                    name, params, ret = parse_header_fn(line)
                except Exception as e:
                    continue
                cur = Fn(); cur.name = name; cur.kind = 'fn'; cur.params = params; cur.ret = ret
                cur.locals = {0: ret}; cur.blocks = {}; cur.sig = line; cur.error = None; cur.src = src_tag
                for k, t in params: cur.locals[k] = t
                raw = []
            else:
                m1 = match_const_header(line, True)
                if m1:
                    g = Fn(); g.name = m1.group(2); g.kind = m1.group(1); g.params = []; g.ret = m1.group(3)
                    g.locals = {0: m1.group(3)}; g.sig = line; g.error = None; g.src = src_tag; g.nlocals = 1
                    b = Block(); b.cleanup = False; b.term = ('return',)
                    b.stmts = [('assign', parse_place('_0'), ('use', ('const', parse_const(m1.group(4)))))]
                    g.blocks = {0: b}; g.key = g.name; g.dup = 1
                    fns.setdefault(g.name, g)
                    continue
                m = match_const_header(line, False)
                if m is None:
                    mi = re.match(r'^(\S.*::\{constant#\d+\}): (.+) = \{$', line)          # inline const block (e.g. the accessor of a thread_local!)
                    if mi: m = _M([line, 'const', mi.group(1), mi.group(2)])
                if m:
                    cur = Fn(); cur.name = m.group(2); cur.kind = m.group(1); cur.params = []; cur.ret = m.group(3)
                    cur.locals = {0: m.group(3)}; cur.blocks = {}; cur.sig = line; cur.error = None; cur.src = src_tag
                    raw = []
            continue
        if line == '}':
            # parse collected raw blocks
            for bbn, cleanup, stmts in raw:
                b = Block(); b.cleanup = cleanup; b.stmts = []; b.term = None
                try:
                    for s in stmts[:-1]:
                        st = parse_statement(s, cur.locals)
                        if st is not None: b.stmts.append(st)
                    b.term = parse_terminator(stmts[-1], cur.locals)
                except MirSyntaxError as e:
                    if not cleanup:
                        cur.error = str(e)
                    b.term = ('error', str(e))
                cur.blocks[bbn] = b
            cur.nlocals = max(cur.locals) + 1 if cur.locals else 1
            if not ctfe:
                k = 1; key = cur.name
                while key in fns:
                    k += 1; key = '%s#%d' % (cur.name, k)
                cur.key = key; cur.dup = k
                fns[key] = cur
            ctfe = False
            cur = None; blk = None
            continue
        m = re.match(r'^    bb(\d+)( \(cleanup\))?: \{$', line)
        if m:
            blk = (int(m.group(1)), bool(m.group(2)), []); raw.append(blk); continue
        if line == '    }':
            blk = None; continue
        if blk is not None:
            blk[2].append(line.strip()); continue
        m = re.match(r'^\s+let (?:mut )?_(\d+): (.+);$', line)
        if m:
            cur.locals[int(m.group(1))] = m.group(2)
    return fns

SKIP_STMT = ('StorageLive', 'StorageDead', 'nop', 'FakeRead', 'PlaceMention', 'Retag', 'Coverage', 'AscribeUserType',
             'ConstEvalCounter', 'Deinit', 'assume', 'Assume', 'BackwardIncompatibleDropHint')

def parse_statement(s, locals_ty):
    if s.startswith(SKIP_STMT): return None
    m = re.match(r'^discriminant\((.+)\) = (\d+);$', s)
    if m: return ('setdiscr', parse_place(m.group(1), locals_ty), int(m.group(2)))
    # assignment: place = rvalue;   place never contains ' = '
    k = s.find(' = ')
    if k < 0 or not s.endswith(';'):
        raise MirSyntaxError('statement: ' + s)
    return ('assign', parse_place(s[:k], locals_ty), parse_rvalue(s[k + 3:-1], locals_ty))

if __name__ == '__main__':
    import sys
    fns = parse_mir(sys.argv[1])
    bad = [f for f in fns.values() if f.error]
    print(len(fns), 'functions;', len(bad), 'with parse errors')
    for f in bad[:40]:
        print('  ', f.name[-80:], '::', f.error[:140])
