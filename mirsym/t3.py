import sys, time
sys.path.insert(0,'/verif/checks')
from explore import *
n=int(sys.argv[1]); fmt=sys.argv[2]; entry=sys.argv[3] if len(sys.argv)>3 else 'parse'
r=explore('c04','path',{'fmt':fmt,'entry':entry,'template':[None]*n},workers=16)
print('paths',r.paths,'wall',round(r.wall_s,1),'cpu',round(r.cpu_s,1),'checks',r.checks,'solver_s',round(r.solver_s,1),'exh',r.exhaustive,r.statuses)
for v in r.violations[:10]: print('VIOL',v['kind'],v['message'][:80],repr(''.join(map(chr,v['input']))))
for v in r.inconclusive[:5]: print('INC',v['why'][:300])
print(r.samples[:4])
