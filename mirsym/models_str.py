"""char / str / String models"""
import json, os, re, math
import z3
from values import *
from interp import RustPanic, Unsupported, do_binop, utf8_len, wrap_int, INT_TYS
from models import model, some, none, ok, err, deref, deref1, as_chars, as_items, truth, chars_eq, char_eq, call_closure_like, values_equal
from tyunify import parse_ty

UNITAB = None
def load_unitab(path):
    global UNITAB
    UNITAB = json.load(open(path))

_pred_cache = {}
CHAR_LIMIT = [None]       # when set (by a check that states it): list of (lo, hi) code-point blocks symbolic chars are assumed to lie in
STD_BLOCKS = [(0x0, 0x24F), (0x3000, 0x303F), (0x4E00, 0x9FFF), (0xFF00, 0xFFEF), (0x1F300, 0x1F5FF)]
def set_blocks(b):
    if b is None: CHAR_LIMIT[0] = None
    elif isinstance(b, int): CHAR_LIMIT[0] = [(0, b)]
    else: CHAR_LIMIT[0] = [tuple(x) for x in b]
def char_pred(name, c):
    tab = UNITAB[name]
    if CHAR_LIMIT[0] is not None and not isinstance(c, int):
        out = []
        for a, b in tab:
            for lo, hi in CHAR_LIMIT[0]:
                x, y = max(a, lo), min(b, hi)
                if x <= y: out.append([x, y])
        tab = out
    if isinstance(c, int):
        lo, hi = 0, len(tab) - 1
        while lo <= hi:
            mid = (lo + hi) // 2
            a, b = tab[mid]
            if c < a: hi = mid - 1
            elif c > b: lo = mid + 1
            else: return True
        return False
    key = (name, c.get_id(), str(CHAR_LIMIT[0]))
    e = _pred_cache.get(key)
    if e is None:
        parts = []
        for a, b in tab:
            if a == b: parts.append(c == z3.BitVecVal(a, 32))
            else: parts.append(z3.And(z3.UGE(c, z3.BitVecVal(a, 32)), z3.ULE(c, z3.BitVecVal(b, 32))))
        e = z3.Or(*parts) if parts else z3.BoolVal(False)
        _pred_cache[key] = (e, c)      # keep c alive so ids are not reused
        return e
    return e[0]

def valid_char(c):
    """constraint that a 32-bit value is a Unicode scalar value"""
    if CHAR_LIMIT[0] is not None:
        return z3.Or(*[z3.And(z3.UGE(c, z3.BitVecVal(lo, 32)), z3.ULE(c, z3.BitVecVal(min(hi, 0xD7FF) if lo < 0xD800 else hi, 32))) for lo, hi in CHAR_LIMIT[0]])
    return z3.And(z3.ULE(c, z3.BitVecVal(0x10FFFF, 32)), z3.Or(z3.ULT(c, z3.BitVecVal(0xD800, 32)), z3.UGT(c, z3.BitVecVal(0xDFFF, 32))))

for _n in ('is_alphanumeric', 'is_alphabetic', 'is_numeric', 'is_whitespace', 'is_lowercase', 'is_uppercase', 'is_control'):
    def _mk(n):
        def f(it, a, info): return char_pred(n, deref(a[0]))
        return f
    model('char::' + _n)(_mk(_n))

@model('char::is_ascii_digit')
def _(it, a, info):
    c = deref(a[0])
    if isinstance(c, int): return 48 <= c <= 57
    return z3.And(z3.UGE(c, 48), z3.ULE(c, 57))

@model('char::is_ascii')
def _(it, a, info):
    c = deref(a[0])
    return c < 128 if isinstance(c, int) else z3.ULT(c, 128)

@model('char::is_ascii_alphabetic')
def _(it, a, info):
    c = deref(a[0])
    if isinstance(c, int): return 65 <= c <= 90 or 97 <= c <= 122
    return z3.Or(z3.And(z3.UGE(c, 65), z3.ULE(c, 90)), z3.And(z3.UGE(c, 97), z3.ULE(c, 122)))

@model('char::is_ascii_alphanumeric')
def _(it, a, info):
    c = deref(a[0])
    if isinstance(c, int): return 48 <= c <= 57 or 65 <= c <= 90 or 97 <= c <= 122
    return z3.Or(z3.And(z3.UGE(c, 48), z3.ULE(c, 57)), z3.And(z3.UGE(c, 65), z3.ULE(c, 90)), z3.And(z3.UGE(c, 97), z3.ULE(c, 122)))

@model('char::is_ascii_whitespace')
def _(it, a, info):
    c = deref(a[0])
    ws = (32, 9, 10, 12, 13)
    if isinstance(c, int): return c in ws
    return z3.Or(*[c == w for w in ws])

@model('char::len_utf8')
def _(it, a, info):
    c = a[0]
    if isinstance(c, int): return utf8_len(c)
    return z3.If(z3.ULT(c, 0x80), z3.BitVecVal(1, 64), z3.If(z3.ULT(c, 0x800), z3.BitVecVal(2, 64), z3.If(z3.ULT(c, 0x10000), z3.BitVecVal(3, 64), z3.BitVecVal(4, 64))))

@model('char::to_digit')
def _(it, a, info):
    c = a[0]
    if is_sym(c) or a[1] != 10: raise Unsupported('to_digit')
    return some(c - 48) if 48 <= c <= 57 else none()

# ------------------------------------------------------------------ str
def conc_len(it, ch):
    """byte length; requires concrete widths"""
    tot = 0
    for c in ch:
        if isinstance(c, int): tot += utf8_len(c)
        else: return it.str_byte_len(Str(ch))
    return tot

@model('str::len', 'String::len')
def _(it, a, info): return conc_len(it, as_chars(a[0]))

@model('str::is_empty', 'String::is_empty')
def _(it, a, info): return len(as_chars(a[0])) == 0

@model('str::chars')
def _(it, a, info):
    from models_iter import ListIter
    return ListIter(as_chars(a[0]))

@model('str::char_indices')
def _(it, a, info):
    from models_iter import ListIter
    out = []; pos = 0
    for c in as_chars(a[0]):
        if not isinstance(c, int): raise Unsupported('char_indices on symbolic chars')
        out.append(Agg('tuple', [pos, c])); pos += utf8_len(c)
    return ListIter(out)

@model('str::as_bytes', 'str::bytes')
def _(it, a, info): raise Unsupported('byte view of str')

@model('String::new')
def _(it, a, info): return RString()
@model('String::with_capacity')
def _(it, a, info): return RString()
@model('String::clear')
def _(it, a, info): deref(a[0]).ch[:] = []; return UNIT
@model('String::push')
def _(it, a, info): deref(a[0]).ch.append(a[1]); return UNIT
@model('String::push_str')
def _(it, a, info): deref(a[0]).ch.extend(as_chars(a[1])); return UNIT
@model('String::as_str', 'String::as_mut_str')
def _(it, a, info): return Str(deref(a[0]).ch)
@model('String::pop')
def _(it, a, info):
    s = deref(a[0])
    return some(s.ch.pop()) if s.ch else none()
@model('String::insert')
def _(it, a, info):
    s = deref(a[0]); idx = byte_to_char_index(it, s.ch, a[1]); s.ch.insert(idx, a[2]); return UNIT
@model('String::insert_str')
def _(it, a, info):
    s = deref(a[0]); idx = byte_to_char_index(it, s.ch, a[1]); s.ch[idx:idx] = as_chars(a[2]); return UNIT
@model('String::truncate')
def _(it, a, info):
    s = deref(a[0]); idx = byte_to_char_index(it, s.ch, a[1], clamp=True); del s.ch[idx:]; return UNIT
@model('String::split_off')
def _(it, a, info):
    s = deref(a[0]); idx = byte_to_char_index(it, s.ch, a[1]); tail = s.ch[idx:]; del s.ch[idx:]; return RString(tail)
@model('String::into_boxed_str')
def _(it, a, info): return RBox(Str(a[0].ch))
@model('String::from_utf8_lossy', 'String::from_utf8')
def _(it, a, info): raise Unsupported('from_utf8')

def byte_to_char_index(it, ch, b, clamp=False):
    if is_sym(b): raise Unsupported('symbolic byte index')
    pos = 0
    for i, c in enumerate(ch):
        if pos == b: return i
        if not isinstance(c, int): raise Unsupported('byte index into string with symbolic chars')
        pos += utf8_len(c)
        if pos > b: raise RustPanic('byte index %d is not a char boundary' % b)
    if pos == b: return len(ch)
    if clamp: return len(ch)
    raise RustPanic('byte index %d out of range of string of length %d' % (b, pos))

@model('str::is_char_boundary')
def _(it, a, info):
    ch = as_chars(a[0]); b = a[1]; pos = 0
    if b == 0: return True
    for c in ch:
        if not isinstance(c, int): raise Unsupported('is_char_boundary symbolic')
        pos += utf8_len(c)
        if pos == b: return True
        if pos > b: return False
    return False

@model('ToString::to_string')
def _(it, a, info):
    v = deref(a[0])
    return RString(to_display_chars(it, v, info))

def to_display_chars(it, v, info=None):
    if isinstance(v, (Str, RString)): return list(v.ch)
    if isinstance(v, bool): return [ord(c) for c in ('true' if v else 'false')]
    if isinstance(v, float): return [ord(c) for c in fmt_f64(v)]
    if isinstance(v, int):
        st = info['self_ty'] if info else 'usize'
        if st == 'char': return [v]
        return [ord(c) for c in str(v)]
    if is_sym(v):
        if info and info['self_ty'] == 'char': return [v]
        raise Unsupported('to_string of symbolic number')
    if isinstance(v, RBox): return to_display_chars(it, v.cell[0], info)
    if isinstance(v, (Agg, Enum)):
        # user Display impl
        s = RString()
        fmtr = Opaque('formatter', s)
        r = it.call_named('<%s as std::fmt::Display>::fmt' % v.ty, [Ref([v], 0), Ref([fmtr], 0)], [None, None], None)
        return list(s.ch)
    if isinstance(v, Opaque) and v.kind == 'ioerror': return list(v.data[1].ch) if isinstance(v.data[1], (Str, RString)) else [ord(c) for c in str(v.data[1])]
    if isinstance(v, Opaque): return [ord(c) for c in '<%s>' % v.kind]
    raise Unsupported('to_string of %r' % (v,))

def fmt_f64(x):
    """Rust's `{}` for f64: shortest round-trip digits, never exponent notation"""
    if x != x: return 'NaN'
    if math.isinf(x): return 'inf' if x > 0 else '-inf'
    if x == 0: return '-0' if math.copysign(1, x) < 0 else '0'
    r = repr(x)
    sign = ''
    if r[0] == '-': sign = '-'; r = r[1:]
    if 'e' in r or 'E' in r:
        mant, exp = r.lower().split('e'); exp = int(exp)
        if '.' in mant: ip, fp = mant.split('.')
        else: ip, fp = mant, ''
        digits = ip + fp; point = len(ip) + exp
        if point <= 0: s = '0.' + '0' * (-point) + digits
        elif point >= len(digits): s = digits + '0' * (point - len(digits))
        else: s = digits[:point] + '.' + digits[point:]
        s = s.rstrip('0').rstrip('.') if '.' in s else s
        return sign + s
    if r.endswith('.0'): r = r[:-2]
    return sign + r

def fmt_debug_str(ch, it=None):
    out = [ord('"')]
    for c in ch:
        if not isinstance(c, int):
            # exact only where the check asks for it (Typst quotes names with {:?}); elsewhere {:?} only feeds error messages
            if it is not None and getattr(it, 'strict_debug', False) and not truth(it, char_pred('debug_plain', c)):
                raise Unsupported('Debug rendering of a symbolic char that std escapes')
            out.append(c); continue
        if isinstance(c, int) and c in (34, 92): out += [92, c]
        elif isinstance(c, int) and c == 10: out += [92, ord('n')]
        elif isinstance(c, int) and c == 9: out += [92, ord('t')]
        else: out.append(c)
    out.append(ord('"'))
    return out

# ---- parsing numbers
def parse_u_digits(ch):
    return all(isinstance(c, int) and 48 <= c <= 57 for c in ch)

@model('str::parse', 'FromStr::from_str')
def _(it, a, info):
    ch = as_chars(a[0])
    if info['method'] == 'parse':
        target = info['mgen'][0] if info['mgen'] else None
    else:
        target = info['self_ty']
    target = target.strip() if target else None
    if target in INT_TYS:
        return parse_int(it, ch, target)
    if target in ('f64', 'f32'):
        return parse_float(it, ch)
    raise Unsupported('str::parse::<%s>' % target)

def int_error(kind): return err(Opaque('ParseIntError', kind))

def parse_int(it, ch, ty):
    bits, signed = INT_TYS[ty]
    # force concreteness of the *shape* by branching on each symbolic char's class
    conc = []
    for i, c in enumerate(ch):
        if isinstance(c, int): conc.append(c); continue
        if truth(it, z3.And(z3.UGE(c, 48), z3.ULE(c, 57))):
            conc.append(('d', c))
        elif truth(it, c == 43): conc.append(43)
        elif truth(it, c == 45): conc.append(45)
        else: conc.append(('x', c))
    if not conc: return int_error('Empty')
    neg = False; body = conc
    if conc[0] == 43 or (conc[0] == 45 and signed):
        neg = conc[0] == 45; body = conc[1:]
        if not body: return int_error('InvalidDigit')
    elif conc[0] == 45 and not signed:
        if len(conc) == 1: return int_error('InvalidDigit')
        return int_error('InvalidDigit')
    val = 0; sym = False
    for c in body:
        if isinstance(c, int):
            if not (48 <= c <= 57): return int_error('InvalidDigit')
            d = c - 48
        elif c[0] == 'd':
            d = z3.ZeroExt(128 - 32, c[1] - 48); sym = True
        else: return int_error('InvalidDigit')
        if sym:
            val = (val if is_sym(val) else z3.BitVecVal(val, 128)) * 10 + (d if is_sym(d) else z3.BitVecVal(d, 128))
        else:
            val = val * 10 + d
    if len(body) > 39: raise Unsupported('overlong symbolic integer')
    if not sym:
        v = -val if neg else val
        lo = -(1 << (bits - 1)) if signed else 0; hi = (1 << (bits - (1 if signed else 0))) - 1
        if v < lo: return int_error('NegOverflow')
        if v > hi: return int_error('PosOverflow')
        return ok(v)
    lim = (1 << (bits - 1)) if (signed and neg) else ((1 << (bits - (1 if signed else 0))) - 1)
    fits = z3.ULE(val, z3.BitVecVal(lim, 128))
    if not truth(it, fits): return int_error('NegOverflow' if neg else 'PosOverflow')
    r = z3.Extract(bits - 1, 0, val)
    return ok(-r if neg else r)

FLOAT_RE = re.compile(r'^[+-]?(?:(?:\d+\.?\d*|\.\d+)(?:[eE][+-]?\d+)?|inf|infinity|nan)$', re.I)

def parse_float(it, ch):
    """model of <f64 as FromStr>::from_str on a char list that may hold symbolic chars.  Every symbolic char is first
    classified by branching (each special char of the float grammar is a class of its own, decimal digits are one
    class, everything else is "other"), so the literal's shape is concrete on the path; digits stay symbolic and the
    value is an exact real (SymReal) unless the literal is inf/nan."""
    if not all(isinstance(c, int) for c in ch):
        shape = []
        specials = [ord(x) for x in '.eE+-iInNfFaAtTyY']
        for c in ch:
            if isinstance(c, int): shape.append(c); continue
            if truth(it, z3.And(z3.UGE(c, 48), z3.ULE(c, 57))): shape.append(('d', c)); continue
            for k in specials:
                if truth(it, c == k): shape.append(k); break
            else:
                return err(Opaque('ParseFloatError', 'Invalid'))
        txt = ''.join(chr(s_) if isinstance(s_, int) else '7' for s_ in shape)
        if not FLOAT_RE.match(txt): return err(Opaque('ParseFloatError', 'Empty' if not txt else 'Invalid'))
        low = txt.lower().lstrip('+-')
        if low in ('inf', 'infinity'): return ok(float('-inf') if txt[0] == '-' else float('inf'))
        if low == 'nan': return ok(float('nan'))
        neg = txt[0] == '-'
        body = shape[1:] if txt[0] in '+-' else shape
        epos = next((i_ for i_, s_ in enumerate(body) if s_ in (101, 69)), None)
        mant = body if epos is None else body[:epos]
        exp = 0
        if epos is not None:
            es = body[epos + 1:]; eneg = False
            if es and es[0] in (43, 45): eneg = es[0] == 45; es = es[1:]
            for d in es:
                if isinstance(d, int): dv = d - 48
                else:
                    dv = None
                    for k in range(10):
                        if truth(it, d[1] == 48 + k): dv = k; break
                exp = exp * 10 + dv
            if eneg: exp = -exp
            if abs(exp) > 400: raise Unsupported('huge symbolic exponent')
        ip = [x for x in mant]
        point = next((i_ for i_, s_ in enumerate(ip) if s_ == 46), len(ip))
        digs = [s_ for s_ in ip if s_ != 46]
        val = z3.RealVal(0)
        for i_, s_ in enumerate(digs):
            d = z3.RealVal(s_ - 48) if isinstance(s_, int) else z3.ToReal(z3.BV2Int(s_[1] - 48))
            e = point - 1 - i_ + exp
            val = val + d * (z3.RealVal(10 ** e) if e >= 0 else z3.RealVal(1) / z3.RealVal(10 ** (-e)))
        if neg: val = -val
        return ok(SymReal(val, neg))
    txt = ''.join(chr(c) for c in ch)
    if not FLOAT_RE.match(txt): return err(Opaque('ParseFloatError', 'Empty' if not txt else 'Invalid'))
    t = txt.lower()
    if t.lstrip('+-') in ('inf', 'infinity'): return ok(float('-inf') if t[0] == '-' else float('inf'))
    if t.lstrip('+-') == 'nan': return ok(float('nan'))
    return ok(float(txt))

# ---- searching / trimming (concrete patterns; haystack may hold symbolic chars)
def pat_chars(it, p):
    p = deref(p)
    if isinstance(p, int) or is_sym(p): return [p]
    if isinstance(p, (Str, RString)): return list(p.ch)
    raise Unsupported('pattern %r' % (p,))

def match_at(it, hay, i, pat):
    if i + len(pat) > len(hay): return False
    return truth(it, chars_eq(it, hay[i:i + len(pat)], pat))

@model('str::starts_with')
def _(it, a, info):
    hay = as_chars(a[0]); p = deref(a[1])
    if isinstance(p, (Agg, FnRef)):      # predicate pattern
        if not hay: return False
        return call_closure_like(it, p, [hay[0]])
    pat = pat_chars(it, p)
    if len(pat) > len(hay): return False
    return chars_eq(it, hay[:len(pat)], pat)

@model('str::ends_with')
def _(it, a, info):
    hay = as_chars(a[0]); pat = pat_chars(it, a[1])
    if len(pat) > len(hay): return False
    return chars_eq(it, hay[len(hay) - len(pat):], pat)

@model('str::contains')
def _(it, a, info):
    hay = as_chars(a[0]); pat = pat_chars(it, a[1])
    for i in range(len(hay) - len(pat) + 1):
        if match_at(it, hay, i, pat): return True
    return False

@model('str::find')
def _(it, a, info):
    hay = as_chars(a[0]); p = deref(a[1])
    if isinstance(p, (Agg, FnRef)):
        pos = 0
        for c in hay:
            if truth(it, call_closure_like(it, p, [c])): return some(pos)
            pos += utf8_len(c) if isinstance(c, int) else None
        return none()
    pat = pat_chars(it, p); pos = 0
    for i in range(len(hay) - len(pat) + 1):
        if match_at(it, hay, i, pat): return some(conc_len(it, hay[:i]))
    return none()

@model('str::trim')
def _(it, a, info):
    ch = as_chars(a[0]); i = 0; j = len(ch)
    while i < j and truth(it, char_pred('is_whitespace', ch[i])): i += 1
    while j > i and truth(it, char_pred('is_whitespace', ch[j - 1])): j -= 1
    return Str(ch[i:j])

@model('str::trim_start')
def _(it, a, info):
    ch = as_chars(a[0]); i = 0
    while i < len(ch) and truth(it, char_pred('is_whitespace', ch[i])): i += 1
    return Str(ch[i:])

@model('str::trim_end')
def _(it, a, info):
    ch = as_chars(a[0]); j = len(ch)
    while j > 0 and truth(it, char_pred('is_whitespace', ch[j - 1])): j -= 1
    return Str(ch[:j])

@model('str::trim_start_matches')
def _(it, a, info):
    ch = as_chars(a[0]); pat = pat_chars(it, a[1]); i = 0
    if not pat: return Str(ch)
    while match_at(it, ch, i, pat): i += len(pat)
    return Str(ch[i:])

@model('str::trim_end_matches')
def _(it, a, info):
    ch = as_chars(a[0]); pat = pat_chars(it, a[1]); j = len(ch)
    if not pat: return Str(ch)
    while j - len(pat) >= 0 and match_at(it, ch[:j], j - len(pat), pat): j -= len(pat)
    return Str(ch[:j])

@model('str::strip_prefix')
def _(it, a, info):
    ch = as_chars(a[0]); pat = pat_chars(it, a[1])
    return some(Str(ch[len(pat):])) if match_at(it, ch, 0, pat) else none()

@model('str::strip_suffix')
def _(it, a, info):
    ch = as_chars(a[0]); pat = pat_chars(it, a[1])
    if len(pat) <= len(ch) and match_at(it, ch, len(ch) - len(pat), pat): return some(Str(ch[:len(ch) - len(pat)]))
    return none()

@model('str::split')
def _(it, a, info):
    from models_iter import ListIter
    ch = as_chars(a[0]); pat = pat_chars(it, a[1])
    if not pat: raise Unsupported('split on empty pattern')
    out = []; cur = []; i = 0
    while i < len(ch):
        if match_at(it, ch, i, pat):
            out.append(Str(cur)); cur = []; i += len(pat)
        else:
            cur.append(ch[i]); i += 1
    out.append(Str(cur))
    return ListIter(out)

@model('str::split_whitespace')
def _(it, a, info):
    from models_iter import ListIter
    ch = as_chars(a[0]); out = []; cur = []
    for c in ch:
        if truth(it, char_pred('is_whitespace', c)):
            if cur: out.append(Str(cur)); cur = []
        else: cur.append(c)
    if cur: out.append(Str(cur))
    return ListIter(out)

@model('str::to_string', 'str::to_owned', 'str::into_string')
def _(it, a, info): return RString(as_chars(a[0]))

@model('str::to_lowercase', 'str::to_uppercase')
def _(it, a, info): raise Unsupported('case mapping')

@model('str::repeat')
def _(it, a, info): return RString(as_chars(a[0]) * a[1])

@model('str::get', 'str::get_unchecked')
def _(it, a, info): raise Unsupported('str::get')

@model('slice::join', 'slice::concat')
def _(it, a, info):
    items = as_items(a[0]); sep = as_chars(a[1]) if len(a) > 1 else []
    out = []
    for i, s in enumerate(items):
        if i: out.extend(sep)
        out.extend(as_chars(s))
    return RString(out)

# ------------------------------------------------------------------ more str / String methods
@model('str::rfind')
def _(it, a, info):
    hay = as_chars(a[0]); pat = pat_chars(it, a[1])
    for i in range(len(hay) - len(pat), -1, -1):
        if match_at(it, hay, i, pat): return some(conc_len(it, hay[:i]))
    return none()
@model('str::split_once')
def _(it, a, info):
    hay = as_chars(a[0]); pat = pat_chars(it, a[1])
    for i in range(len(hay) - len(pat) + 1):
        if match_at(it, hay, i, pat): return some(Agg('tuple', [Str(hay[:i]), Str(hay[i + len(pat):])]))
    return none()
@model('str::lines')
def _(it, a, info):
    from models_iter import ListIter
    hay = as_chars(a[0]); out = []; cur = []
    for c in hay:
        if truth(it, char_eq(c, 10)): out.append(Str(cur)); cur = []
        else: cur.append(c)
    if cur: out.append(Str(cur))
    return ListIter(out)
@model('str::matches')
def _(it, a, info): raise Unsupported('str::matches')
@model('str::eq_ignore_ascii_case')
def _(it, a, info): raise Unsupported('eq_ignore_ascii_case')
@model('String::remove')
def _(it, a, info):
    s = deref(a[0]); idx = byte_to_char_index(it, s.ch, a[1]); return s.ch.pop(idx)
@model('String::retain')
def _(it, a, info):
    s = deref(a[0]); s.ch[:] = [c for c in s.ch if truth(it, call_closure_like(it, a[1], [c]))]; return UNIT
@model('String::extend')
def _(it, a, info):
    from models_iter import to_iter, drain
    s = deref(a[0])
    for v in drain(it, to_iter(it, a[1])):
        v = deref(v)
        if isinstance(v, (Str, RString)): s.ch.extend(v.ch)
        else: s.ch.append(v)
    return UNIT
@model('String::capacity', 'Vec::capacity')
def _(it, a, info): return 0
@model('String::reserve', 'Vec::reserve', 'String::shrink_to_fit', 'Vec::shrink_to_fit')
def _(it, a, info): return UNIT
@model('char::is_digit')
def _(it, a, info):
    c = a[0]
    if a[1] != 10: raise Unsupported('is_digit radix')
    if isinstance(c, int): return 48 <= c <= 57
    return z3.And(z3.UGE(c, 48), z3.ULE(c, 57))
@model('char::eq_ignore_ascii_case', 'char::to_ascii_lowercase', 'char::to_ascii_uppercase', 'char::to_lowercase', 'char::to_uppercase')
def _(it, a, info): raise Unsupported('case mapping')
@model('char::from_u32')
def _(it, a, info):
    x = a[0]
    if is_sym(x): raise Unsupported('from_u32 symbolic')
    return some(x) if (x <= 0x10FFFF and not 0xD800 <= x <= 0xDFFF) else none()
@model('char::from_digit')
def _(it, a, info):
    return some(48 + a[0]) if a[0] < 10 and a[1] == 10 else none()
