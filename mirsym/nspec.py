"""Neutral descriptions ("specs") of Narsese values, convertible to (a) oracle tokens for the native crate,
(b) interpreter values built by the crate's own constructors running as MIR, and canonical JSON forms
of interpreter results comparable with the oracle's output."""
import json, z3
from values import *
from oracle import hexs, fbits

TERM_ATOMS = {'Word': 'W', 'VariableIndependent': 'Vi', 'VariableDependent': 'Vd', 'VariableQuery': 'Vq', 'Operator': 'O'}
TERM_SETS = {'SetExtension': 'SE', 'SetIntension': 'SI', 'IntersectionExtension': 'IE', 'IntersectionIntension': 'II',
             'Conjunction': 'CJ', 'Disjunction': 'DJ', 'ConjunctionParallel': 'PA'}
TERM_VECS = {'Product': 'PR', 'ConjunctionSequential': 'SQ'}
TERM_IMAGES = {'ImageExtension': 'ME', 'ImageIntension': 'MI'}
TERM_BIN = {'DifferenceExtension': 'DE', 'DifferenceIntension': 'DI', 'Inheritance': 'INH', 'Similarity': 'SIM',
            'Implication': 'IMP', 'Equivalence': 'EQV', 'ImplicationPredictive': 'IMPP', 'ImplicationConcurrent': 'IMPC',
            'ImplicationRetrospective': 'IMPR', 'EquivalencePredictive': 'EQVP', 'EquivalenceConcurrent': 'EQVC',
            'Instance': 'INST', 'Property': 'PROP', 'InstanceProperty': 'INSTPROP', 'EquivalenceRetrospective': 'EQVR'}
CTOR = {'Word': 'new_word', 'VariableIndependent': 'new_variable_independent', 'VariableDependent': 'new_variable_dependent',
        'VariableQuery': 'new_variable_query', 'Operator': 'new_operator', 'Placeholder': 'new_placeholder', 'Interval': 'new_interval',
        'SetExtension': 'new_set_extension', 'SetIntension': 'new_set_intension', 'IntersectionExtension': 'new_intersection_extension',
        'IntersectionIntension': 'new_intersection_intension', 'DifferenceExtension': 'new_difference_extension',
        'DifferenceIntension': 'new_difference_intension', 'Product': 'new_product', 'ImageExtension': 'new_image_extension',
        'ImageIntension': 'new_image_intension', 'Conjunction': 'new_conjunction', 'Disjunction': 'new_disjunction',
        'Negation': 'new_negation', 'ConjunctionSequential': 'new_conjunction_sequential', 'ConjunctionParallel': 'new_conjunction_parallel',
        'Inheritance': 'new_inheritance', 'Similarity': 'new_similarity', 'Implication': 'new_implication', 'Equivalence': 'new_equivalence',
        'ImplicationPredictive': 'new_implication_predictive', 'ImplicationConcurrent': 'new_implication_concurrent',
        'ImplicationRetrospective': 'new_implication_retrospective', 'EquivalencePredictive': 'new_equivalence_predictive',
        'EquivalenceConcurrent': 'new_equivalence_concurrent', 'Instance': 'new_instance', 'Property': 'new_property',
        'InstanceProperty': 'new_instance_property', 'EquivalenceRetrospective': 'new_equivalence_retrospective'}
TERM_TY = 'enum_narsese::term::structs::Term'
VEC_TERM = 'std::vec::Vec<enum_narsese::term::structs::Term>'

# ---------------------------------------------------------------- spec -> oracle tokens
def term_tokens(t, name_of=None):
    k = t[0]
    nm = (lambda n: n) if name_of is None else name_of
    if k in TERM_ATOMS: return ['%s:%s' % (TERM_ATOMS[k], hexs(nm(t[1])))]
    if k == 'Placeholder': return ['P']
    if k == 'Interval': return ['I:%d' % t[1]]
    if k in TERM_SETS or k in TERM_VECS:
        code = TERM_SETS.get(k) or TERM_VECS[k]
        out = ['%s:%d' % (code, len(t[1]))]
        for x in t[1]: out += term_tokens(x, name_of)
        return out
    if k in TERM_IMAGES:
        out = ['%s:%d:%d' % (TERM_IMAGES[k], t[1], len(t[2]))]
        for x in t[2]: out += term_tokens(x, name_of)
        return out
    if k == 'Negation': return ['NG'] + term_tokens(t[1], name_of)
    if k in TERM_BIN: return [TERM_BIN[k]] + term_tokens(t[1], name_of) + term_tokens(t[2], name_of)
    raise ValueError('term spec ' + repr(t))

def truth_tokens(t): return ['T%d' % len(t) + ''.join(':' + fbits(f) for f in t)]
def budget_tokens(b): return ['B%d' % len(b) + ''.join(':' + fbits(f) for f in b)]
def stamp_tokens(s):
    return ['ST:' + {'Eternal': 'E', 'Past': 'P', 'Present': 'N', 'Future': 'F'}[s[0]]] if s[0] != 'Fixed' else ['ST:X:%d' % s[1]]
PUNCT = {'Judgement': 'J', 'Goal': 'G', 'Question': 'Q', 'Quest': 'U'}

def narsese_tokens(v, name_of=None):
    """v = ('Term', term) | ('Sentence', punct, term, stamp, truth) | ('Task', budget, punct, term, stamp, truth)"""
    if v[0] == 'Term': return ' '.join(['NT'] + term_tokens(v[1], name_of))
    if v[0] == 'Sentence':
        return ' '.join(['NS', 'S', PUNCT[v[1]]] + term_tokens(v[2], name_of) + stamp_tokens(v[3]) + truth_tokens(v[4]))
    if v[0] == 'Task':
        return ' '.join(['NK', 'K'] + budget_tokens(v[1]) + ['S', PUNCT[v[2]]] + term_tokens(v[3], name_of) + stamp_tokens(v[4]) + truth_tokens(v[5]))
    raise ValueError(v)

# ---------------------------------------------------------------- spec -> interpreter value (via the crate's constructors)
def call_ctor(it, name, args, arg_tys, gen=''):
    return it.call_named('impls::<impl %s>::%s%s' % (TERM_TY, name, gen), args, arg_tys, TERM_TY)

def build_term(it, t):
    k = t[0]
    if k in TERM_ATOMS:
        name = t[1]
        s = Str([ord(c) for c in name]) if isinstance(name, str) else Str(name)
        return call_ctor(it, CTOR[k], [s], ['&str'], '::<&str>')
    if k == 'Placeholder': return call_ctor(it, 'new_placeholder', [], [])
    if k == 'Interval': return call_ctor(it, 'new_interval', [t[1]], ['usize'])
    if k in TERM_SETS or k in TERM_VECS:
        items = RVec([build_term(it, x) for x in t[1]])
        return call_ctor(it, CTOR[k], [items], [VEC_TERM], '::<%s>' % VEC_TERM)
    if k in TERM_IMAGES:
        items = RVec([build_term(it, x) for x in t[2]])
        return call_ctor(it, CTOR[k], [t[1], items], ['usize', VEC_TERM], '::<%s>' % VEC_TERM)
    if k == 'Negation': return call_ctor(it, 'new_negation', [build_term(it, t[1])], [TERM_TY])
    if k in TERM_BIN:
        return call_ctor(it, CTOR[k], [build_term(it, t[1]), build_term(it, t[2])], [TERM_TY, TERM_TY])
    raise ValueError('term spec ' + repr(t))

def build_truth(it, t):
    n = ['Empty', 'Single', 'Double'][len(t)]
    return Enum('enum_narsese::sentence::truth::Truth', n, len(t), list(t))
def build_budget(it, b):
    n = ['Empty', 'Single', 'Double', 'Triple'][len(b)]
    return Enum('enum_narsese::task::budget::Budget', n, len(b), list(b))
STAMPS = ['Eternal', 'Past', 'Present', 'Future', 'Fixed']
def stamp_order(it):
    vs = it.prog.si.enum_variants('Stamp', 'Eternal')
    return [v for v, _ in vs]
def build_stamp(it, s):
    order = stamp_order(it)
    return Enum('enum_narsese::sentence::stamp::Stamp', s[0], order.index(s[0]), list(s[1:]))
def build_punct(it, p):
    order = [v for v, _ in it.prog.si.enum_variants('Punctuation', 'Judgement')]
    return Enum('enum_narsese::sentence::punctuation::Punctuation', p, order.index(p), [])

def build_sentence(it, punct, term, stamp, truth):
    return it.call_named('enum_narsese::sentence::Sentence::from_punctuation',
                         [build_term(it, term), build_punct(it, punct), build_stamp(it, stamp), build_truth(it, truth)],
                         [TERM_TY, None, None, None], 'enum_narsese::sentence::Sentence')

def build_narsese(it, v):
    order = ['Term', 'Sentence', 'Task']
    NV = 'narsese_value::NarseseValue'
    if v[0] == 'Term': return Enum(NV, 'Term', 0, [build_term(it, v[1])])
    if v[0] == 'Sentence': return Enum(NV, 'Sentence', 1, [build_sentence(it, v[1], v[2], v[3], v[4])])
    if v[0] == 'Task':
        s = build_sentence(it, v[2], v[3], v[4], v[5])
        return Enum(NV, 'Task', 2, [Agg('enum_narsese::task::Task', [s, build_budget(it, v[1])])])
    raise ValueError(v)

# ---------------------------------------------------------------- interpreter value -> canonical JSON-able tree
def cstr(s, model=None):
    chs = list(s.ch)
    if model is not None:
        chs = [c if isinstance(c, int) else model.eval(c, model_completion=True).as_long() for c in chs]
    if all(isinstance(c, int) for c in chs): return ''.join(chr(c) for c in chs)
    return ['symstr'] + [c if isinstance(c, int) else str(c) for c in chs]

def cnum(x, model=None, signed=False):
    if is_sym(x) and model is not None:
        v = model.eval(x, model_completion=True)
        x = v.as_signed_long() if signed else v.as_long()
    return str(x)

def cflt(x, model=None):
    if isinstance(x, float): return {'f': fbits(x)}
    if isinstance(x, SymReal) and model is not None:
        from fractions import Fraction
        v = model.eval(x.r, model_completion=True)
        fr = Fraction(v.numerator_as_long(), v.denominator_as_long())
        f_ = float(fr)
        if f_ == 0.0 and x.neg: f_ = -0.0
        return {'f': fbits(f_)}
    if is_sym(x) and model is not None and z3.is_fp(x):
        import struct
        v = model.eval(x, model_completion=True)
        bv = model.eval(z3.fpToIEEEBV(v), model_completion=True).as_long()
        return {'f': '%016x' % bv}
    return {'f': 'sym'}

def ckey(j):
    """the one sort key used for unordered components everywhere (interpreter values, oracle payloads, specs)"""
    return json.dumps(j, sort_keys=True)

def resort(j):
    """re-sort the element lists of set-like term nodes in any canonical tree with ckey"""
    if isinstance(j, list):
        j = [resort(x) for x in j]
        if len(j) == 2 and isinstance(j[0], str) and j[0] in TERM_SETS and isinstance(j[1], list):
            return [j[0], sorted(j[1], key=ckey)]
        return j
    if isinstance(j, dict): return {k: resort(v) for k, v in j.items()}
    return j

def canon_term(v, model=None):
    v = unbox(v)
    k = v.variant
    if k in TERM_ATOMS: return [k, cstr(v.f[0], model)]
    if k == 'Placeholder': return [k]
    if k == 'Interval': return [k, cnum(v.f[0], model)]
    if k in TERM_SETS:
        items = [canon_term(x, model) for x in v.f[0].items]
        return [k, sorted(items, key=ckey)]
    if k in TERM_VECS: return [k, [canon_term(x, model) for x in v.f[0].items]]
    if k in TERM_IMAGES: return [k, cnum(v.f[0], model), [canon_term(x, model) for x in v.f[1].items]]
    if k == 'Negation': return [k, canon_term(v.f[0], model)]
    return [k, canon_term(v.f[0], model), canon_term(v.f[1], model)]

def unbox(v):
    while isinstance(v, (Ref, RBox)):
        v = v.get() if isinstance(v, Ref) else v.cell[0]
    return v

def canon_truth(v, model=None): return [v.variant] + [cflt(x, model) for x in v.f]
def canon_budget(v, model=None): return [v.variant] + [cflt(x, model) for x in v.f]
def canon_stamp(v, model=None): return [v.variant] + [cnum(x, model, True) for x in v.f]
def canon_sentence(v, model=None):
    if v.variant in ('Judgement', 'Goal'):
        return [v.variant, canon_term(v.f[0], model), canon_truth(v.f[1], model), canon_stamp(v.f[2], model)]
    return [v.variant, canon_term(v.f[0], model), canon_stamp(v.f[1], model)]
def canon_task(v, model=None): return ['Task', canon_sentence(v.f[0], model), canon_budget(v.f[1], model)]
def canon_narsese(v, model=None):
    if v.variant == 'Term': return ['Term', canon_term(v.f[0], model)]
    if v.variant == 'Sentence': return ['Sentence', canon_sentence(v.f[0], model)]
    return ['Task', canon_task(v.f[0], model)]
def canon_result(v, inner, model=None):
    if v.variant == 'Ok': return ['Ok', inner(v.f[0], model)]
    return ['Err']

def canon_lex_term(v, model=None):
    v = unbox(v)
    k = v.variant
    if k == 'Atom': return ['Atom', cstr(v.f[0], model), cstr(v.f[1], model)]
    if k == 'Compound': return ['Compound', cstr(v.f[0], model), [canon_lex_term(x, model) for x in v.f[1].items]]
    if k == 'Set': return ['Set', cstr(v.f[0], model), [canon_lex_term(x, model) for x in v.f[1].items], cstr(v.f[2], model)]
    return ['Statement', cstr(v.f[0], model), canon_lex_term(v.f[1], model), canon_lex_term(v.f[2], model)]
def canon_lex_sentence(v, model=None):
    return ['Sentence', canon_lex_term(v.f[0], model), cstr(v.f[1], model), cstr(v.f[2], model), [cstr(x, model) for x in v.f[3].items]]
def canon_lex_task(v, model=None):
    return ['Task', [cstr(x, model) for x in v.f[0].items], canon_lex_sentence(v.f[1], model)]
def canon_lex_narsese(v, model=None):
    if v.variant == 'Term': return ['Term', canon_lex_term(v.f[0], model)]
    if v.variant == 'Sentence': return ['Sentence', canon_lex_sentence(v.f[0], model)]
    return ['Task', canon_lex_task(v.f[0], model)]

def strip_err(j):
    """oracle result with the error message dropped (messages are rendered by std fmt, which we only approximate)"""
    if isinstance(j, list) and j and j[0] in ('Err', 'LexErr'): return ['Err']
    return j
