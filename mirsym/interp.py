"""Symbolic interpreter for rustc's textual MIR.

* shapes are concrete (enum variants, container lengths, pointers); scalars may be z3 terms
* every branch on a symbolic condition goes through PathCtx.branch (re-execution with decision prefixes)
* calls resolve to (a) a MIR body of the crate / nar_dev_utils, picked by name + impl header + type unification,
  or (b) a Python model of a std API (models.py).  Anything else raises Unsupported => the query is inconclusive.
"""
import re, sys, math
import z3
from mirparse import parse_mir, strip_generics, split_top, find_matching, INT_TYS
from values import *
from tyunify import parse_ty, unify, substitute_text, strip_lifetimes, show as show_ty
import tyunify

sys.setrecursionlimit(20000)

class RustPanic(Exception):
    def __init__(self, msg, where=''):
        Exception.__init__(self, msg); self.msg = msg; self.where = where

class Unsupported(Exception):
    pass

class StepLimit(Exception):
    pass

class Infeasible(Exception):
    """raised when an assumption makes the current path infeasible"""
    pass

# ------------------------------------------------------------------------------- path context

class PathCtx:
    """decision oracle + path condition for one execution"""
    def __init__(self, prefix=(), timeout_ms=20000):
        self.prefix = list(prefix)
        self.pos = 0
        self.trail = []            # decisions taken on this run: (choice, forced)
        self.alternatives = []     # prefixes still to explore
        self.solver = z3.Solver()
        self.solver.set('timeout', timeout_ms)
        self.pc = []
        self.nchecks = 0
        self.solver_time = 0.0
        self.events = []           # free-form trace (models may record things)
        self.fresh = 0

    def assume(self, cond):
        if cond is True: return
        if cond is False: raise Infeasible()
        self.solver.add(cond); self.pc.append(cond)

    def _check(self, extra):
        import time
        t = time.time()
        self.solver.push(); self.solver.add(extra)
        r = self.solver.check()
        self.solver.pop()
        self.nchecks += 1; self.solver_time += time.time() - t
        if r == z3.unknown:
            raise Unsupported('solver returned unknown')
        return r == z3.sat

    def branch(self, cond):
        """returns a Python bool; forks when both outcomes are feasible"""
        if cond is True or cond is False: return cond
        if isinstance(cond, bool): return cond
        cond = z3.simplify(cond)
        if z3.is_true(cond): return True
        if z3.is_false(cond): return False
        if self.pos < len(self.prefix):
            choice = self.prefix[self.pos][0]; forced = self.prefix[self.pos][1]
            self.pos += 1
            self.trail.append((choice, forced))
            c = cond if choice else z3.Not(cond)
            self.solver.add(c); self.pc.append(c)
            return choice
        can_t = self._check(cond)
        can_f = self._check(z3.Not(cond))
        if can_t and can_f:
            self.alternatives.append(self.trail + [(False, False)])
            choice, forced = True, False
        elif can_t: choice, forced = True, True
        elif can_f: choice, forced = False, True
        else: raise Infeasible()
        self.pos += 1
        self.trail.append((choice, forced))
        c = cond if choice else z3.Not(cond)
        self.solver.add(c); self.pc.append(c)
        return choice

    def model(self):
        if self.solver.check() != z3.sat: return None
        return self.solver.model()

    def fresh_name(self, base):
        self.fresh += 1
        return '%s!%d' % (base, self.fresh)

# ------------------------------------------------------------------------------- program

def norm_ty_name(path):
    """aggregate path -> (basename, qualified path without generics)"""
    p = strip_generics(strip_lifetimes(path).replace('::::', '::')).strip().rstrip(':')
    return p.split('::')[-1], p

BUILTIN_ENUMS = {
    'Option': [('None', 0), ('Some', 1)],
    'Result': [('Ok', 1), ('Err', 1)],
    'ControlFlow': [('Continue', 1), ('Break', 1)],
    'Ordering': [('Less', 0), ('Equal', 0), ('Greater', 0)],
    'Cow': [('Borrowed', 1), ('Owned', 1)],
    'Bound': [('Included', 1), ('Excluded', 1), ('Unbounded', 0)],
}
BUILTIN_STRUCTS = {'Range': ['start', 'end'], 'RangeFrom': ['start'], 'RangeTo': ['end'], 'RangeToInclusive': ['end'],
                   'RangeFull': []}
ORDERING_DISCR = {'Less': -1, 'Equal': 0, 'Greater': 1}
BARE_VARIANTS = {'Less': 'Ordering', 'Equal': 'Ordering', 'Greater': 'Ordering',
                 'InvalidData': 'ErrorKind', 'InvalidInput': 'ErrorKind', 'Other': 'ErrorKind', 'NotFound': 'ErrorKind',
                 'None': 'Option'}

class Program:
    def __init__(self, mir_paths, srcinfo):
        self.fns = {}
        for p, tag in mir_paths:
            for k, f in parse_mir(p, tag).items():
                self.fns.setdefault(k, f)
        self.si = srcinfo
        self.by_last = {}          # last path segment -> [Fn]
        self.closures = {}         # closure id text -> Fn
        self.impl_of = {}          # fn name -> impl dict (from srcinfo) or None
        self.generics_of = {}      # fn name -> [names]
        for key_, f in self.fns.items():
            name = f.name
            if f.kind != 'fn': continue
            last = self.last_segment(name)
            self.by_last.setdefault(last, []).append(f)
            if '{closure#' in name and f.params:
                m = re.search(r'\{closure@[^}]*\}', f.params[0][1])
                if m: self.closures.setdefault(self.closure_key(m.group(0)), f)
            self._index_src(f.key, f)
        self.const_cache = {}
        self.resolve_cache = {}
        self.alloc_static = {}     # 'alloc290' -> static item name
        self.static_cells = {}
        self.assoc_consts = {}     # const name (last segment) -> [Fn] of impl-associated consts
        for p, tag in mir_paths:
            with open(p, encoding='utf-8', errors='replace') as fh:
                for line in fh:
                    if line.startswith('alloc'):
                        m = re.match(r'^(alloc\d+) \(static: (.*?), size:', line)
                        if m: self.alloc_static[m.group(1)] = m.group(2)
        for key_, f in self.fns.items():
            if f.kind != 'fn' and '<impl at' in f.name:
                self.assoc_consts.setdefault(f.name.split('::')[-1], []).append(f)
                try: self._index_src(f.key, f)
                except Exception: self.impl_of[f.key] = None

    @staticmethod
    def closure_key(cid):
        # '{closure@src/x.rs:12:3: 12:9}' -> 'x.rs:12:3: 12:9' style key robust to path prefix differences
        return re.sub(r'^\{closure@', '', cid).rstrip('}')

    @staticmethod
    def last_segment(name):
        n = strip_generics(name)
        # drop trailing closure markers
        segs = re.split(r'::(?![^<]*>)', n)
        return segs[-1]

    def _index_src(self, key, f):
        name = f.name
        m = re.search(r'<impl at ([^>]*?):(\d+):(\d+): \d+:(\d+)>', name)
        imp = None; gens = []
        meth = self.last_segment(name)
        if m:
            rel = self._relfile(m.group(1)); line = int(m.group(2))
            imp = self.si.impl_at(rel, line)
            if imp is None:
                imp = self.si.derive_at(rel, line, int(m.group(3)), int(m.group(4)))
                if imp is not None: gens = list(imp['generics'])
            elif imp is not None:
                gens = list(imp['generics'])
                chain = name[m.end():].lstrip(':')
                first = strip_generics(chain).split('::')[0]
                d = self.si.fn_in_impl(rel, line, first)
                if d: gens += d['generics']
        else:
            base = strip_generics(name)
            segs = base.split('::')
            if '{closure' not in name:
                d = self.si.free_fn(segs[-1], '::'.join(segs[:-1]))
                if d: gens = list(d['generics'])
                # trait default methods: Trait generics unknown -> add 'Self'
                if len(segs) >= 2 and segs[-2][:1].isupper(): gens = ['Self'] + gens
        self.impl_of[key] = imp
        self.generics_of[key] = gens

    def _relfile(self, path):
        # MIR prints 'src/a/b.rs' for the crate and an absolute registry path for dependencies
        if path.startswith('src/'): return path[4:]
        m = re.search(r'nar_dev_utils-[\d.]+/src/(.*)$', path)
        if m: return 'ndu:' + m.group(1)
        return path

# ------------------------------------------------------------------------------- interpreter

class Frame:
    __slots__ = ('fn', 'locals', 'substs')

class Interp:
    def __init__(self, prog, ctx, models, step_limit=2_000_000):
        self.prog = prog; self.ctx = ctx; self.models = models
        self.steps = 0; self.step_limit = step_limit
        self.depth = 0
        self.call_trace = None          # optional list: names of MIR fns entered
        self.hooks = {}                 # callee-key -> python fn(interp, args) overriding resolution
        self.max_depth = 400
        self.fn_seen = set()

    # ---------------------------------------------------------------- values helpers
    def const_value(self, c, substs, cur_fn=None):
        k = c[0]
        if k == 'int': return c[1]
        if k == 'bool': return c[1]
        if k == 'char': return c[1]
        if k == 'str': return mkstr(c[1])
        if k == 'float': return c[1]
        if k == 'unit': return UNIT
        if k == 'zst': return self.zst_value(c[1], substs)
        if k == 'bytes': return Opaque('bytes', c[1])
        if k == 'named': return self.named_const(c[1], substs, cur_fn)
        raise Unsupported('const ' + repr(c))

    def zst_value(self, ty, substs):
        ty = ty.strip()
        if ty.startswith('{closure@'):
            return Agg(ty[:find_matching(ty, 0) + 1], [], dict(substs))
        if ty.startswith('fn(') or ty.startswith('for<'):
            # "fn(args) -> ret {path}"  function item type
            m = re.search(r'\{(.*)\}$', ty)
            if m: return FnRef(substitute_text(m.group(1), substs), dict(substs))
        return Agg(norm_ty_name(ty)[1], [])

    def named_const(self, path, substs, cur_fn=None):
        path = path.strip()
        if path in substs:
            sv = substs[path].strip()
            m = re.match(r'^(-?\d+)(?:_[a-z0-9]+)?$', sv)
            if m: return int(m.group(1))
            if sv in ('true', 'false'): return sv == 'true'
            path = sv
        m = re.search(r'::(promoted\[\d+\])$', path)
        if m and cur_fn is not None:
            key = cur_fn.name + '::' + m.group(1) + ('#%d' % cur_fn.dup if cur_fn.dup > 1 else '')
            if key in self.prog.fns: return self.eval_const_item(key, substs)
        if path in self.prog.fns and self.prog.fns[path].kind != 'fn':
            return self.eval_const_item(path)
        segs_ = strip_generics(path).split('::')
        if len(segs_) >= 2 and segs_[-2] in BUILTIN_ENUMS:
            vs = BUILTIN_ENUMS[segs_[-2]]
            for i_, (vn, ar) in enumerate(vs):
                if vn == segs_[-1] and ar == 0: return Enum(segs_[-2], vn, i_, [])
        f = self.prog.fns.get(path)
        if f is not None and f.kind != 'fn':
            return self.eval_const_item(path)
        # `const {alloc..}`-style or fn item
        base = strip_generics(path)
        if base in self.prog.fns and self.prog.fns[base].kind != 'fn':
            return self.eval_const_item(base)
        # try trimmed-suffix match for consts
        for name, g in self.prog.fns.items():
            if g.kind != 'fn' and (name.endswith('::' + base) or base.endswith('::' + name)):
                return self.eval_const_item(name)
        m = re.match(r'^\{(alloc\d+): (.*)\}$', path)
        if m and m.group(1) in self.prog.alloc_static:
            sname = self.prog.alloc_static[m.group(1)]
            cell = self.static_cell(sname)
            return Ref(cell, 0) if m.group(2).lstrip().startswith('&') else cell[0]
        m = re.match(r'^<(.+) as (.+)>::(\w+)$', substitute_text(path, substs))
        if m and m.group(3) in self.prog.assoc_consts:
            want = base_name_of(m.group(1))
            for g in self.prog.assoc_consts[m.group(3)]:
                imp = self.prog.impl_of.get(g.key)
                if imp and base_name_of(imp['self_ty']) == want: return self.eval_const_item(g.key if g.key in self.prog.fns else g.name)
        sn = base.split('::')[-1]
        st_ = self.prog.si.structs.get(sn) if hasattr(self.prog, 'si') else None
        if st_ and any(not flds for _f, flds in st_): return Agg(norm_ty_name(path)[1], [])      # unit struct value
        sc = std_assoc_const(path)
        if sc is None and base.split('::')[-1] == 'RangeFull': sc = Agg('RangeFull', [])
        if sc is not None: return sc
        return FnRef(substitute_text(path, substs), dict(substs))

    def static_cell(self, sname):
        """the (mutable) storage of a static / thread-local item: one per interpreter = per execution, never shared between paths"""
        st = self.__dict__.setdefault('statics', {})
        cell = st.get(sname)
        if cell is None:
            cands = [n for n, g in self.prog.fns.items() if g.kind != 'fn' and (n == sname or n.endswith('::' + sname) or sname.endswith('::' + n))]
            if len(cands) != 1: raise Unsupported('static %s (%d candidates)' % (sname, len(cands)))
            cell = [self.eval_const_item(cands[0])]; st[sname] = cell
        return cell

    def eval_const_item(self, name, substs=None):
        ck = name if not substs else (name, tuple(sorted(substs.items())))
        if ck in self.prog.const_cache:
            return deep_copy(self.prog.const_cache[ck])
        f = self.prog.fns[name]
        v = self.run_fn(f, [], dict(substs) if substs else {})
        self.prog.const_cache[ck] = v
        return deep_copy(v)

    # ---------------------------------------------------------------- places
    def lval(self, fr, place):
        c = fr.locals; k = place.local
        for pr in place.projs:
            t = pr[0]
            v = c[k]
            if t == 'deref':
                if isinstance(v, Ref): c, k = v.c, v.k
                elif isinstance(v, RBox): c, k = v.cell, 0
                elif isinstance(v, (SliceRef, Str)): c, k = [v], 0     # unsized place: keep the fat pointer
                else: raise Unsupported('deref of %r in %s' % (type(v).__name__, place.text))
            elif t == 'field':
                if isinstance(v, (Agg, Enum)):
                    if pr[1] >= len(v.f):
                        raise Unsupported('field %d of %r (%s)' % (pr[1], v, place.text))
                    c, k = v.f, pr[1]
                elif isinstance(v, (RBox, Ref, RVec)) or v is UNINIT or isinstance(v, Opaque):
                    pass                               # transparent wrapper (Unique/NonNull/MaybeUninit/ManuallyDrop...)
                else:
                    raise Unsupported('field of %r in %s' % (v, place.text))
            elif t == 'downcast':
                if isinstance(v, Enum) and v.variant != pr[1] and not pr[1].startswith('variant#'):
                    raise Unsupported('downcast %s of %r' % (pr[1], v))
            elif t == 'index':
                i = fr.locals[pr[1]]
                c, k = self.index_into(v, i)
            elif t == 'constidx':
                seq = self.seq_items(v)
                i = (len(seq[0]) if False else None)
                base, lo, hi = seq
                idx = (hi - pr[1]) if pr[2] else (lo + pr[1])
                c, k = base, idx
            elif t == 'subslice':
                base, lo, hi = self.seq_items(v)
                a = lo + pr[1]
                b = (hi - pr[2]) if pr[3] else (lo + pr[2] if pr[2] is not None else hi)
                c, k = [SliceRef(base, a, b)], 0
            else:
                raise Unsupported('projection ' + t)
        return c, k

    def seq_items(self, v):
        if isinstance(v, Agg): return v.f, 0, len(v.f)
        if isinstance(v, SliceRef): return v.c, v.lo, v.hi
        if isinstance(v, RVec): return v.items, 0, len(v.items)
        if isinstance(v, RBox): return self.seq_items(v.cell[0])
        raise Unsupported('sequence of %r' % (v,))

    def index_into(self, v, i):
        if is_sym(i): raise Unsupported('symbolic index')
        base, lo, hi = self.seq_items(v)
        if not (0 <= i < hi - lo):
            raise RustPanic('index out of bounds: the len is %d but the index is %d' % (hi - lo, i))
        return base, lo + i

    def read(self, fr, place):
        c, k = self.lval(fr, place)
        v = c[k]
        return v

    def operand(self, fr, op):
        k = op[0]
        if k == 'const': return self.const_value(op[1], fr.substs, fr.fn)
        v = self.read(fr, op[1])
        if v is UNINIT:
            raise Unsupported('read of uninitialised %s in %s' % (op[1].text, fr.fn.name[-60:]))
        if k == 'copy' and isinstance(v, Agg) and not v.ty.startswith('{closure'):
            return Agg(v.ty, list(v.f), v.substs)
        return v

    def op_ty(self, fr, op):
        if op[0] == 'const':
            c = op[1]
            if c[0] == 'int': return c[2]
            if c[0] == 'float': return c[2]
            if c[0] == 'char': return 'char'
            if c[0] == 'bool': return 'bool'
            if c[0] == 'str': return '&str'
            if c[0] == 'unit': return '()'
            if c[0] == 'zst': return c[1]
            return None
        p = op[1]
        t = p.ty
        if t is None and not p.projs:
            t = fr.fn.locals.get(p.local)
        return substitute_text(t, fr.substs) if t else None

    # ---------------------------------------------------------------- rvalues
    def int_info(self, ty):
        if ty in INT_TYS: return INT_TYS[ty]
        if ty == 'char': return (32, False)
        if ty == 'bool': return (1, False)
        return None

    def rvalue(self, fr, rv, dest_ty):
        k = rv[0]
        if k == 'use': return self.operand(fr, rv[1])
        if k == 'ref':
            c, kk = self.lval(fr, rv[1])
            v = c[kk]
            # reference to an unsized place (deref of a fat pointer) is the fat pointer itself
            if rv[1].projs and rv[1].projs[-1][0] == 'deref' and isinstance(v, (SliceRef, Str)):
                return v
            if rv[1].projs and rv[1].projs[-1][0] == 'subslice':
                return v
            return Ref(c, kk)
        if k == 'binop': return self.binop(fr, rv[1], rv[2], rv[3], dest_ty)
        if k == 'unop':
            a = self.operand(fr, rv[2])
            if rv[1] == 'Not':
                if isinstance(a, bool): return not a
                if is_sym(a): return z3.Not(a) if z3.is_bool(a) else ~a
                info = self.int_info(self.op_ty(fr, rv[2]) or 'usize')
                return (~a) & ((1 << info[0]) - 1) if not info[1] else ~a
            if rv[1] == 'Neg':
                if isinstance(a, float): return -a
                if is_sym(a): return -a if not z3.is_fp(a) else z3.fpNeg(a)
                return -a
            if rv[1] == 'PtrMetadata':
                if isinstance(a, SliceRef): return len(a)
                if isinstance(a, Str): return self.str_byte_len(a)
                if isinstance(a, Ref):
                    t = a.get()
                    if isinstance(t, RVec): return len(t.items)
                    if isinstance(t, Agg): return len(t.f)
                raise Unsupported('PtrMetadata of %r' % (a,))
        if k == 'discr':
            v = self.read(fr, rv[1])
            if isinstance(v, Enum):
                if v.ty == 'Ordering': return ORDERING_DISCR[v.variant]
                return v.idx
            raise Unsupported('discriminant of %r' % (v,))
        if k == 'len':
            v = self.read(fr, rv[1])
            base, lo, hi = self.seq_items(v)
            return hi - lo
        if k == 'tuple': return Agg('tuple', [self.operand(fr, o) for o in rv[1]])
        if k == 'array': return Agg('array', [self.operand(fr, o) for o in rv[1]])
        if k == 'repeat':
            v = self.operand(fr, rv[1]); n = rv[2]
            n = substitute_text(n, fr.substs)
            m = re.match(r'^(?:const )?(\d+)(?:_usize)?$', n)
            if not m:
                cv = self.named_const(n.replace('const ', ''), fr.substs)
                if not isinstance(cv, int): raise Unsupported('repeat count ' + n)
                cnt = cv
            else: cnt = int(m.group(1))
            return Agg('array', [deep_copy(v) for _ in range(cnt)])
        if k == 'closure':
            return Agg(rv[1], [self.operand(fr, o) for o in rv[2].values()], dict(fr.substs))
        if k == 'adt': return self.make_adt(fr, rv[1], rv[2])
        if k == 'tlsref': return Ref(self.static_cell(rv[1]), 0)
        if k == 'cast': return self.cast(fr, rv[1], rv[2], rv[3])
        if k == 'shallow_init_box': return RBox(UNINIT)
        raise Unsupported('rvalue ' + k)

    def make_adt(self, fr, path, fields):
        path = substitute_text(path, fr.substs)
        base, qual = norm_ty_name(path)
        segs = qual.split('::')
        si = self.prog.si
        # enum variant?
        if len(segs) >= 2 or base in BARE_VARIANTS:
            ename = segs[-2] if len(segs) >= 2 else BARE_VARIANTS[base]
            vs = BUILTIN_ENUMS.get(ename)
            if vs is not None and any(v == base for v, _ in vs):
                idx = [v for v, _ in vs].index(base)
                vals = [self.operand(fr, o) for o in (fields if isinstance(fields, list) else fields.values())]
                return Enum(ename, base, idx, vals)
            if ename == 'ErrorKind':
                return Enum('ErrorKind', base, 0, [])
            ev = si.enum_variants(ename, base)
            if ev is not None and any(v == base for v, _ in ev):
                idx = [v for v, _ in ev].index(base)
                fnames = ev[idx][1]
                if isinstance(fields, dict):
                    vals = [self.operand(fr, fields[n]) for n in fnames]
                else:
                    vals = [self.operand(fr, o) for o in fields]
                return Enum('::'.join(segs[:-1]), base, idx, vals)
        # struct
        if isinstance(fields, dict):
            order = BUILTIN_STRUCTS.get(base) or si.struct_fields(base, list(fields))
            if order is None or set(order) != set(fields):
                raise Unsupported('struct layout of %s %r vs %r' % (path, order, list(fields)))
            return Agg(qual, [self.operand(fr, fields[n]) for n in order])
        return Agg(qual, [self.operand(fr, o) for o in fields])

    def cast(self, fr, op, ty, kind):
        v = self.operand(fr, op)
        ty = substitute_text(ty, fr.substs)
        if kind.startswith('PointerCoercion') or kind in ('PtrToPtr', 'Transmute', 'Subtype'):
            if kind.startswith('PointerCoercion(Unsize'):
                # &[T; N] -> &[T];  &T -> &dyn Trait (keep)
                if isinstance(v, Ref):
                    t = v.get()
                    if isinstance(t, Agg) and t.ty == 'array' and re.match(r'^&(mut )?\[', strip_lifetimes(ty)):
                        return SliceRef(t.f, 0, len(t.f))
                if isinstance(v, RBox) and isinstance(v.cell[0], Agg) and v.cell[0].ty == 'array' and 'Box<[' in ty:
                    return RBox(RVec(v.cell[0].f))      # Box<[T]> modelled as boxed vec
                if isinstance(v, RBox) and 'dyn ' in ty and v.cell[0] is UNINIT:
                    st = self.op_ty(fr, op)
                    if st:
                        t_ = parse_ty(substitute_text(st, fr.substs))
                        if t_[0] == 'path' and t_[3]: v.cell[0] = self.zst_value(show_ty(t_[3][0]), fr.substs)
                if isinstance(v, Ref) and not isinstance(v, DynRef) and 'dyn ' in ty:
                    st = self.op_ty(fr, op)
                    if st:
                        st = strip_lifetimes(substitute_text(st, fr.substs)).strip()
                        st = re.sub(r'^&(mut )?', '', st).strip()
                        return DynRef(v.c, v.k, st)
            return v
        src_ty = self.op_ty(fr, op)
        if kind == 'IntToInt':
            info = self.int_info(ty); sinfo = self.int_info(src_ty or 'usize')
            if is_sym(v):
                if z3.is_bool(v): v = z3.If(v, z3.BitVecVal(1, info[0]), z3.BitVecVal(0, info[0])); return v
                w = v.size()
                if info[0] == w: return v
                if info[0] < w: return z3.Extract(info[0] - 1, 0, v)
                return z3.SignExt(info[0] - w, v) if (sinfo and sinfo[1]) else z3.ZeroExt(info[0] - w, v)
            if isinstance(v, bool): v = int(v)
            return wrap_int(v, info)
        if kind == 'IntToFloat':
            if is_sym(v): raise Unsupported('symbolic int->float')
            return float(v)
        if kind == 'FloatToFloat': return v
        if kind == 'FloatToInt':
            if is_sym(v): raise Unsupported('symbolic float->int')
            info = self.int_info(ty)
            if v != v: return 0
            lo = -(1 << (info[0] - 1)) if info[1] else 0; hi = (1 << (info[0] - (1 if info[1] else 0))) - 1
            return max(lo, min(hi, int(v))) if not math.isinf(v) else (hi if v > 0 else lo)
        raise Unsupported('cast kind ' + kind)

    def binop(self, fr, op, a_op, b_op, dest_ty):
        a = self.operand(fr, a_op); b = self.operand(fr, b_op)
        ty = self.op_ty(fr, a_op) or self.op_ty(fr, b_op)
        return do_binop(op, a, b, ty, self)

    def str_byte_len(self, s):
        tot = 0
        for c in s.ch:
            if isinstance(c, int): tot += utf8_len(c)
            else: tot = tot + z3.If(z3.ULT(c, 0x80), z3.BitVecVal(1, 64), z3.If(z3.ULT(c, 0x800), z3.BitVecVal(2, 64), z3.If(z3.ULT(c, 0x10000), z3.BitVecVal(3, 64), z3.BitVecVal(4, 64))))
        return tot

    # ---------------------------------------------------------------- execution
    def run_fn(self, f, args, substs):
        if f.error: raise Unsupported('MIR syntax in %s: %s' % (f.name[-60:], f.error))
        self.depth += 1
        if self.depth > self.max_depth: raise StepLimit('call depth > %d' % self.max_depth)
        if self.call_trace is not None: self.call_trace.append(f.name)
        self.fn_seen.add(f.key)
        fr = Frame(); fr.fn = f; fr.substs = substs
        loc = [UNINIT] * f.nlocals
        for (idx, _), v in zip(f.params, args): loc[idx] = v
        fr.locals = loc
        bb = 0
        blocks = f.blocks
        try:
            while True:
                self.steps += 1
                if self.steps > self.step_limit: raise StepLimit('step limit %d' % self.step_limit)
                blk = blocks[bb]
                for st in blk.stmts:
                    if st[0] == 'assign':
                        place = st[1]
                        v = self.rvalue(fr, st[2], place.ty)
                        if place.projs:
                            c, k = self.lval(fr, place); c[k] = v
                        else:
                            loc[place.local] = v
                    elif st[0] == 'setdiscr':
                        raise Unsupported('SetDiscriminant')
                t = blk.term
                k = t[0]
                if k == 'goto': bb = t[1]
                elif k == 'return':
                    return loc[0] if loc[0] is not UNINIT else UNIT
                elif k == 'switch':
                    bb = self.do_switch(fr, t)
                elif k == 'call':
                    bb = self.do_call(fr, t)
                    if bb is None:
                        raise Unsupported('diverging call returned in ' + f.name[-60:])
                elif k == 'drop': bb = t[2]
                elif k == 'assert':
                    c = self.operand(fr, t[1])
                    if t[2]:
                        c = (not c) if isinstance(c, bool) else z3.Not(c)
                    if not self.ctx.branch(c):
                        raise RustPanic(t[3], f.name)
                    bb = t[4]
                elif k == 'unreachable':
                    raise Unsupported('reached `unreachable` in ' + f.name[-80:])
                elif k == 'error':
                    raise Unsupported('unparsed MIR: ' + t[1])
                else:
                    raise Unsupported('terminator ' + k)
        except RustPanic as rp:
            if not rp.where: rp.where = f.name
            raise
        finally:
            self.depth -= 1

    def do_switch(self, fr, t):
        v = self.operand(fr, t[1])
        targets, other = t[2], t[3]
        if isinstance(v, bool): v = int(v)
        if isinstance(v, int):
            info = self.int_info(self.op_ty(fr, t[1]) or '')
            for val, b in targets:
                if val == v or (info and info[1] and wrap_int(val, info) == v): return b
            return other
        if is_sym(v):
            if z3.is_bool(v):
                # targets are 0 / otherwise (or 0 and 1)
                tv = self.ctx.branch(v)
                want = 1 if tv else 0
                for val, b in targets:
                    if val == want: return b
                return other
            for val, b in targets:
                if self.ctx.branch(v == z3.BitVecVal(val, v.size())): return b
            return other
        raise Unsupported('switch on %r' % (v,))

    def do_call(self, fr, t):
        callee, arg_ops, dest, ret = t[1], t[2], t[3], t[4]
        args = [self.operand(fr, o) for o in arg_ops]
        if callee[0] == 'indirect':
            fv = self.read(fr, callee[1])
            if isinstance(fv, Ref): fv = fv.get()
            res = self.call_value(fv, args)
        else:
            text = substitute_text(callee[1], fr.substs)
            arg_tys = [self.op_ty(fr, o) for o in arg_ops]
            dest_ty = None
            if dest is not None:
                dest_ty = dest.ty if dest.ty else (fr.fn.locals.get(dest.local) if not dest.projs else None)
                if dest_ty: dest_ty = substitute_text(dest_ty, fr.substs)
            res = self.call_named(text, args, arg_tys, dest_ty)
        if ret is None:
            raise Unsupported('call to diverging fn returned: ' + str(callee)[:100])
        if dest is not None:
            if dest.projs:
                c, k = self.lval(fr, dest); c[k] = res
            else:
                fr.locals[dest.local] = res
        return ret

    # ---- calling things
    def call_value(self, fv, args):
        """call a fn pointer / fn item / closure value with already-evaluated args (not tupled)"""
        while isinstance(fv, (Ref, RBox)): fv = fv.get() if isinstance(fv, Ref) else fv.cell[0]
        if isinstance(fv, FnRef):
            return self.call_named(fv.name, args, [None] * len(args), None)
        if isinstance(fv, Agg) and fv.ty.startswith('{closure@'):
            return self.call_closure(fv, args)
        if callable(fv):
            return fv(*args)
        raise Unsupported('call of %r' % (fv,))

    def call_closure(self, clo, args):
        f = self.prog.closures.get(Program.closure_key(clo.ty[:clo.ty.index('}') + 1] if '}' in clo.ty else clo.ty))
        if f is None: raise Unsupported('closure body not found: ' + clo.ty)
        p0 = f.params[0][1]
        first = Ref([clo], 0) if p0.startswith('&') else clo
        return self.run_fn(f, [first] + list(args), clo.substs or {})

    def call_named(self, text, args, arg_tys, dest_ty):
        from resolve import resolve_call
        target = resolve_call(self, text, args, arg_tys, dest_ty)
        kind = target[0]
        if kind == 'mir':
            f, substs = target[1], target[2]
            # `impl PartialEq<&B> for &A` & friends: std forwards through one reference level to the local impl
            if text.startswith('<&'):
                args = list(args)
                for i_, (pidx, pty) in enumerate(f.params[:len(args)]):
                    want = 0; t_ = pty.strip()
                    while t_.startswith('&'):
                        want += 1; t_ = t_[1:].lstrip()
                        if t_.startswith('mut '): t_ = t_[4:]
                        t_ = re.sub(r"^'[a-z_]+ ", '', t_)
                    v_ = args[i_]; have = 0; w_ = v_
                    while isinstance(w_, Ref):
                        have += 1; w_ = w_.get()
                    while have > want and isinstance(v_, Ref) and isinstance(v_.get(), Ref):
                        v_ = v_.get(); have -= 1
                    args[i_] = v_
            return self.run_fn(f, args, substs)
        if kind == 'model':
            try:
                return target[1](self, args, target[2])
            except z3.Z3Exception as ze:
                if 'cast to concrete Boolean' not in str(ze): raise
                from models_fmt import concretize_int
                args2 = [concretize_int(self, x) if (is_sym(x) and ((z3.is_bv(x) and x.size() != 32) or z3.is_bool(x))) else x for x in args]
                if all(x is y for x, y in zip(args, args2)): raise Unsupported('model %s needs a concrete value: %s' % (text[:80], str(ze)[:80]))
                if len(args2) and z3.is_bool(args[0]) if is_sym(args[0]) else False: args2[0] = bool(args2[0])
                return target[1](self, args2, target[2])
        raise Unsupported('cannot resolve call: ' + text[:200])

def base_name_of(ty):
    t = parse_ty(ty)
    while t[0] == 'ref': t = t[2]
    return t[1] if t[0] == 'path' else show_ty(t)

def std_assoc_const(path):
    """`core::num::<impl usize>::MAX`, `core::f64::<impl f64>::NAN`, `std::f64::consts::PI`, `char::MAX` ..."""
    m = re.search(r'(?:<impl (\w+)>|\b(\w+))::(\w+)$', path)
    if not m: return None
    ty = m.group(1) or m.group(2); name = m.group(3)
    if ty in INT_TYS:
        bits, signed = INT_TYS[ty]
        return {'MAX': (1 << (bits - (1 if signed else 0))) - 1, 'MIN': -(1 << (bits - 1)) if signed else 0, 'BITS': bits}.get(name)
    if ty in ('f64', 'f32'):
        import sys as _s
        f32 = ty == 'f32'
        tab = {'NAN': float('nan'), 'INFINITY': float('inf'), 'NEG_INFINITY': float('-inf'), 'MAX': 3.4028234663852886e38 if f32 else _s.float_info.max,
               'MIN': -3.4028234663852886e38 if f32 else -_s.float_info.max, 'MIN_POSITIVE': 1.1754943508222875e-38 if f32 else _s.float_info.min,
               'EPSILON': 1.1920928955078125e-07 if f32 else _s.float_info.epsilon}
        return tab.get(name)
    if ty == 'char': return {'MAX': 0x10FFFF, 'REPLACEMENT_CHARACTER': 0xFFFD, 'MIN': 0}.get(name)
    if ty == 'consts' and 'f64' in path or ty == 'consts' and 'f32' in path:
        return {'PI': math.pi, 'E': math.e, 'TAU': math.tau, 'SQRT_2': math.sqrt(2), 'LN_2': math.log(2), 'LN_10': math.log(10), 'FRAC_PI_2': math.pi / 2}.get(name)
    return None

# ------------------------------------------------------------------------------- arithmetic

def utf8_len(c):
    return 1 if c < 0x80 else 2 if c < 0x800 else 3 if c < 0x10000 else 4

def wrap_int(v, info):
    bits, signed = info
    v &= (1 << bits) - 1
    if signed and v >> (bits - 1): v -= (1 << bits)
    return v

def to_bv(x, bits):
    if is_sym(x): return x
    if isinstance(x, bool): x = int(x)
    return z3.BitVecVal(x, bits)

def to_fp(x):
    if is_sym(x): return x
    return z3.FPVal(x, z3.Float64())

def real_of(x):
    if isinstance(x, SymReal): return x.r
    from fractions import Fraction
    if x != x or x in (float('inf'), float('-inf')): raise Unsupported('nan/inf vs symbolic real')
    fr = Fraction(x)
    return z3.RealVal(fr.numerator) / z3.RealVal(fr.denominator)

def do_binop(op, a, b, ty, interp=None):
    if isinstance(a, SymReal) or isinstance(b, SymReal):
        ra, rb = real_of(a), real_of(b)
        if op in ('Eq', 'Ne', 'Lt', 'Le', 'Gt', 'Ge'):
            return {'Eq': ra == rb, 'Ne': ra != rb, 'Lt': ra < rb, 'Le': ra <= rb, 'Gt': ra > rb, 'Ge': ra >= rb}[op]
        raise Unsupported('arithmetic on symbolic decimal literal')
    sym = is_sym(a) or is_sym(b)
    isfloat = isinstance(a, float) or isinstance(b, float) or (is_sym(a) and z3.is_fp(a)) or (is_sym(b) and z3.is_fp(b)) or ty in ('f64', 'f32')
    if isfloat:
        if not sym:
            if op == 'Add': return a + b
            if op == 'Sub': return a - b
            if op == 'Mul': return a * b
            if op == 'Div':
                try: return a / b
                except ZeroDivisionError:
                    return float('nan') if (a == 0 or a != a) else math.copysign(float('inf'), a) * math.copysign(1.0, b)
            if op == 'Rem': return math.fmod(a, b)
            return {'Eq': a == b, 'Ne': a != b, 'Lt': a < b, 'Le': a <= b, 'Gt': a > b, 'Ge': a >= b}[op]
        fa, fb = to_fp(a), to_fp(b)
        rm = z3.RNE()
        if op == 'Add': return z3.fpAdd(rm, fa, fb)
        if op == 'Sub': return z3.fpSub(rm, fa, fb)
        if op == 'Mul': return z3.fpMul(rm, fa, fb)
        if op == 'Div': return z3.fpDiv(rm, fa, fb)
        return {'Eq': z3.fpEQ, 'Ne': lambda x, y: z3.Not(z3.fpEQ(x, y)), 'Lt': z3.fpLT, 'Le': z3.fpLEQ, 'Gt': z3.fpGT, 'Ge': z3.fpGEQ}[op](fa, fb)
    if isinstance(a, bool) and isinstance(b, bool) or (ty == 'bool'):
        if not sym:
            a, b = bool(a), bool(b)
            return {'Eq': a == b, 'Ne': a != b, 'BitAnd': a and b, 'BitOr': a or b, 'BitXor': a != b,
                    'Lt': a < b, 'Le': a <= b, 'Gt': a > b, 'Ge': a >= b}[op]
        za = a if is_sym(a) else z3.BoolVal(a); zb = b if is_sym(b) else z3.BoolVal(b)
        return {'Eq': za == zb, 'Ne': za != zb, 'BitAnd': z3.And(za, zb), 'BitOr': z3.Or(za, zb), 'BitXor': z3.Xor(za, zb)}[op]
    if isinstance(a, Enum) or isinstance(b, Enum):
        raise Unsupported('binop on enums')
    info = INT_TYS.get(ty) or ((32, False) if ty == 'char' else None)
    if info is None:
        if sym:
            sz = (a if is_sym(a) else b).size(); info = (sz, False)
        else:
            info = (64, False)
    bits, signed = info
    if not sym:
        if isinstance(a, (Ref, SliceRef)) or isinstance(b, (Ref, SliceRef)):
            raise Unsupported('pointer arithmetic/comparison')
        if op in ('Eq', 'Ne', 'Lt', 'Le', 'Gt', 'Ge'):
            return {'Eq': a == b, 'Ne': a != b, 'Lt': a < b, 'Le': a <= b, 'Gt': a > b, 'Ge': a >= b}[op]
        if op == 'Cmp':
            return Enum('Ordering', 'Less' if a < b else 'Equal' if a == b else 'Greater', 0, [])
        if op in ('Add', 'AddUnchecked'): return wrap_int(a + b, info)
        if op in ('Sub', 'SubUnchecked'): return wrap_int(a - b, info)
        if op in ('Mul', 'MulUnchecked'): return wrap_int(a * b, info)
        if op == 'AddWithOverflow':
            r = a + b; w = wrap_int(r, info); return Agg('tuple', [w, w != r])
        if op == 'SubWithOverflow':
            r = a - b; w = wrap_int(r, info); return Agg('tuple', [w, w != r])
        if op == 'MulWithOverflow':
            r = a * b; w = wrap_int(r, info); return Agg('tuple', [w, w != r])
        if op == 'Div':
            if b == 0: raise RustPanic('attempt to divide by zero')
            q = abs(a) // abs(b); return wrap_int(q if (a < 0) == (b < 0) else -q, info)
        if op == 'Rem':
            if b == 0: raise RustPanic('attempt to calculate the remainder with a divisor of zero')
            r = abs(a) % abs(b); return wrap_int(r if a >= 0 else -r, info)
        if op == 'BitAnd': return wrap_int(a & b, info)
        if op == 'BitOr': return wrap_int(a | b, info)
        if op == 'BitXor': return wrap_int(a ^ b, info)
        if op in ('Shl', 'ShlUnchecked'): return wrap_int(a << (b % bits), info)
        if op in ('Shr', 'ShrUnchecked'): return wrap_int(a >> (b % bits), info)
        raise Unsupported('binop ' + op)
    za, zb = to_bv(a, bits), to_bv(b, bits)
    if za.size() != zb.size():
        w = max(za.size(), zb.size())
        za = z3.ZeroExt(w - za.size(), za) if za.size() < w else za
        zb = z3.ZeroExt(w - zb.size(), zb) if zb.size() < w else zb
    if op == 'Eq': return za == zb
    if op == 'Ne': return za != zb
    if op == 'Lt': return (za < zb) if signed else z3.ULT(za, zb)
    if op == 'Le': return (za <= zb) if signed else z3.ULE(za, zb)
    if op == 'Gt': return (za > zb) if signed else z3.UGT(za, zb)
    if op == 'Ge': return (za >= zb) if signed else z3.UGE(za, zb)
    if op in ('Add', 'AddUnchecked'): return za + zb
    if op in ('Sub', 'SubUnchecked'): return za - zb
    if op in ('Mul', 'MulUnchecked'): return za * zb
    if op == 'AddWithOverflow':
        return Agg('tuple', [za + zb, z3.Not(z3.And(z3.BVAddNoOverflow(za, zb, signed), z3.BVAddNoUnderflow(za, zb) if signed else True))])
    if op == 'SubWithOverflow':
        return Agg('tuple', [za - zb, z3.Not(z3.And(z3.BVSubNoUnderflow(za, zb, signed), z3.BVSubNoOverflow(za, zb) if signed else True))])
    if op == 'MulWithOverflow':
        return Agg('tuple', [za * zb, z3.Not(z3.And(z3.BVMulNoOverflow(za, zb, signed), z3.BVMulNoUnderflow(za, zb) if signed else True))])
    if op == 'BitAnd': return za & zb
    if op == 'BitOr': return za | zb
    if op == 'BitXor': return za ^ zb
    if op == 'Div': return (za / zb) if signed else z3.UDiv(za, zb)
    if op == 'Rem': return z3.SRem(za, zb) if signed else z3.URem(za, zb)
    if op in ('Shl', 'ShlUnchecked'): return za << zb
    if op in ('Shr', 'ShrUnchecked'): return (za >> zb) if signed else z3.LShR(za, zb)
    raise Unsupported('symbolic binop ' + op)
