import sys, traceback
from engine import *
e = Engine(); e.load(); print('loaded', len(e.prog.fns), 'build_s', e.build_s)
it = e.new_interp()
fmt = enum_format(it, 'ASCII')
print(py(fmt)[:3])
for s in sys.argv[1:] or ['<A --> B>.']:
    it = e.new_interp()
    try:
        r = parse_enum(it, fmt, [ord(c) for c in s])
        print(repr(s), '=>', py(r), 'steps', it.steps)
    except Exception as ex:
        traceback.print_exc(limit=-6); print('FAILED', type(ex).__name__, str(ex)[:400])
