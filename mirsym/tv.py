"""Translation validation of the interpreter against the native oracle on concrete inputs."""
import re, os, sys, json, time, glob
from engine import *
from oracle import Oracle, hexs
from nspec import *

def corpus_from_repo(repo):
    out = []
    for p in glob.glob(os.path.join(repo, 'src', '**', '*.rs'), recursive=True) + glob.glob(os.path.join(repo, 'README*.md')):
        src = open(p, encoding='utf-8').read()
        for m in re.finditer(r'r#"(.*?)"#|r"([^"]*)"|"((?:[^"\\]|\\.)*)"', src, re.S):
            s = m.group(1) if m.group(1) is not None else m.group(2) if m.group(2) is not None else None
            if s is None:
                try: s = bytes(m.group(3), 'utf-8').decode('unicode_escape').encode('latin-1', 'ignore').decode('utf-8', 'ignore') if '\\' in m.group(3) else m.group(3)
                except Exception: continue
            if 0 < len(s) <= 200 and '\n' not in s: out.append(s)
    seen = set(); res = []
    for s in out:
        if s not in seen: seen.add(s); res.append(s)
    return res

def run(limit=None):
    e = Engine(); e.load(); o = Oracle(); o.build()
    corp = corpus_from_repo(os.path.join(e.work, 'repo'))
    if limit: corp = corp[:limit]
    it0 = e.new_interp()
    fmts = {n: enum_format(it0, n.upper()) for n in ('ascii', 'latex', 'han')}
    bad = 0; n = 0; unsupported = {}
    t = time.time()
    for s in corp:
        for fn, fmt in fmts.items():
            st, want = o.ask('parse', fn, hexs(s))
            it = e.new_interp()
            try:
                r = parse_enum(it, fmt, [ord(c) for c in s])
                got = ('ok', canon_result(r, canon_narsese))
            except RustPanic as p:
                got = ('panic', None)
            except (Unsupported, Unresolved) as u:
                unsupported[str(u)[:100]] = unsupported.get(str(u)[:100], 0) + 1; continue
            n += 1
            exp = (st, strip_err(want) if st == 'ok' else None)
            if got != exp:
                bad += 1
                if bad <= 15: print('MISMATCH', fn, repr(s), '\n   interp:', got, '\n   native:', exp)
    print('compared', n, 'mismatches', bad, 'unsupported', sum(unsupported.values()), 'in', round(time.time() - t, 1), 's')
    for k, v in sorted(unsupported.items(), key=lambda x: -x[1])[:20]: print('  UNSUPPORTED x%d: %s' % (v, k))
    o.close()
if __name__ == '__main__':
    run(int(sys.argv[1]) if len(sys.argv) > 1 else None)
