"""Iterator models (lazy, like the real adaptors) and consumers."""
import z3
from values import *
from interp import RustPanic, Unsupported, do_binop
from models import (model, some, none, ok, err, deref, deref1, as_chars, as_items, truth, call_closure_like,
                    values_equal, set_insert, ordering)
from tyunify import parse_ty

class PyIter:
    """base of modelled iterators; subclasses implement nxt(interp) -> value or STOP"""
    def nxt(self, it): raise NotImplementedError
    def back(self, it): raise Unsupported('next_back on ' + type(self).__name__)
STOP = object()

class ListIter(PyIter):
    def __init__(self, items): self.items = list(items); self.i = 0; self.j = len(self.items)
    def nxt(self, it):
        if self.i >= self.j: return STOP
        v = self.items[self.i]; self.i += 1; return v
    def back(self, it):
        if self.i >= self.j: return STOP
        self.j -= 1; return self.items[self.j]
    def __repr__(self): return 'iter%r' % (self.items[self.i:self.j],)

class RefIter(PyIter):
    """slice::Iter / IterMut: yields references into a live container"""
    def __init__(self, c, lo, hi): self.c = c; self.i = lo; self.j = hi
    def nxt(self, it):
        if self.i >= self.j: return STOP
        r = Ref(self.c, self.i); self.i += 1; return r
    def back(self, it):
        if self.i >= self.j: return STOP
        self.j -= 1; return Ref(self.c, self.j)

class RangeIter(PyIter):
    def __init__(self, lo, hi): self.i = lo; self.j = hi
    def nxt(self, it):
        if self.i >= self.j: return STOP
        v = self.i; self.i += 1; return v
    def back(self, it):
        if self.i >= self.j: return STOP
        self.j -= 1; return self.j

class MapIter(PyIter):
    def __init__(self, src, f): self.src = src; self.f = f
    def nxt(self, it):
        v = iter_next(it, self.src)
        return STOP if v is STOP else call_closure_like(it, self.f, [v])
    def back(self, it):
        v = iter_back(it, self.src)
        return STOP if v is STOP else call_closure_like(it, self.f, [v])

class FilterIter(PyIter):
    def __init__(self, src, f): self.src = src; self.f = f
    def nxt(self, it):
        while True:
            v = iter_next(it, self.src)
            if v is STOP: return STOP
            if truth(it, call_closure_like(it, self.f, [Ref([v], 0)])): return v

class FilterMapIter(PyIter):
    def __init__(self, src, f): self.src = src; self.f = f
    def nxt(self, it):
        while True:
            v = iter_next(it, self.src)
            if v is STOP: return STOP
            r = call_closure_like(it, self.f, [v])
            if r.variant == 'Some': return r.f[0]

class EnumIter(PyIter):
    def __init__(self, src): self.src = src; self.n = 0
    def nxt(self, it):
        v = iter_next(it, self.src)
        if v is STOP: return STOP
        r = Agg('tuple', [self.n, v]); self.n += 1; return r

class CopiedIter(PyIter):
    def __init__(self, src): self.src = src
    def nxt(self, it):
        v = iter_next(it, self.src)
        return STOP if v is STOP else deep_copy(deref1(v))
    def back(self, it):
        v = iter_back(it, self.src)
        return STOP if v is STOP else deep_copy(deref1(v))

class RevIter(PyIter):
    def __init__(self, src): self.src = src
    def nxt(self, it): return iter_back(it, self.src)
    def back(self, it): return iter_next(it, self.src)

class InspectIter(PyIter):
    def __init__(self, src, f): self.src = src; self.f = f
    def nxt(self, it):
        v = iter_next(it, self.src)
        if v is not STOP: call_closure_like(it, self.f, [Ref([v], 0)])
        return v

class ZipIter(PyIter):
    def __init__(self, a, b): self.a = a; self.b = b
    def nxt(self, it):
        x = iter_next(it, self.a)
        if x is STOP: return STOP
        y = iter_next(it, self.b)
        if y is STOP: return STOP
        return Agg('tuple', [x, y])

class ChainIter(PyIter):
    def __init__(self, a, b): self.a = a; self.b = b
    def nxt(self, it):
        if self.a is not None:
            x = iter_next(it, self.a)
            if x is not STOP: return x
            self.a = None
        return iter_next(it, self.b)

class TakeIter(PyIter):
    def __init__(self, src, n): self.src = src; self.n = n
    def nxt(self, it):
        if self.n <= 0: return STOP
        self.n -= 1; return iter_next(it, self.src)

class SkipIter(PyIter):
    def __init__(self, src, n): self.src = src; self.n = n
    def nxt(self, it):
        while self.n > 0:
            self.n -= 1
            if iter_next(it, self.src) is STOP: return STOP
        return iter_next(it, self.src)

class TakeWhileIter(PyIter):
    def __init__(self, src, f): self.src = src; self.f = f; self.done = False
    def nxt(self, it):
        if self.done: return STOP
        v = iter_next(it, self.src)
        if v is STOP: return STOP
        if truth(it, call_closure_like(it, self.f, [Ref([v], 0)])): return v
        self.done = True; return STOP

class SkipWhileIter(PyIter):
    def __init__(self, src, f): self.src = src; self.f = f; self.flag = False
    def nxt(self, it):
        while True:
            v = iter_next(it, self.src)
            if v is STOP: return STOP
            if self.flag or not truth(it, call_closure_like(it, self.f, [Ref([v], 0)])):
                self.flag = True; return v

class PeekIter(PyIter):
    def __init__(self, src): self.src = src; self.buf = None
    def nxt(self, it):
        if self.buf is not None:
            v = self.buf[0]; self.buf = None; return v
        return iter_next(it, self.src)
    def peek(self, it):
        if self.buf is None: self.buf = [iter_next(it, self.src)]
        return self.buf[0]

class FromFnIter(PyIter):
    def __init__(self, f): self.f = f
    def nxt(self, it):
        r = call_closure_like(it, self.f, [])
        return r.f[0] if r.variant == 'Some' else STOP

class OnceIter(PyIter):
    def __init__(self, v): self.v = [v]
    def nxt(self, it): return self.v.pop() if self.v else STOP

def iter_next(it, src):
    """advance any iterator value (model object, or a crate type with its own `Iterator::next`)"""
    if isinstance(src, Ref): src_v = src.get()
    else: src_v = src
    if isinstance(src_v, PyIter): return src_v.nxt(it)
    if isinstance(src_v, (Agg, Enum)):
        cell = src if isinstance(src, Ref) else Ref([src_v], 0)
        r = it.call_named('<%s as Iterator>::next' % src_v.ty, [cell], [None], None)
        return r.f[0] if r.variant == 'Some' else STOP
    raise Unsupported('iter_next on %r' % (src_v,))

def iter_back(it, src):
    src_v = src.get() if isinstance(src, Ref) else src
    if isinstance(src_v, PyIter): return src_v.back(it)
    raise Unsupported('next_back on %r' % (src_v,))

def to_iter(it, v):
    """IntoIterator::into_iter"""
    if isinstance(v, PyIter): return v
    if isinstance(v, RVec): return ListIter(v.items)
    if isinstance(v, RSet): return ListIter(v.items)
    if isinstance(v, RString): raise Unsupported('String into_iter')
    if isinstance(v, SliceRef): return RefIter(v.c, v.lo, v.hi)
    if isinstance(v, Ref):
        t = v.get()
        if isinstance(t, RVec): return RefIter(t.items, 0, len(t.items))
        if isinstance(t, RSet): return RefIter(t.items, 0, len(t.items))
        if isinstance(t, Agg) and t.ty == 'array': return RefIter(t.f, 0, len(t.f))
        if isinstance(t, Enum) and t.ty == 'Option':
            return ListIter([Ref(t.f, 0)] if t.variant == 'Some' else [])
        if isinstance(t, (PyIter,)): return v      # &mut I is an iterator
        if isinstance(t, (Agg, Enum)): return v
    if isinstance(v, Agg):
        if v.ty == 'array': return ListIter(v.f)
        if v.ty.endswith('Range'): return RangeIter(v.f[0], v.f[1])
        if v.ty.endswith('RangeInclusive'): return RangeIter(v.f[0], v.f[1] + 1)
        return v                                    # a crate iterator type (blanket IntoIterator)
    if isinstance(v, Enum) and v.ty == 'Option':
        return ListIter(v.f[:1] if v.variant == 'Some' else [])
    if isinstance(v, RBox) and isinstance(v.cell[0], RVec): return ListIter(v.cell[0].items)
    raise Unsupported('into_iter of %r' % (v,))

def drain(it, src):
    while True:
        v = iter_next(it, src)
        if v is STOP: return
        yield v

@model('IntoIterator::into_iter')
def _(it, a, info): return to_iter(it, a[0])

@model('Iterator::next')
def _(it, a, info):
    v = iter_next(it, a[0])
    return none() if v is STOP else some(v)

@model('DoubleEndedIterator::next_back')
def _(it, a, info):
    v = iter_back(it, a[0])
    return none() if v is STOP else some(v)

@model('slice::iter', 'Vec::iter', 'HashSet::iter', 'slice::iter_mut', 'Vec::iter_mut', 'VecDeque::iter')
def _(it, a, info):
    v = a[0]
    if isinstance(v, SliceRef): return RefIter(v.c, v.lo, v.hi)
    t = deref(v)
    if isinstance(t, (RVec, RSet)): return RefIter(t.items, 0, len(t.items))
    if isinstance(t, Agg): return RefIter(t.f, 0, len(t.f))
    raise Unsupported('iter of %r' % (t,))

@model('Vec::into_iter', 'HashSet::into_iter')
def _(it, a, info): return to_iter(it, a[0])

@model('Vec::drain')
def _(it, a, info):
    v = deref(a[0]); rng = a[1]
    items = list(v.items); v.items[:] = []
    return ListIter(items)

@model('Iterator::map')
def _(it, a, info): return MapIter(a[0], a[1])
@model('Iterator::filter')
def _(it, a, info): return FilterIter(a[0], a[1])
@model('Iterator::filter_map')
def _(it, a, info): return FilterMapIter(a[0], a[1])
@model('Iterator::enumerate')
def _(it, a, info): return EnumIter(a[0])
@model('Iterator::copied', 'Iterator::cloned')
def _(it, a, info): return CopiedIter(a[0])
@model('Iterator::rev')
def _(it, a, info): return RevIter(a[0])
@model('Iterator::inspect')
def _(it, a, info): return InspectIter(a[0], a[1])
@model('Iterator::zip')
def _(it, a, info): return ZipIter(a[0], to_iter(it, a[1]))
@model('Iterator::chain')
def _(it, a, info): return ChainIter(a[0], to_iter(it, a[1]))
@model('Iterator::take')
def _(it, a, info): return TakeIter(a[0], a[1])
@model('Iterator::skip')
def _(it, a, info): return SkipIter(a[0], a[1])
@model('Iterator::take_while')
def _(it, a, info): return TakeWhileIter(a[0], a[1])
@model('Iterator::skip_while')
def _(it, a, info): return SkipWhileIter(a[0], a[1])
@model('Iterator::peekable')
def _(it, a, info): return PeekIter(a[0])
@model('Iterator::by_ref')
def _(it, a, info): return a[0]
@model('Peekable::peek')
def _(it, a, info):
    p = deref(a[0]); v = p.peek(it)
    return none() if v is STOP else some(Ref(p.buf, 0))
@model('from_fn')
def _(it, a, info): return FromFnIter(a[0])
@model('once')
def _(it, a, info): return OnceIter(a[0])
@model('empty')
def _(it, a, info): return ListIter([])

@model('Iterator::count')
def _(it, a, info): return sum(1 for _ in drain(it, a[0]))

@model('Iterator::last')
def _(it, a, info):
    last = STOP
    for v in drain(it, a[0]): last = v
    return none() if last is STOP else some(last)

@model('Iterator::nth')
def _(it, a, info):
    n = a[1]
    for i, v in enumerate(drain(it, a[0])):
        if i == n: return some(v)
    return none()

@model('Iterator::any')
def _(it, a, info):
    for v in drain(it, a[0]):
        if truth(it, call_closure_like(it, a[1], [v])): return True
    return False

@model('Iterator::all')
def _(it, a, info):
    for v in drain(it, a[0]):
        if not truth(it, call_closure_like(it, a[1], [v])): return False
    return True

@model('Iterator::position')
def _(it, a, info):
    for i, v in enumerate(drain(it, a[0])):
        if truth(it, call_closure_like(it, a[1], [v])): return some(i)
    return none()

@model('Iterator::find')
def _(it, a, info):
    for v in drain(it, a[0]):
        if truth(it, call_closure_like(it, a[1], [Ref([v], 0)])): return some(v)
    return none()

@model('Iterator::find_map')
def _(it, a, info):
    for v in drain(it, a[0]):
        r = call_closure_like(it, a[1], [v])
        if r.variant == 'Some': return r
    return none()

@model('Iterator::for_each')
def _(it, a, info):
    for v in drain(it, a[0]): call_closure_like(it, a[1], [v])
    return UNIT

@model('Iterator::fold')
def _(it, a, info):
    acc = a[1]
    for v in drain(it, a[0]): acc = call_closure_like(it, a[2], [acc, v])
    return acc

@model('Iterator::sum')
def _(it, a, info):
    acc = 0
    for v in drain(it, a[0]): acc = do_binop('Add', acc, deref(v), None)
    return acc

@model('Iterator::max', 'Iterator::min')
def _(it, a, info):
    best = STOP
    for v in drain(it, a[0]):
        if is_sym(v): raise Unsupported('max/min symbolic')
        if best is STOP or (v >= best if info['method'] == 'max' else v < best): best = v
    return none() if best is STOP else some(best)

def collect_into(it, src, target):
    t = parse_ty(target) if target else None
    name = t[1] if t and t[0] == 'path' else None
    if name == 'Vec' or name is None and False:
        return RVec(list(drain(it, src)))
    if name == 'String':
        out = []
        for v in drain(it, src):
            v = deref(v)
            if isinstance(v, (Str, RString)): out.extend(v.ch)
            else: out.append(v)
        return RString(out)
    if name == 'HashSet':
        s = RSet()
        for v in drain(it, src): set_insert(it, s, v)
        return s
    if name == 'Box':
        return RBox(RVec(list(drain(it, src))))
    if name == 'Result' or name == 'Option':
        inner = t[3][0]
        items = []
        for v in drain(it, src):
            if v.variant in ('Err', 'None'):
                return v if name == 'Result' else none()
            items.append(v.f[0])
        from tyunify import show
        r = collect_into(it, ListIter(items), show(inner))
        return ok(r) if name == 'Result' else some(r)
    if name == 'VecDeque': return RVec(list(drain(it, src)))
    raise Unsupported('collect into ' + str(target))

@model('Iterator::collect')
def _(it, a, info):
    return collect_into(it, a[0], info['mgen'][0] if info['mgen'] else None)

@model('FromIterator::from_iter')
def _(it, a, info):
    return collect_into(it, to_iter(it, a[0]), info['self_ty'])

@model('Extend::extend')
def _(it, a, info):
    tgt = deref(a[0]); src = to_iter(it, a[1])
    if isinstance(tgt, RVec): tgt.items.extend(drain(it, src))
    elif isinstance(tgt, RSet):
        for v in drain(it, src): set_insert(it, tgt, v)
    elif isinstance(tgt, RString):
        for v in drain(it, src):
            v = deref(v)
            if isinstance(v, (Str, RString)): tgt.ch.extend(v.ch)
            else: tgt.ch.append(v)
    else: raise Unsupported('extend of %r' % (tgt,))
    return UNIT

# ---- calling closures through the Fn* traits
@model('Fn::call', 'FnMut::call_mut', 'FnOnce::call_once')
def _(it, a, info):
    f = a[0]; tup = a[1]
    if deref(f) is UNINIT:                      # zero-sized closure / fn item: never materialised in MIR
        st = info['self_ty'].lstrip('&').replace('mut ', '').strip()
        f = it.zst_value(st, {})   # substs of the defining frame are unknown here; closures defined in generic fns carry them when materialised
    args = list(tup.f) if isinstance(tup, Agg) else ([] if tup is UNIT else [tup])
    return it.call_value(f, args)

# ------------------------------------------------------------------ more Iterator / DoubleEndedIterator methods
def drain_back(it, src):
    while True:
        v = iter_back(it, src)
        if v is STOP: return
        yield v

@model('Iterator::rposition')
def _(it, a, info):
    items = list(drain(it, a[0]))
    for i in range(len(items) - 1, -1, -1):
        if truth(it, call_closure_like(it, a[1], [items[i]])): return some(i)
    return none()

@model('DoubleEndedIterator::rfind', 'Iterator::rfind')
def _(it, a, info):
    for v in drain_back(it, a[0]):
        if truth(it, call_closure_like(it, a[1], [Ref([v], 0)])): return some(v)
    return none()

@model('DoubleEndedIterator::rfold', 'Iterator::rfold')
def _(it, a, info):
    acc = a[1]
    for v in drain_back(it, a[0]): acc = call_closure_like(it, a[2], [acc, v])
    return acc

@model('DoubleEndedIterator::nth_back')
def _(it, a, info):
    for i, v in enumerate(drain_back(it, a[0])):
        if i == a[1]: return some(v)
    return none()

class StepByIter(PyIter):
    def __init__(self, src, n): self.src = src; self.n = n; self.first = True
    def nxt(self, it):
        if self.first:
            self.first = False; return iter_next(it, self.src)
        for _ in range(self.n - 1):
            if iter_next(it, self.src) is STOP: return STOP
        return iter_next(it, self.src)

class FlatMapIter(PyIter):
    def __init__(self, src, f): self.src = src; self.f = f; self.cur = None
    def nxt(self, it):
        while True:
            if self.cur is not None:
                v = iter_next(it, self.cur)
                if v is not STOP: return v
                self.cur = None
            o = iter_next(it, self.src)
            if o is STOP: return STOP
            self.cur = to_iter(it, call_closure_like(it, self.f, [o]) if self.f is not None else o)

@model('Iterator::step_by')
def _(it, a, info): return StepByIter(a[0], a[1])
@model('Iterator::flat_map')
def _(it, a, info): return FlatMapIter(a[0], a[1])
@model('Iterator::flatten')
def _(it, a, info): return FlatMapIter(a[0], None)
@model('Iterator::map_while')
def _(it, a, info):
    src, f = a[0], a[1]
    def gen():
        for v in drain(it, src):
            r = call_closure_like(it, f, [v])
            if r.variant == 'None': return
            yield r.f[0]
    return ListIter(list(gen()))
@model('Iterator::product')
def _(it, a, info):
    acc = 1
    for v in drain(it, a[0]): acc = do_binop('Mul', acc, deref(v), None)
    return acc
@model('Iterator::unzip')
def _(it, a, info):
    xs, ys = [], []
    for v in drain(it, a[0]): xs.append(v.f[0]); ys.append(v.f[1])
    return Agg('tuple', [RVec(xs), RVec(ys)])
@model('Iterator::partition')
def _(it, a, info):
    xs, ys = [], []
    for v in drain(it, a[0]):
        (xs if truth(it, call_closure_like(it, a[1], [Ref([v], 0)])) else ys).append(v)
    return Agg('tuple', [RVec(xs), RVec(ys)])
@model('Iterator::eq')
def _(it, a, info):
    xs = list(drain(it, a[0])); ys = list(drain(it, to_iter(it, a[1])))
    if len(xs) != len(ys): return False
    for x, y in zip(xs, ys):
        if not truth(it, values_equal(it, x, y)): return False
    return True
@model('Iterator::max_by_key', 'Iterator::min_by_key')
def _(it, a, info):
    best = STOP; bk = None
    for v in drain(it, a[0]):
        k = call_closure_like(it, a[1], [Ref([v], 0)])
        if is_sym(k): raise Unsupported('max_by_key symbolic')
        if best is STOP or (k >= bk if info['method'] == 'max_by_key' else k < bk): best, bk = v, k
    return none() if best is STOP else some(best)
@model('Iterator::size_hint')
def _(it, a, info): return Agg('tuple', [0, none()])
@model('ExactSizeIterator::len')
def _(it, a, info):
    src = deref1(a[0])
    if isinstance(src, (ListIter, RefIter, RangeIter)): return src.j - src.i
    raise Unsupported('len of iterator')
@model('Iterator::try_fold', 'Iterator::try_for_each')
def _(it, a, info):
    raise Unsupported('try_fold')
