"""Tiny parser/unifier for the type strings rustc prints in MIR (used to pick the
right impl for a call and to bind generic parameters)."""
import re
from mirparse import split_top, find_matching

_cache = {}

def strip_lifetimes(s):
    s = re.sub(r"for<[^>]*>\s*", '', s)
    s = re.sub(r"'[A-Za-z_]\w*\s*,\s*", '', s)      # 'a, in generic lists
    s = re.sub(r"<'[A-Za-z_]\w*>", '', s)             # <'_>
    s = re.sub(r"'[A-Za-z_]\w*\s+", '', s)           # &'a T
    s = re.sub(r"'[A-Za-z_]\w*", '', s)
    return s

def parse_ty(s):
    s = strip_lifetimes(s.strip())
    hit = _cache.get(s)
    if hit is not None: return hit
    r = _parse(s)
    _cache[s] = r
    return r

def _parse(s):
    s = s.strip()
    if s.startswith('&mut '): return ('ref', True, _parse(s[5:]))
    if s.startswith('&'): return ('ref', False, _parse(s[1:]))
    if s.startswith('*const '): return ('ptr', False, _parse(s[7:]))
    if s.startswith('*mut '): return ('ptr', True, _parse(s[5:]))
    if s.startswith('(') and s.endswith(')') and find_matching(s, 0) == len(s) - 1:
        return ('tuple', [_parse(x) for x in split_top(s[1:-1])])
    if s.startswith('[') and s.endswith(']'):
        parts = split_top(s[1:-1], ';')
        if len(parts) == 2: return ('array', _parse(parts[0]), parts[1].strip())
        return ('slice', _parse(s[1:-1]))
    if s.startswith(('dyn ', 'impl ', 'fn(', 'unsafe ', 'extern ', '{', '<')):
        return ('opaque', s)
    # path with optional generics on the LAST segment (and possibly inner ones we ignore)
    m = re.match(r'^([A-Za-z_][\w:]*?)(?:::)?<(.*)>$', s)
    if m and find_matching(s, s.index('<')) == len(s) - 1:
        path = m.group(1); args = [_parse(x) for x in split_top(m.group(2)) if not x.startswith("'")]
        return ('path', path.split('::')[-1], path, args)
    if re.match(r'^[A-Za-z_][\w:]*$', s):
        return ('path', s.split('::')[-1], s, [])
    return ('opaque', s)

def show(t):
    k = t[0]
    if k == 'ref': return ('&mut ' if t[1] else '&') + show(t[2])
    if k == 'ptr': return ('*mut ' if t[1] else '*const ') + show(t[2])
    if k == 'tuple': return '(' + ', '.join(show(x) for x in t[1]) + (',' if len(t[1]) == 1 else '') + ')'
    if k == 'slice': return '[' + show(t[1]) + ']'
    if k == 'array': return '[' + show(t[1]) + '; ' + t[2] + ']'
    if k == 'opaque': return t[1]
    return t[2] + ('<' + ', '.join(show(x) for x in t[3]) + '>' if t[3] else '')

def unify(pat, con, variables, binding):
    """pat may mention `variables` (generic names); con is a concrete type tree. -> bool (binding updated)"""
    if pat[0] == 'path' and not pat[3] and pat[2] in variables:
        b = binding.get(pat[2])
        if b is None:
            binding[pat[2]] = con; return True
        return loosely_equal(b, con)
    if pat[0] == 'opaque' and pat[1] in variables:
        b = binding.get(pat[1])
        if b is None: binding[pat[1]] = con; return True
        return True
    if con[0] == 'opaque' or pat[0] == 'opaque':
        return True                      # cannot tell; do not reject
    if pat[0] != con[0]: return False
    k = pat[0]
    if k == 'ref' or k == 'ptr':
        return pat[1] == con[1] and unify(pat[2], con[2], variables, binding)
    if k == 'tuple':
        return len(pat[1]) == len(con[1]) and all(unify(a, b, variables, binding) for a, b in zip(pat[1], con[1]))
    if k == 'slice': return unify(pat[1], con[1], variables, binding)
    if k == 'array': return unify(pat[1], con[1], variables, binding)
    # path
    if pat[1] != con[1]: return False
    if not paths_compatible(pat[2], con[2]): return False
    if len(pat[3]) != len(con[3]):
        return True if (not pat[3] or not con[3]) else False
    return all(unify(a, b, variables, binding) for a, b in zip(pat[3], con[3]))

def paths_compatible(a, b):
    """rustc trims unique paths, so `Term` may stand for `enum_narsese::term::structs::Term`; two *qualified*
    paths must agree on their common suffix"""
    sa, sb = a.split('::'), b.split('::')
    n = min(len(sa), len(sb))
    return sa[-n:] == sb[-n:]

def loosely_equal(a, b):
    return unify(a, b, (), {})

def substitute_text(text, substs):
    """replace generic names in a MIR type/callee string by their bound type text"""
    if not substs: return text
    for name in sorted(substs, key=len, reverse=True):
        val = substs[name]
        if name.startswith('impl '):
            text = text.replace(name, val)
        else:
            text = re.sub(r'(?<![\w:])' + re.escape(name) + r'(?![\w])(?!::)', lambda m: val, text)
    return text
