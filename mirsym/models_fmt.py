"""Type-directed model of core::fmt: format specs (fill / align / sign / # / 0 / width / precision / radix), Display and
Debug of std types rendered from the *static type* rustc printed at the call site (`Argument::new_debug::<T>`,
`&T as &dyn Debug`), user types through their own `fmt` MIR bodies, and the `Formatter` helper / builder API.
Registered after models_coll (overrides its first-generation fmt models)."""
import re, math
import z3
from values import *
from interp import RustPanic, Unsupported, do_binop, INT_TYS
from models import model, MODELS, some, none, ok, err, deref, deref1, as_chars, as_items, truth
from models_str import fmt_f64, char_pred, to_display_chars
from tyunify import parse_ty, strip_lifetimes, show as show_ty
from resolve import Unresolved

SIGN_PLUS, SIGN_MINUS, ALTERNATE, ZERO_PAD, DBG_LHEX, DBG_UHEX, WIDTH_F, PREC_F = (1 << 21, 1 << 22, 1 << 23, 1 << 24, 1 << 25, 1 << 26, 1 << 27, 1 << 28)

class Spec:
    __slots__ = ('fill', 'plus', 'alt', 'zero', 'lhex', 'uhex', 'width', 'prec', 'align')
    def __init__(self, flags=None, width=None, prec=None):
        if flags is None: flags = 0x20 | (3 << 29)
        self.fill = flags & 0x1FFFFF; self.plus = bool(flags & SIGN_PLUS); self.alt = bool(flags & ALTERNATE)
        self.zero = bool(flags & ZERO_PAD); self.lhex = bool(flags & DBG_LHEX); self.uhex = bool(flags & DBG_UHEX)
        self.width = width if (flags & WIDTH_F) else None
        self.prec = prec if (flags & PREC_F) else None
        self.align = {0: 'l', 1: 'r', 2: 'c', 3: None}[(flags >> 29) & 3]
    def plain(self): return self.width is None and self.prec is None and not (self.plus or self.alt or self.zero or self.lhex or self.uhex)
DEFAULT = Spec()

class Fmtr(Opaque):
    """fmt::Formatter: data = the RString written to; spec = FormattingOptions"""
    __slots__ = ('spec',)
    def __init__(self, s, spec=None): self.kind = 'formatter'; self.data = s; self.spec = spec or DEFAULT

def spec_of(f): return getattr(f, 'spec', DEFAULT)
def out_of(f):
    f = deref(f)
    if isinstance(f, Opaque): return f.data.ch
    if isinstance(f, RString): return f.ch
    raise Unsupported('fmt output sink %r' % (f,))

def S(s): return [ord(c) for c in s]

# ------------------------------------------------------------------ template decoding
def decode_template(b):
    raw = eval('b"' + b + '"')
    out = []; i = 0
    while i < len(raw):
        n = raw[i]; i += 1
        if n == 0: break
        if n < 0x80:
            out.append(('lit', raw[i:i + n].decode('utf-8', 'replace'))); i += n
        elif n == 0x80:
            ln = raw[i] | (raw[i + 1] << 8); i += 2
            out.append(('lit', raw[i:i + ln].decode('utf-8', 'replace'))); i += ln
        elif n == 0xC0:
            out.append(('arg', None, None, None, None, False, False))
        else:
            flags = width = prec = idx = None
            if n & 1: flags = int.from_bytes(raw[i:i + 4], 'little'); i += 4
            if n & 2: width = int.from_bytes(raw[i:i + 2], 'little'); i += 2
            if n & 4: prec = int.from_bytes(raw[i:i + 2], 'little'); i += 2
            if n & 8: idx = int.from_bytes(raw[i:i + 2], 'little'); i += 2
            out.append(('arg', flags, width, prec, idx, bool(n & 16), bool(n & 32)))
    return out

@model('Arguments::new')
def _(it, a, info):
    tmpl = a[0]; args = as_items(a[1])
    if not isinstance(tmpl, Opaque): raise Unsupported('fmt template %r' % (tmpl,))
    return Opaque('fmtargs', (decode_template(tmpl.data), list(args)))

MODES = {'new_display': 'display', 'new_debug': 'debug', 'new_lower_hex': 'lhex', 'new_upper_hex': 'uhex', 'new_binary': 'bin',
         'new_octal': 'oct', 'new_lower_exp': 'lexp', 'new_upper_exp': 'uexp', 'new_pointer': 'ptr'}
def _mk_arg(it, a, info):
    ty = info['mgen'][0] if info.get('mgen') else None
    return Opaque('fmtarg', (MODES[info['method']], a[0], ty))
for _m in MODES: model('Argument::' + _m)(_mk_arg)
@model('Argument::from_usize')
def _(it, a, info): return Opaque('fmtarg', ('usize', a[0], 'usize'))

def render_args(it, fa, spec0=None):
    pieces, args = fa.data
    out = []; k = 0
    for p in pieces:
        if p[0] == 'lit':
            out.extend(p[1] if not isinstance(p[1], str) else S(p[1])); continue
        _, flags, width, prec, idx, wind, pind = p
        if idx is not None: k = idx
        if wind: width = small_int(deref(args[width].data[1]))
        if pind: prec = small_int(deref(args[prec].data[1]))
        spec = DEFAULT if flags is None else Spec(flags, width, prec)
        if k >= len(args): raise Unsupported('fmt argument index')
        out.extend(render_arg(it, args[k], spec)); k += 1
    return out

def small_int(v):
    if is_sym(v): raise Unsupported('symbolic width/precision')
    return v

def render_arg(it, arg, spec=DEFAULT):
    d = arg.data
    kind, ref = d[0], d[1]; ty = d[2] if len(d) > 2 else None
    if isinstance(ref, DynRef) and (ty is None or ty.startswith('dyn ')): ty = ref.dyn_ty
    if getattr(it, 'strict_debug', False): return fmt_value(it, ref, ty, kind, spec)
    try: return fmt_value(it, ref, ty, kind, spec)
    except Unsupported: return S('<?>')          # diagnostics only (never compared); strict mode keeps the exception

# ------------------------------------------------------------------ padding
def pad_str(chars, spec, default='l'):
    """Formatter::pad: precision truncates, width pads"""
    if spec.prec is not None: chars = chars[:spec.prec]
    return pad_to(chars, spec, default)

def pad_to(chars, spec, default):
    if spec.width is None or len(chars) >= spec.width: return chars
    n = spec.width - len(chars); al = spec.align or default
    l, r = (0, n) if al == 'l' else (n, 0) if al == 'r' else (n // 2, (n + 1) // 2)
    return [spec.fill] * l + chars + [spec.fill] * r

def pad_integral(nonneg, prefix, digits, spec):
    sign = '' if nonneg and not spec.plus else ('+' if nonneg else '-')
    pre = prefix if spec.alt else ''
    body = S(sign + pre) + S(digits)
    if spec.width is None or len(body) >= spec.width: return body
    if spec.zero:
        return S(sign + pre) + [48] * (spec.width - len(body)) + S(digits)
    return pad_to(body, spec, 'r')

def pad_number_text(txt, spec):
    """floats: sign-aware zero padding, default right alignment"""
    if spec.width is None or len(txt) >= spec.width: return S(txt)
    if spec.zero and not txt.lstrip('+-').lower().startswith(('n', 'i')):
        sign = txt[0] if txt[0] in '+-' else ''
        return S(sign) + [48] * (spec.width - len(txt)) + S(txt[len(sign):])
    return pad_to(S(txt), spec, 'r')

# ------------------------------------------------------------------ leaves
def concretize_int(it, x):
    """value of a symbolic integer on this path, decided bit by bit from the top (deterministic; forks only where both
    bit values are feasible, so the number of explored alternatives equals the number of feasible values)"""
    if it is None: raise Unsupported('to_string of symbolic number')
    if z3.is_bool(x): return 1 if truth(it, x) else 0
    n = x.size(); v = 0
    if n > 16:
        # only values with a small feasible domain are enumerated (a feasibility probe, not a fork); wide domains stay unsupported
        if it.ctx._check(z3.UGE(x, 1 << 16)): raise Unsupported('to_string of a symbolic number with a wide domain')
        n = 16
    for b in range(n - 1, -1, -1):
        if truth(it, z3.Extract(b, b, x) == 1): v |= 1 << b
    return v

def fmt_int(v, ty, mode, spec, it=None):
    if is_sym(v):
        bits, signed = INT_TYS.get(ty, (v.size() if z3.is_bv(v) else 64, False))
        u = concretize_int(it, v)
        v = u - (1 << v.size()) if (signed and z3.is_bv(v) and u >> (v.size() - 1)) else u
    if isinstance(v, bool): v = int(v)
    bits, signed = INT_TYS.get(ty, (64, True))
    if mode == 'debug':
        mode = 'lhex' if spec.lhex else 'uhex' if spec.uhex else 'display'
    if mode == 'display': return pad_integral(v >= 0, '', str(abs(v)), spec)
    u = v & ((1 << bits) - 1)
    if mode == 'lhex': return pad_integral(True, '0x', '%x' % u, spec)
    if mode == 'uhex': return pad_integral(True, '0x', '%X' % u, spec)
    if mode == 'bin': return pad_integral(True, '0b', bin(u)[2:], spec)
    if mode == 'oct': return pad_integral(True, '0o', oct(u)[2:], spec)
    if mode in ('lexp', 'uexp'):
        txt = exp_text(float(v), spec.prec, exact_int=v)
        return pad_number_text(txt.upper() if mode == 'uexp' else txt, spec)
    raise Unsupported('int format mode ' + mode)

def shortest_digits(x):
    """(digits, exp10) with x = 0.d1d2.. * 10^exp10 (shortest round-trip, like Grisu/Ryu = Python repr)"""
    r = repr(abs(x))
    if 'e' in r:
        m, e = r.split('e'); e = int(e)
    else: m, e = r, 0
    ip, _, fp = m.partition('.')
    if fp == '0': fp = ''
    digits = (ip + fp).lstrip('0') or '0'
    point = len(ip) + e if ip.strip('0') else len(ip) + e - (len(ip + fp) - len((ip + fp).lstrip('0'))) + 0
    if not ip.strip('0'):
        # 0.000ddd : leading zeros of the fraction shift the exponent
        lead = len(fp) - len(fp.lstrip('0'))
        point = -lead + e
    digits = digits.rstrip('0') or '0'
    return digits, point

def exp_text(x, prec, exact_int=None):
    if x != x: return 'NaN'
    if math.isinf(x): return 'inf' if x > 0 else '-inf'
    sign = '-' if math.copysign(1, x) < 0 else ''
    if prec is not None:
        t = format(abs(x), '.%de' % prec); m, e = t.split('e')
        return sign + m + 'e' + str(int(e))
    if x == 0: return sign + '0e0'
    d, p = shortest_digits(x)
    if exact_int is not None:
        d = str(abs(exact_int)).rstrip('0') or '0'; p = len(str(abs(exact_int)))
    return sign + d[0] + ('.' + d[1:] if len(d) > 1 else '') + 'e' + str(p - 1)

def fmt_float(v, mode, spec, f32=False):
    if isinstance(v, SymReal) or is_sym(v): raise Unsupported('formatting a symbolic float')
    if isinstance(v, int): v = float(v)
    x = v
    if mode in ('lexp', 'uexp'):
        t = exp_text(x, spec.prec)
        if spec.plus and not t.startswith('-') and x == x: t = '+' + t
        return pad_number_text(t.upper() if mode == 'uexp' else t, spec)
    if x != x: t = 'NaN'
    elif math.isinf(x): t = 'inf' if x > 0 else '-inf'
    elif spec.prec is not None:
        t = format(abs(x), '.%df' % spec.prec)
        if math.copysign(1, x) < 0: t = '-' + t
    else:
        if f32: t = fmt_f32(x)
        else: t = fmt_f64(x)
        if mode == 'debug':
            ax = abs(x)
            if ax != 0 and (ax < 1e-4 or ax >= 1e16): t = exp_text(x, None)
            elif '.' not in t: t += '.0'
    if spec.plus and not t.startswith('-') and x == x: t = '+' + t
    return pad_number_text(t, spec)

def fmt_f32(x):
    import struct
    # shortest decimal that round-trips through f32
    for p in range(1, 18):
        t = '%.*g' % (p, x)
        try:
            if struct.unpack('f', struct.pack('f', float(t)))[0] == x: return fmt_f64(float(t)) if 'e' not in t else fmt_f64(float(t))
        except OverflowError: break
    return fmt_f64(x)

def esc_char(it, c, in_str):
    """escape_debug of one char, for str (in_str) or char Debug"""
    if not isinstance(c, int):
        if not getattr(it, 'strict_debug', False): return [c]       # only feeds diagnostics there; exact where a check asks for it
        if truth(it, char_pred('debug_plain', c)): return [c]
        for k in (34, 39, 92, 10, 13, 9, 0):
            if truth(it, c == k): return esc_char(it, k, in_str)
        return S('\\u{%x}' % concretize_int(it, c))
    if c == 34: return [92, 34] if in_str else [34]
    if c == 39: return [39] if in_str else [92, 39]
    if c == 92: return [92, 92]
    if c == 10: return S('\\n')
    if c == 13: return S('\\r')
    if c == 9: return S('\\t')
    if c == 0: return S('\\0')
    if char_pred('debug_plain', c): return [c]
    return S('\\u{%x}' % c)

def debug_str(it, ch): return [34] + [x for c in ch for x in esc_char(it, c, True)] + [34]
def debug_char(it, c): return [39] + esc_char(it, c, False) + [39]

ERR_TEXT = {('ParseIntError', 'Empty'): 'cannot parse integer from empty string', ('ParseIntError', 'InvalidDigit'): 'invalid digit found in string',
            ('ParseIntError', 'PosOverflow'): 'number too large to fit in target type', ('ParseIntError', 'NegOverflow'): 'number too small to fit in target type',
            ('ParseIntError', 'Zero'): 'number would be zero for non-zero type',
            ('ParseFloatError', 'Empty'): 'cannot parse float from empty string', ('ParseFloatError', 'Invalid'): 'invalid float literal',
            ('ParseBoolError', None): 'provided string was not `true` or `false`', ('ParseCharError', 'EmptyString'): 'cannot parse char from empty string',
            ('ParseCharError', 'TooManyChars'): 'too many characters in string', ('TryFromIntError', None): 'out of range integral type conversion attempted',
            ('CharTryFromError', None): 'converted integer out of range for `char`', ('Utf8Error', None): 'invalid utf-8 sequence', ('fmt::Error', None): 'an error occurred when formatting an argument'}

def fmt_opaque(v, mode):
    k = (v.kind, v.data if isinstance(v.data, (str, type(None))) else None)
    if v.kind == 'ioerror':
        m = v.data[1]
        return list(m.ch) if isinstance(m, (Str, RString)) else S(str(m))
    if k in ERR_TEXT:
        if mode == 'display': return S(ERR_TEXT[k])
        if v.kind in ('ParseIntError', 'ParseFloatError'): return S('%s { kind: %s }' % (v.kind, v.data))
        if v.kind == 'ParseCharError': return S('%s' % v.data)
        if v.kind == 'TryFromIntError': return S('TryFromIntError(())')
        if v.kind == 'fmt::Error': return S('Error')
        return S(v.kind)
    raise Unsupported('formatting opaque %s' % v.kind)

# ------------------------------------------------------------------ type-directed rendering
SEQ = ('Vec', 'VecDeque', 'LinkedList', 'BinaryHeap')
SETS = ('HashSet', 'BTreeSet')
MAPS = ('HashMap', 'BTreeMap')
PTRS = ('Box', 'Rc', 'Arc', 'Cow', 'Ref', 'RefMut', 'Reverse_', 'ManuallyDrop')

def peel(v):
    while True:
        if isinstance(v, Ref): v = v.get()
        elif isinstance(v, RBox): v = v.cell[0]
        else: return v

ITER_ITEM = {'Chars': 'char', 'CharIndices': '(usize, char)', 'Bytes': 'u8', 'Split': '&str', 'RSplit': '&str', 'SplitN': '&str', 'RSplitN': '&str',
             'SplitWhitespace': '&str', 'SplitAsciiWhitespace': '&str', 'Lines': '&str', 'SplitTerminator': '&str', 'SplitInclusive': '&str',
             'Matches': '&str', 'EscapeDebug': 'char', 'EscapeDefault': 'char', 'ToUppercase': 'char', 'ToLowercase': 'char', 'String': 'char', 'str': 'char'}
def normalize_projection(it, t):
    """`<X as Trait>::Name` -> concrete type tree when it can be known (std iterator items, user impls' associated types)"""
    if t is None or t[0] != 'opaque': return t
    m = re.match(r'^<(.+) as ([\w:]+)(?:<.*>)?>::(\w+)$', t[1])
    if not m: return t
    X = parse_ty(m.group(1)); trait = m.group(2).split('::')[-1]; name = m.group(3)
    if trait in ('Iterator', 'IntoIterator', 'DoubleEndedIterator') and name == 'Item':
        r = item_type(it, X)
        return r if r is not None else t
    if trait == 'Deref' and name == 'Target':
        if X[0] == 'path' and X[1] == 'String': return parse_ty('str')
        if X[0] == 'path' and X[1] == 'Vec' and X[3]: return ('slice', X[3][0])
        if X[0] == 'path' and X[1] in ('Box', 'Rc', 'Arc') and X[3]: return X[3][0]
    if trait in ('Add', 'Sub', 'Mul', 'Div', 'Rem', 'Neg', 'Not') and name == 'Output' and X[0] == 'path' and (X[1] in INT_TYS or X[1] in ('f64', 'f32')): return X
    # user impls
    si = getattr(it.prog, 'si', None)
    xb = X
    while xb[0] == 'ref': xb = xb[2]
    if si is not None and xb[0] == 'path':
        for imp in si.impls.values():
            if imp.get('trait') and imp.get('assoc') and name in imp['assoc']:
                tt = parse_ty(imp['trait']); st = parse_ty(imp['self_ty'])
                while st[0] == 'ref': st = st[2]
                if tt[0] == 'path' and tt[1] == trait and st[0] == 'path' and st[1] == xb[1] and not imp['generics']:
                    return parse_ty(imp['assoc'][name])
    return t
def item_type(it, X):
    if X[0] == 'ref':
        inner = X[2]
        if inner[0] == 'path' and inner[1] in ('Vec', 'VecDeque', 'HashSet', 'BTreeSet', 'Option') and inner[3]: return ('ref', X[1], inner[3][0])
        if inner[0] in ('slice', 'array'): return ('ref', X[1], inner[1])
        return item_type(it, inner)                     # &mut I: Iterator
    if X[0] in ('array',): return X[1]
    if X[0] != 'path': return None
    n = X[1]; a = X[3]
    if n in ITER_ITEM: return parse_ty(ITER_ITEM[n])
    if n in ('IntoIter', 'Vec', 'VecDeque', 'HashSet', 'BTreeSet', 'Option', 'Range', 'RangeInclusive', 'RangeFrom', 'Drain', 'Once', 'Repeat', 'Empty') and a: return a[-1] if n in ('IntoIter', 'Drain') and len(a) > 1 and False else a[0]
    if n in ('Iter',) and a: return ('ref', False, a[0])
    if n in ('IterMut',) and a: return ('ref', True, a[0])
    if n in ('Rev', 'Skip', 'Take', 'StepBy', 'Filter', 'Peekable', 'Chain', 'SkipWhile', 'TakeWhile', 'Fuse', 'Inspect', 'Cycle') and a: return item_type(it, a[0])
    if n in ('Cloned', 'Copied') and a:
        r = item_type(it, a[0]); return r[2] if r and r[0] == 'ref' else r
    if n == 'Enumerate' and a:
        r = item_type(it, a[0]); return ('tuple', [parse_ty('usize'), r]) if r else None
    if n == 'Zip' and len(a) >= 2:
        r0, r1 = item_type(it, a[0]), item_type(it, a[1]); return ('tuple', [r0, r1]) if r0 and r1 else None
    if n == 'Flatten' and a:
        r = item_type(it, a[0]); return item_type(it, r) if r else None
    return None

def fmt_value(it, v, ty, mode, spec=DEFAULT, depth=0):
    """chars of `v` (any pointer depth) formatted as type `ty` (text or parsed, may be None = value-directed)"""
    if depth > 200: raise Unsupported('fmt recursion')
    t = parse_ty(ty) if isinstance(ty, str) else ty
    if t is not None and t[0] == 'opaque' and t[1].startswith('<'): t = normalize_projection(it, t)
    while t is not None and t[0] == 'ref': t = t[2]
    if isinstance(v, DynRef) and (t is None or (t[0] == 'opaque' and t[1].startswith('dyn '))):
        t = parse_ty(v.dyn_ty)
        while t[0] == 'ref': t = t[2]
    pv = peel(v)
    if t is not None and t[0] == 'path' and t[1] in PTRS and t[3]:
        if t[1] == 'Cow' and isinstance(pv, Enum) and pv.ty == 'Cow': pv = pv.f[0]
        return fmt_value(it, pv, t[3][0], mode, spec, depth + 1)
    if isinstance(pv, Enum) and pv.ty == 'Cow': return fmt_value(it, pv.f[0], None, mode, spec, depth + 1)
    if t is None or t[0] == 'opaque' or (t[0] == 'path' and not t[3] and len(t[1]) <= 2 and t[1][0].isupper() and t[1] not in ('Vec',)):
        return fmt_untyped(it, pv, mode, spec, depth)
    k = t[0]
    if k == 'tuple':
        if mode != 'debug': raise Unsupported('Display of a tuple')
        if not t[1]: return pad_str(S('()'), spec)
        items = pv.f if isinstance(pv, Agg) else []
        return composite(it, '', '(', ')', [(None, x, tt) for x, tt in zip(items, t[1])], spec, depth, trailing_single=True)
    if k in ('slice', 'array'):
        if mode != 'debug': raise Unsupported('Display of a slice')
        return composite(it, '', '[', ']', [(None, x, t[1]) for x in as_items(pv)], spec, depth)
    name = t[1]
    if name == 'char':
        return pad_str([pv], spec) if mode == 'display' else debug_char(it, pv)
    if name in ('str', 'String'):
        ch = list(pv.ch) if isinstance(pv, (Str, RString)) else as_chars(pv)
        return pad_str(ch, spec) if mode == 'display' else debug_str(it, ch)
    if name == 'bool':
        if is_sym(pv): pv = truth(it, pv)
        return pad_str(S('true' if pv else 'false'), spec)
    if name in INT_TYS: return fmt_int(pv, name, mode, spec, it)
    if name in ('f64', 'f32'): return fmt_float(pv, mode, spec, name == 'f32')
    if isinstance(pv, Opaque) and pv.kind not in ('formatter',):
        if pv.kind == 'fmtargs': return render_args(it, pv)
        return fmt_opaque(pv, mode)
    if name == 'Arguments' and isinstance(pv, Opaque): return render_args(it, pv)
    if mode == 'debug':
        if name == 'Option' and isinstance(pv, Enum):
            if pv.variant == 'None': return S('None')
            return composite(it, 'Some', '(', ')', [(None, pv.f[0], t[3][0] if t[3] else None)], spec, depth)
        if name == 'Result' and isinstance(pv, Enum):
            tt = (t[3] + [None, None])[0 if pv.variant == 'Ok' else 1] if t[3] else None
            return composite(it, pv.variant, '(', ')', [(None, pv.f[0], tt)], spec, depth)
        if name == 'Ordering' and isinstance(pv, Enum): return S(pv.variant)
        if name in SEQ: return composite(it, '', '[', ']', [(None, x, t[3][0] if t[3] else None) for x in as_items(pv)], spec, depth)
        if name in SETS: return composite(it, '', '{', '}', [(None, x, t[3][0] if t[3] else None) for x in pv.items], spec, depth)
        if name in MAPS and isinstance(pv, RMap):
            kt, vt = (t[3] + [None, None])[:2] if t[3] else (None, None)
            return composite(it, '', '{', '}', [((x, kt), y, vt) for x, y in zip(pv.keys, pv.vals)], spec, depth)
        if name in ('Range', 'RangeInclusive', 'RangeFrom', 'RangeTo', 'RangeFull', 'RangeToInclusive') and isinstance(pv, Agg):
            tt = t[3][0] if t[3] else None
            f = [fmt_value(it, x, tt, 'debug', spec, depth + 1) for x in pv.f]
            return {'Range': lambda: f[0] + S('..') + f[1], 'RangeInclusive': lambda: f[0] + S('..=') + f[1], 'RangeFrom': lambda: f[0] + S('..'),
                    'RangeTo': lambda: S('..') + f[0], 'RangeFull': lambda: S('..'), 'RangeToInclusive': lambda: S('..=') + f[0]}[name]()
        if name == 'Discriminant': return S('Discriminant(%s)' % pv.f[0])
        if name == 'PhantomData': return S('PhantomData<%s>' % (show_ty(t[3][0]) if t[3] else '?'))
    if name == 'Wrapping' and isinstance(pv, Agg): return fmt_value(it, pv.f[0], t[3][0] if t[3] else None, mode, spec, depth + 1)
    # user type (or std type we have MIR for): its own impl
    if isinstance(pv, (Agg, Enum)):
        return fmt_user(it, pv, show_ty(t), mode, spec, depth)
    return fmt_untyped(it, pv, mode, spec, depth)

def composite(it, name, open_, close, fields, spec, depth, trailing_single=False):
    """name + open + comma separated fields + close; fields = (label, value, type); label None | str | (keyvalue, keytype)"""
    if spec.alt: raise Unsupported('pretty ({:#?}) Debug output')
    out = S(name) + S(open_)
    for i, (lab, x, tt) in enumerate(fields):
        if i: out += S(', ')
        if isinstance(lab, str): out += S(lab) + S(': ')
        elif isinstance(lab, tuple): out += fmt_value(it, lab[0], lab[1], 'debug', spec, depth + 1) + S(': ')
        out += fmt_value(it, x, tt, 'debug', spec, depth + 1)
    if trailing_single and len(fields) == 1 and not name: out += S(',')
    return out + S(close)

def fmt_user(it, pv, tyname, mode, spec, depth):
    trait = {'display': 'std::fmt::Display', 'debug': 'std::fmt::Debug', 'lhex': 'std::fmt::LowerHex', 'uhex': 'std::fmt::UpperHex', 'bin': 'std::fmt::Binary',
             'oct': 'std::fmt::Octal', 'lexp': 'std::fmt::LowerExp', 'uexp': 'std::fmt::UpperExp'}.get(mode)
    if trait is None: raise Unsupported('fmt mode ' + mode)
    s = RString(); f = Fmtr(s, spec)
    names = [tyname] if tyname else []
    if getattr(pv, 'ty', None) and pv.ty not in names: names.append(pv.ty)
    active = getattr(it, 'fmt_active', None)
    if active is None: active = it.fmt_active = set()
    key = (id(pv), mode)
    if key in active: return fmt_untyped(it, pv, mode, spec, depth, no_user=True)       # the trait model called us back: no MIR impl
    active.add(key)
    try: return _fmt_user_call(it, pv, names, trait, s, f, mode, spec, depth)
    finally: active.discard(key)

def _fmt_user_call(it, pv, names, trait, s, f, mode, spec, depth):
    last = None
    for n in names:
        try:
            r = it.call_named('<%s as %s>::fmt' % (n, trait), [Ref([pv], 0), Ref([f], 0)], [None, None], None)
            if isinstance(r, Enum) and r.variant == 'Err': raise Unsupported('fmt::Error returned by a user impl')
            return list(s.ch)
        except Unresolved as e: last = e
    return fmt_untyped(it, pv, mode, spec, depth, no_user=True)

def fmt_untyped(it, v, mode, spec, depth, no_user=False):
    """value-directed fallback (type unknown): exact for strings / ints / floats / std enums; chars print as numbers"""
    v = peel(v)
    if isinstance(v, (Str, RString)): return pad_str(list(v.ch), spec) if mode == 'display' else debug_str(it, list(v.ch))
    if isinstance(v, bool): return pad_str(S('true' if v else 'false'), spec)
    if isinstance(v, float) or isinstance(v, SymReal) or (is_sym(v) and z3.is_fp(v)): return fmt_float(v, mode, spec)
    if isinstance(v, int): return fmt_int(v, 'i128', mode, spec)
    if is_sym(v):
        if z3.is_bv(v) and v.size() == 32: return [v]
        if z3.is_bv(v): return fmt_int(v, 'u%d' % v.size(), mode, spec, it)
        raise Unsupported('to_string of symbolic number')
    if v is UNIT: return S('()')
    if isinstance(v, Opaque):
        if v.kind == 'fmtargs': return render_args(it, v)
        return fmt_opaque(v, mode)
    if isinstance(v, (Agg, Enum)) and not no_user and v.ty not in ('tuple', 'array', 'Option', 'Result', 'Ordering') and not v.ty.startswith('{closure'):
        return fmt_user(it, v, None, mode, spec, depth)
    if mode != 'debug': raise Unsupported('Display of %r' % (v,))
    if isinstance(v, (RVec, SliceRef)) or (isinstance(v, Agg) and v.ty == 'array'):
        return composite(it, '', '[', ']', [(None, x, None) for x in as_items(v)], spec, depth)
    if isinstance(v, RSet): return composite(it, '', '{', '}', [(None, x, None) for x in v.items], spec, depth)
    if isinstance(v, RMap): return composite(it, '', '{', '}', [((x, None), y, None) for x, y in zip(v.keys, v.vals)], spec, depth)
    if isinstance(v, Enum):
        if not v.f: return S(v.variant)
        return composite(it, v.variant, '(', ')', [(None, x, None) for x in v.f], spec, depth)
    if isinstance(v, Agg):
        if v.ty == 'tuple': return composite(it, '', '(', ')', [(None, x, None) for x in v.f], spec, depth, trailing_single=True)
        return composite(it, v.ty.split('::')[-1], '(', ')', [(None, x, None) for x in v.f], spec, depth)
    raise Unsupported('Debug of %r' % (v,))

# compatibility names used by other model files / checks
def debug_chars(it, v, depth=0, ty=None): return fmt_value(it, v, ty, 'debug', DEFAULT, depth)
def display_chars(it, v, ty=None): return fmt_value(it, v, ty, 'display', DEFAULT)

# ------------------------------------------------------------------ entry points
@model('format', 'fmt::format', 'format_inner')
def _(it, a, info): return RString(render_args(it, a[0]))
@model('Arguments::as_str')
def _(it, a, info):
    pieces, args = deref(a[0]).data
    if args or any(p[0] != 'lit' for p in pieces): return none()
    return some(Str([c for p in pieces for c in (p[1] if not isinstance(p[1], str) else S(p[1]))]))
@model('Formatter::write_fmt', 'Write::write_fmt')
def _(it, a, info):
    out_of(a[0]).extend(render_args(it, a[1])); return ok(UNIT)
@model('Formatter::write_str', 'Write::write_str')
def _(it, a, info):
    out_of(a[0]).extend(as_chars(a[1])); return ok(UNIT)
@model('Formatter::write_char', 'Write::write_char')
def _(it, a, info):
    out_of(a[0]).append(a[1]); return ok(UNIT)
@model('Formatter::pad')
def _(it, a, info):
    f = deref(a[0]); f.data.ch.extend(pad_str(as_chars(a[1]), spec_of(f))); return ok(UNIT)
@model('Formatter::pad_integral')
def _(it, a, info):
    f = deref(a[0]); f.data.ch.extend(pad_integral(bool(a[1]), ''.join(chr(c) for c in as_chars(a[2])), ''.join(chr(c) for c in as_chars(a[3])), spec_of(f))); return ok(UNIT)
@model('Formatter::alternate')
def _(it, a, info): return spec_of(deref(a[0])).alt
@model('Formatter::sign_plus')
def _(it, a, info): return spec_of(deref(a[0])).plus
@model('Formatter::sign_minus')
def _(it, a, info): return False
@model('Formatter::sign_aware_zero_pad')
def _(it, a, info): return spec_of(deref(a[0])).zero
@model('Formatter::width')
def _(it, a, info):
    w = spec_of(deref(a[0])).width; return none() if w is None else some(w)
@model('Formatter::precision')
def _(it, a, info):
    w = spec_of(deref(a[0])).prec; return none() if w is None else some(w)
@model('Formatter::fill')
def _(it, a, info): return spec_of(deref(a[0])).fill
@model('Formatter::align')
def _(it, a, info):
    al = spec_of(deref(a[0])).align
    return none() if al is None else some(Enum('Alignment', {'l': 'Left', 'r': 'Right', 'c': 'Center'}[al], 'lrc'.index(al), []))

def _fmt_self(mode):
    def f(it, a, info):
        fm = deref(a[1]); ty = info.get('self_ty')
        out_of(a[1]).extend(fmt_value(it, a[0], ty, mode, spec_of(fm))); return ok(UNIT)
    return f
for _t, _m in (('Display', 'display'), ('Debug', 'debug'), ('LowerHex', 'lhex'), ('UpperHex', 'uhex'), ('Binary', 'bin'), ('Octal', 'oct'), ('LowerExp', 'lexp'), ('UpperExp', 'uexp')):
    model(_t + '::fmt')(_fmt_self(_m))

@model('ToString::to_string')
def _(it, a, info):
    return RString(fmt_value(it, a[0], info.get('self_ty'), 'display', DEFAULT))

# derive(Debug) helpers: fields arrive as `&dyn Debug` (DynRef carries the field type)
for _k in range(1, 6):
    def _mk(k):
        def dt(it, a, info):
            f = deref(a[0]); sp = spec_of(f)
            f.data.ch.extend(composite(it, ''.join(chr(c) for c in as_chars(a[1])), '(', ')', [(None, a[2 + i], None) for i in range(k)], sp, 0)); return ok(UNIT)
        def ds(it, a, info):
            f = deref(a[0]); sp = spec_of(f)
            flds = [(''.join(chr(c) for c in as_chars(a[2 + 2 * i])), a[3 + 2 * i], None) for i in range(k)]
            f.data.ch.extend(composite(it, ''.join(chr(c) for c in as_chars(a[1])), ' { ', ' }', flds, sp, 0)); return ok(UNIT)
        return dt, ds
    _dt, _ds = _mk(_k)
    model('Formatter::debug_tuple_field%d_finish' % _k)(_dt)
    model('Formatter::debug_struct_field%d_finish' % _k)(_ds)
@model('Formatter::debug_struct_fields_finish')
def _(it, a, info):
    f = deref(a[0]); names = as_items(a[2]); vals = as_items(a[3])
    flds = [(''.join(chr(c) for c in as_chars(n)), v, None) for n, v in zip(names, vals)]
    f.data.ch.extend(composite(it, ''.join(chr(c) for c in as_chars(a[1])), ' { ', ' }', flds, spec_of(f), 0)); return ok(UNIT)
@model('Formatter::debug_tuple_fields_finish')
def _(it, a, info):
    f = deref(a[0]); vals = as_items(a[2])
    f.data.ch.extend(composite(it, ''.join(chr(c) for c in as_chars(a[1])), '(', ')', [(None, v, None) for v in vals], spec_of(f), 0)); return ok(UNIT)

# builders: f.debug_struct("N").field("a", &x).finish()
class Builder(Opaque):
    __slots__ = ()
    def __init__(self, kind, f, name): self.kind = 'dbg_' + kind; self.data = {'f': f, 'name': name, 'fields': [], 'pending': None}
@model('Formatter::debug_struct')
def _(it, a, info): return Builder('struct', deref(a[0]), ''.join(chr(c) for c in as_chars(a[1])))
@model('Formatter::debug_tuple')
def _(it, a, info): return Builder('tuple', deref(a[0]), ''.join(chr(c) for c in as_chars(a[1])))
@model('Formatter::debug_list')
def _(it, a, info): return Builder('list', deref(a[0]), '')
@model('Formatter::debug_set')
def _(it, a, info): return Builder('set', deref(a[0]), '')
@model('Formatter::debug_map')
def _(it, a, info): return Builder('map', deref(a[0]), '')
@model('DebugStruct::field')
def _(it, a, info):
    b = deref(a[0]); b.data['fields'].append((''.join(chr(c) for c in as_chars(a[1])), a[2], None)); return a[0]
@model('DebugTuple::field', 'DebugList::entry', 'DebugSet::entry')
def _(it, a, info):
    b = deref(a[0]); b.data['fields'].append((None, a[1], None)); return a[0]
@model('DebugMap::entry')
def _(it, a, info):
    b = deref(a[0]); b.data['fields'].append(((a[1], None), a[2], None)); return a[0]
@model('DebugMap::key')
def _(it, a, info):
    deref(a[0]).data['pending'] = a[1]; return a[0]
@model('DebugMap::value')
def _(it, a, info):
    b = deref(a[0]); b.data['fields'].append(((b.data['pending'], None), a[1], None)); return a[0]
@model('DebugList::entries', 'DebugSet::entries')
def _(it, a, info):
    from models_iter import to_iter, drain
    b = deref(a[0])
    for v in drain(it, to_iter(it, a[1])): b.data['fields'].append((None, v, info['mgen'][0] if info.get('mgen') else None))
    return a[0]
@model('DebugMap::entries')
def _(it, a, info):
    from models_iter import to_iter, drain
    b = deref(a[0])
    for v in drain(it, to_iter(it, a[1])): b.data['fields'].append(((v.f[0], None), v.f[1], None))
    return a[0]
def _finish(it, a, info, non_exhaustive=False):
    b = deref(a[0]); d = b.data; f = d['f']; sp = spec_of(f); kind = b.kind[4:]
    if kind == 'struct':
        if not d['fields']: out = S(d['name']) + (S(' { .. }') if non_exhaustive else [])
        else:
            out = composite(it, d['name'], ' { ', ' }', d['fields'], sp, 0)
            if non_exhaustive: out = out[:-2] + S(', .. }')
    elif kind == 'tuple':
        out = S(d['name']) if not d['fields'] else composite(it, d['name'], '(', ')', d['fields'], sp, 0, trailing_single=True)
    elif kind == 'list': out = composite(it, '', '[', ']', d['fields'], sp, 0)
    else: out = composite(it, '', '{', '}', d['fields'], sp, 0)
    f.data.ch.extend(out); return ok(UNIT)
for _n in ('DebugStruct', 'DebugTuple', 'DebugList', 'DebugSet', 'DebugMap'):
    model(_n + '::finish')(_finish)
@model('DebugStruct::finish_non_exhaustive')
def _(it, a, info): return _finish(it, a, info, True)

@model('panic_fmt')
def _(it, a, info):
    try: msg = ''.join(chr(c) if isinstance(c, int) else '?' for c in render_args(it, a[0]))
    except Unsupported: msg = '<panic message not rendered>'
    raise RustPanic(msg)
