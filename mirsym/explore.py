"""Path exploration by re-execution with decision prefixes, spread over worker processes.

A *task* is (module, function, params).  The function runs ONE path: it receives (engine, ctx, params), creates its
symbolic inputs deterministically (same names every time), runs the real code through the interpreter and returns a
JSON-able summary {'status': 'ok'|'violation'|'inconclusive', ...}.  The driver collects summaries and schedules the
unexplored alternatives (ctx.alternatives) until the space is exhausted or a budget is hit (then the result is
reported as NOT exhaustive)."""
import os, sys, time, importlib, traceback, multiprocessing as mp
HERE = os.path.dirname(os.path.abspath(__file__))
sys.path.insert(0, HERE)

_ENGINE = None
def _init():
    global _ENGINE
    from engine import Engine
    _ENGINE = Engine(); _ENGINE.load()

def run_one(job):
    """job = (module, func, params, prefix) -> summary"""
    global _ENGINE
    if _ENGINE is None: _init()
    from interp import PathCtx, RustPanic, Unsupported, StepLimit, Infeasible
    from resolve import Unresolved
    module, func, params, prefix = job[:4]
    mod = importlib.import_module(module)
    import models_str
    models_str.set_blocks(params.get('blocks') if isinstance(params, dict) else None)
    ctx = PathCtx(prefix)
    t = time.time()
    try:
        summ = getattr(mod, func)(_ENGINE, ctx, params)
    except Infeasible:
        summ = {'status': 'infeasible'}
    except (Unsupported, Unresolved) as u:
        summ = {'status': 'inconclusive', 'why': '%s: %s' % (type(u).__name__, str(u)[:300])}
    except RecursionError:
        summ = {'status': 'inconclusive', 'why': 'python recursion limit'}
    except Exception as ex:
        summ = {'status': 'inconclusive', 'why': 'internal error: ' + ''.join(traceback.format_exception_only(type(ex), ex))[:300] + ' @ ' + traceback.format_exc()[-600:]}
    summ['alternatives'] = ctx.alternatives
    summ['checks'] = ctx.nchecks
    summ['solver_s'] = ctx.solver_time
    summ['wall_s'] = time.time() - t
    summ['depth'] = len(ctx.trail)
    return summ

class Result:
    def __init__(self):
        self.paths = 0; self.violations = []; self.inconclusive = []; self.checks = 0; self.solver_s = 0.0
        self.exhaustive = True; self.samples = []; self.statuses = {}; self.wall_s = 0.0; self.cpu_s = 0.0
        self.infeasible = 0; self.extra = []

def explore(module, func, params, workers=None, max_paths=200000, budget_s=None, keep_samples=6, stop_on_violation=False, pool=None):
    """explore all paths of one task; returns Result"""
    res = Result(); t0 = time.time()
    workers = workers or min(16, os.cpu_count() or 4)
    own = False
    if pool is None and workers > 1:
        pool = mp.get_context('fork').Pool(workers, initializer=_init); own = True
    plist = params if isinstance(params, list) else [params]
    pending = [(i, []) for i in range(len(plist))][::-1]
    inflight = []
    try:
        while pending or inflight:
            if budget_s is not None and time.time() - t0 > budget_s:
                res.exhaustive = False; break
            if res.paths + len(inflight) >= max_paths and pending:
                res.exhaustive = False; pending = []
            if pool is None:
                if not pending: break
                pi, pre = pending.pop()
                summ = run_one((module, func, plist[pi], pre)); summ['_pi'] = pi
                done = [summ]
            else:
                while pending and len(inflight) < workers * 3:
                    pi, pre = pending.pop()
                    inflight.append((pi, pool.apply_async(run_one, ((module, func, plist[pi], pre),))))
                done = []
                still = []
                for pi, a in inflight:
                    if a.ready():
                        sm = a.get(); sm['_pi'] = pi; done.append(sm)
                    else: still.append((pi, a))
                inflight = still
                if not done:
                    time.sleep(0.002); continue
            for summ in done:
                res.paths += 1
                res.checks += summ['checks']; res.solver_s += summ['solver_s']; res.cpu_s += summ['wall_s']
                st = summ['status']
                res.statuses[st] = res.statuses.get(st, 0) + 1
                pending.extend((summ['_pi'], alt) for alt in summ.pop('alternatives'))
                if st == 'violation': res.violations.append(summ)
                elif st == 'inconclusive': res.inconclusive.append(summ)
                elif st == 'infeasible': res.infeasible += 1
                if 'sample' in summ and len(res.samples) < keep_samples: res.samples.append(summ['sample'])
                if 'extra' in summ: res.extra.append(summ['extra'])
            if stop_on_violation and res.violations:
                res.exhaustive = False; break
    finally:
        if own:
            pool.terminate(); pool.join()
    if pending or inflight: res.exhaustive = False
    res.wall_s = time.time() - t0
    return res

def make_pool(workers=None):
    workers = workers or min(16, os.cpu_count() or 4)
    return mp.get_context('fork').Pool(workers, initializer=_init)
