"""Python models of the std / core / alloc APIs the crate calls.
Each model: fn(interp, args, info) -> value.  `info` is the parsed callee (resolve.parse_callee)."""
import re, math
import z3
from values import *
from interp import RustPanic, Unsupported, do_binop, utf8_len, wrap_int, INT_TYS
from tyunify import parse_ty, strip_lifetimes

MODELS = {}

def model(*keys):
    def deco(fn):
        for k in keys: MODELS[k] = fn
        return fn
    return deco

# ------------------------------------------------------------------ helpers
def some(v): return Enum('Option', 'Some', 1, [v])
def none(): return Enum('Option', 'None', 0, [])
def ok(v): return Enum('Result', 'Ok', 0, [v])
def err(e): return Enum('Result', 'Err', 1, [e])
def ordering(c): return Enum('Ordering', 'Less' if c < 0 else 'Equal' if c == 0 else 'Greater', 0, [])

def deref(v):
    while isinstance(v, Ref): v = v.get()
    return v

def deref1(v):
    return v.get() if isinstance(v, Ref) else v

def as_chars(v):
    """char sequence of a str-like value"""
    v = deref(v)
    if isinstance(v, (Str, RString)): return list(v.ch)
    if isinstance(v, RBox): return as_chars(v.cell[0])
    raise Unsupported('as_chars of %r' % (v,))

def as_items(v):
    v = deref(v)
    if isinstance(v, RVec): return v.items
    if isinstance(v, SliceRef): return v.items()
    if isinstance(v, Agg) and v.ty in ('array', 'tuple'): return v.f
    if isinstance(v, RSet): return v.items
    if isinstance(v, RBox): return as_items(v.cell[0])
    raise Unsupported('as_items of %r' % (v,))

def truth(interp, c):
    return interp.ctx.branch(c)

def char_eq(a, b):
    if isinstance(a, int) and isinstance(b, int): return a == b
    return do_binop('Eq', a, b, 'char')

def chars_eq(interp, xs, ys):
    """symbolic-aware equality of two char sequences -> python bool or z3 Bool"""
    if len(xs) != len(ys): return False
    conj = []
    for a, b in zip(xs, ys):
        e = char_eq(a, b)
        if e is False: return False
        if e is not True: conj.append(e)
    if not conj: return True
    return z3.And(*conj) if len(conj) > 1 else conj[0]

def first_ty_arg(text):
    """`Foo<A, B>` -> ['A','B']"""
    t = parse_ty(text)
    return t

def values_equal(interp, a, b):
    """`==` on arbitrary values, using the crate's own PartialEq impls for its types. -> bool or z3 Bool"""
    a = deref(a); b = deref(b)
    if isinstance(a, RBox): a = a.cell[0]
    if isinstance(b, RBox): b = b.cell[0]
    if isinstance(a, (Agg, Enum)) and not is_std_value(a):
        return interp.call_named('<%s as PartialEq>::eq' % a.ty, [Ref([a], 0), Ref([b], 0)], [None, None], 'bool')
    return std_equal(interp, a, b)

def is_std_value(v):
    if isinstance(v, Enum): return v.ty in ('Option', 'Result', 'Ordering', 'ControlFlow', 'ErrorKind', 'Cow')
    if isinstance(v, Agg): return v.ty in ('tuple', 'array') or v.ty.startswith(('std::', 'core::', 'Range'))
    return True

def std_equal(interp, a, b):
    if isinstance(a, (Str, RString)) and isinstance(b, (Str, RString)):
        return chars_eq(interp, list(a.ch), list(b.ch))
    if isinstance(a, (int, float, bool)) or is_sym(a) or isinstance(b, (int, float, bool)) or is_sym(b):
        if isinstance(a, bool) or isinstance(b, bool) or (is_sym(a) and z3.is_bool(a)):
            return do_binop('Eq', a, b, 'bool')
        if isinstance(a, float) or isinstance(b, float): return do_binop('Eq', a, b, 'f64')
        return do_binop('Eq', a, b, None)
    if isinstance(a, Enum) and isinstance(b, Enum):
        if a.variant != b.variant: return False
        return seq_equal(interp, a.f, b.f)
    if isinstance(a, Agg) and isinstance(b, Agg):
        return seq_equal(interp, a.f, b.f)
    if isinstance(a, (RVec, SliceRef)) and isinstance(b, (RVec, SliceRef)) or (isinstance(a, (RVec, SliceRef, Agg)) and isinstance(b, (RVec, SliceRef, Agg))):
        return seq_equal(interp, as_items(a), as_items(b))
    if isinstance(a, RSet) and isinstance(b, RSet):
        if len(a.items) != len(b.items): return False
        for x in a.items:
            if not set_contains(interp, b, x): return False
        return True
    if a is UNIT and b is UNIT: return True
    raise Unsupported('std_equal of %r and %r' % (a, b))

def seq_equal(interp, xs, ys):
    if len(xs) != len(ys): return False
    for x, y in zip(xs, ys):
        e = values_equal(interp, x, y)
        if not truth(interp, e): return False
    return True

def set_contains(interp, s, x):
    for y in s.items:
        if truth(interp, values_equal(interp, y, x)): return True
    return False

def set_insert(interp, s, x):
    if set_contains(interp, s, x): return False
    s.items.append(x); return True

def call_closure_like(interp, f, args):
    """call a closure / fn item value with positional args"""
    return interp.call_value(f, list(args))

# ------------------------------------------------------------------ Option / Result
@model('Option::take')
def _(it, a, info):
    r = a[0]; v = r.get(); r.set(none()); return v

@model('Option::is_none')
def _(it, a, info): return deref(a[0]).variant == 'None'
@model('Option::is_some')
def _(it, a, info): return deref(a[0]).variant == 'Some'
@model('Result::is_ok')
def _(it, a, info): return deref(a[0]).variant == 'Ok'
@model('Result::is_err')
def _(it, a, info): return deref(a[0]).variant == 'Err'

@model('Option::insert', 'Option::get_or_insert')
def _(it, a, info):
    r = a[0]
    if info['method'] == 'get_or_insert' and r.get().variant == 'Some':
        return Ref(r.get().f, 0)
    e = some(a[1]); r.set(e); return Ref(e.f, 0)

@model('Option::unwrap', 'Option::expect', 'Option::unwrap_unchecked')
def _(it, a, info):
    v = a[0]
    if v.variant == 'None':
        raise RustPanic('called `Option::unwrap()` on a `None` value')
    return v.f[0]

@model('Result::unwrap', 'Result::expect')
def _(it, a, info):
    v = a[0]
    if v.variant == 'Err':
        raise RustPanic('called `Result::unwrap()` on an `Err` value')
    return v.f[0]

@model('Result::unwrap_err')
def _(it, a, info):
    v = a[0]
    if v.variant == 'Ok': raise RustPanic('called `Result::unwrap_err()` on an `Ok` value')
    return v.f[0]

@model('Option::unwrap_or', 'Result::unwrap_or')
def _(it, a, info):
    v = a[0]
    return v.f[0] if v.variant in ('Some', 'Ok') else a[1]

@model('Option::unwrap_or_default')
def _(it, a, info):
    v = a[0]
    if v.variant == 'Some': return v.f[0]
    raise Unsupported('unwrap_or_default')

@model('Option::unwrap_or_else', 'Result::unwrap_or_else')
def _(it, a, info):
    v = a[0]
    if v.variant in ('Some', 'Ok'): return v.f[0]
    return call_closure_like(it, a[1], [] if v.variant == 'None' else [v.f[0]])

@model('Option::ok_or')
def _(it, a, info):
    v = a[0]
    return ok(v.f[0]) if v.variant == 'Some' else err(a[1])

@model('Option::ok_or_else')
def _(it, a, info):
    v = a[0]
    return ok(v.f[0]) if v.variant == 'Some' else err(call_closure_like(it, a[1], []))

@model('Option::map')
def _(it, a, info):
    v = a[0]
    return some(call_closure_like(it, a[1], [v.f[0]])) if v.variant == 'Some' else none()

@model('Option::and_then')
def _(it, a, info):
    v = a[0]
    return call_closure_like(it, a[1], [v.f[0]]) if v.variant == 'Some' else none()

@model('Option::as_ref', 'Option::as_mut')
def _(it, a, info):
    v = deref1(a[0])
    return some(Ref(v.f, 0)) if v.variant == 'Some' else none()

@model('Option::as_deref')
def _(it, a, info):
    v = deref1(a[0])
    if v.variant == 'None': return none()
    x = v.f[0]
    return some(Str(x.ch) if isinstance(x, RString) else x)

@model('Option::cloned', 'Option::copied')
def _(it, a, info):
    v = a[0]
    return some(deep_copy(deref(v.f[0]))) if v.variant == 'Some' else none()

@model('Option::ok', 'Result::ok')
def _(it, a, info):
    v = a[0]
    return some(v.f[0]) if v.variant == 'Ok' else none()

@model('Result::err')
def _(it, a, info):
    v = a[0]
    return some(v.f[0]) if v.variant == 'Err' else none()

@model('Result::map')
def _(it, a, info):
    v = a[0]
    return ok(call_closure_like(it, a[1], [v.f[0]])) if v.variant == 'Ok' else v

@model('Result::map_err')
def _(it, a, info):
    v = a[0]
    return err(call_closure_like(it, a[1], [v.f[0]])) if v.variant == 'Err' else v

@model('Result::and_then')
def _(it, a, info):
    v = a[0]
    return call_closure_like(it, a[1], [v.f[0]]) if v.variant == 'Ok' else v

@model('Result::as_ref')
def _(it, a, info):
    v = deref1(a[0])
    return Enum('Result', v.variant, v.idx, [Ref(v.f, 0)])

@model('Try::branch')
def _(it, a, info):
    v = a[0]
    if v.ty == 'Option':
        if v.variant == 'Some': return Enum('ControlFlow', 'Continue', 0, [v.f[0]])
        return Enum('ControlFlow', 'Break', 1, [none()])
    if v.ty == 'Result':
        if v.variant == 'Ok': return Enum('ControlFlow', 'Continue', 0, [v.f[0]])
        return Enum('ControlFlow', 'Break', 1, [err(v.f[0])])
    raise Unsupported('Try::branch on %r' % (v,))

@model('FromResidual::from_residual')
def _(it, a, info):
    v = a[0]
    if v.ty == 'Option': return none()
    if v.ty == 'Result':
        e = v.f[0]
        # error conversion From<E1> for E2 when they differ
        st = parse_ty(info['self_ty']); tr = parse_ty(info['trait'])
        try:
            e2 = st[3][1]; e1 = tr[3][0][3][1]
        except Exception:
            return err(e)
        from tyunify import loosely_equal, show
        if loosely_equal(e2, e1) and loosely_equal(e1, e2): return err(e)
        r = it.call_named('<%s as From<%s>>::from' % (show(e2), show(e1)), [e], [show(e1)], show(e2))
        return err(r)
    raise Unsupported('from_residual on %r' % (v,))

# ------------------------------------------------------------------ conversions
@model('Into::into')
def _(it, a, info):
    v = a[0]
    tr = parse_ty(info['trait'])
    target = tr[3][0] if tr[0] == 'path' and tr[3] else None
    tname = target[1] if target and target[0] == 'path' else None
    if tname == 'String':
        if isinstance(v, Str): return RString(v.ch)
        if isinstance(v, RString): return v
        if isinstance(v, Ref) and isinstance(v.get(), RString): return RString(v.get().ch)
        if isinstance(v, int): return RString([v])          # char -> String
        if isinstance(v, RBox): return RString(as_chars(v))
    if isinstance(v, (Str,)) and tname in (None,):
        return v
    if tname in ('f64', 'f32', 'usize', 'isize', 'u64', 'i64', 'u32', 'char', 'bool'): return v
    if tname == 'Box' : return RBox(v)
    if tname == 'Vec' and isinstance(v, RVec): return v
    if tname == 'Vec' and isinstance(v, SliceRef): return RVec([deep_copy(x) for x in v.items()])
    if tname == 'Vec' and isinstance(v, Agg) and v.ty == 'array': return RVec(v.f)
    if tname == 'Vec' and isinstance(v, Ref): return RVec([deep_copy(x) for x in as_items(v)])
    # reflexive / user-defined From
    from tyunify import show
    src = info['self_ty']
    if target is not None:
        try:
            return it.call_named('<%s as From<%s>>::from' % (show(target), src), [v], [src], show(target))
        except Exception as e:
            if 'no MIR body' in str(e) or 'Unresolved' in type(e).__name__:
                return v
            raise
    return v

@model('From::from')
def _(it, a, info):
    v = a[0]
    st = parse_ty(info['self_ty'])
    tname = st[1] if st[0] == 'path' else None
    if tname == 'String':
        if isinstance(v, Str): return RString(v.ch)
        if isinstance(v, RString): return v
        if isinstance(v, int): return RString([v])
        if isinstance(v, Ref): return RString(as_chars(v))
    if tname == 'Vec':
        if isinstance(v, RVec): return v
        return RVec([deep_copy(x) for x in as_items(v)])
    if tname == 'Box':
        if isinstance(v, Str): return RBox(v)
        return RBox(v)
    return v

@model('AsRef::as_ref', 'Borrow::borrow')
def _(it, a, info):
    v = deref(a[0])
    if isinstance(v, RString): return Str(v.ch)
    if isinstance(v, Str): return v
    if isinstance(v, RVec): return SliceRef(v.items, 0, len(v.items))
    if isinstance(v, RBox): return Ref(v.cell, 0)
    return a[0]

@model('AsMut::as_mut')
def _(it, a, info):
    v = deref(a[0])
    if isinstance(v, RBox): return Ref(v.cell, 0)
    if isinstance(v, RVec): return SliceRef(v.items, 0, len(v.items))
    return a[0]

@model('Deref::deref', 'DerefMut::deref_mut')
def _(it, a, info):
    v = deref1(a[0])
    if isinstance(v, RString): return Str(v.ch)
    if isinstance(v, RVec): return SliceRef(v.items, 0, len(v.items))
    if isinstance(v, RBox):
        inner = v.cell[0]
        if isinstance(inner, RVec): return SliceRef(inner.items, 0, len(inner.items))
        if isinstance(inner, Str): return inner
        return Ref(v.cell, 0)
    if isinstance(v, Ref): return v
    if isinstance(v, Opaque) and v.kind == 'guard': return v.data
    raise Unsupported('Deref::deref of %r (%s)' % (v, info['text'][:80]))

@model('ToOwned::to_owned')
def _(it, a, info):
    v = a[0]
    if isinstance(v, Str): return RString(v.ch)
    if isinstance(v, SliceRef): return RVec([deep_copy(x) for x in v.items()])
    return deep_copy(deref(v))

@model('Clone::clone')
def _(it, a, info):
    v = deref1(a[0])
    if isinstance(v, (Agg, Enum)) and not is_std_value(v):
        # a crate type whose Clone impl is not in the MIR dump cannot happen (derive emits MIR); structural copy
        return deep_copy(v)
    if isinstance(v, Ref): return v
    return deep_copy(v)

@model('Default::default')
def _(it, a, info):
    st = parse_ty(info['self_ty'])
    n = st[1] if st[0] == 'path' else None
    if n == 'Option': return none()
    if n == 'String': return RString()
    if n == 'Vec': return RVec()
    if n == 'HashSet': return RSet()
    if n in ('usize', 'isize', 'u64', 'i64', 'u32', 'i32', 'u8'): return 0
    if n in ('f64', 'f32'): return 0.0
    if n == 'bool': return False
    raise Unsupported('Default for ' + info['self_ty'])

# ------------------------------------------------------------------ mem / boxed
@model('Box::new')
def _(it, a, info): return RBox(a[0])
@model('Box::new_uninit')
def _(it, a, info): return RBox(UNINIT)
@model('box_assume_init_into_vec_unsafe')
def _(it, a, info):
    b = a[0]; arr = b.cell[0]
    return RVec(list(arr.f))
@model('slice::into_vec')
def _(it, a, info):
    b = a[0]; arr = b.cell[0]
    return arr if isinstance(arr, RVec) else RVec(list(arr.f))
@model('drop')
def _(it, a, info): return UNIT
@model('Drop::drop')
def _(it, a, info): return UNIT
@model('take')
def _(it, a, info):
    r = a[0]; v = r.get()
    if isinstance(v, RString): r.set(RString())
    elif isinstance(v, RVec): r.set(RVec())
    elif isinstance(v, Enum) and v.ty == 'Option': r.set(none())
    else: raise Unsupported('mem::take of %r' % (v,))
    return v
@model('swap')
def _(it, a, info):
    x, y = a[0], a[1]; t = x.get(); x.set(y.get()); y.set(t); return UNIT
@model('replace')
def _(it, a, info):
    r = a[0]; v = r.get(); r.set(a[1]); return v
@model('identity')
def _(it, a, info): return a[0]
@model('must_use')
def _(it, a, info): return a[0]
@model('type_name')
def _(it, a, info): return mkstr(info['mgen'][0] if info['mgen'] else '?')
@model('size_of')
def _(it, a, info): raise Unsupported('size_of')
