"""Value model of the MIR interpreter.  Only scalars are ever symbolic (z3 terms);
shapes (enum variants, lengths, pointers) are concrete on every path."""
import z3

class _Uninit:
    def __repr__(self): return 'UNINIT'
UNINIT = _Uninit()
UNIT = ()

class Agg:
    """struct / tuple / array / closure environment"""
    __slots__ = ('ty', 'f', 'substs')
    def __init__(self, ty, f, substs=None): self.ty = ty; self.f = f; self.substs = substs
    def __repr__(self): return '%s{%s}' % (self.ty, ', '.join(map(repr, self.f)))

class Enum:
    __slots__ = ('ty', 'variant', 'idx', 'f')
    def __init__(self, ty, variant, idx, f): self.ty = ty; self.variant = variant; self.idx = idx; self.f = f
    def __repr__(self):
        return '%s::%s%s' % (self.ty, self.variant, ('(' + ', '.join(map(repr, self.f)) + ')') if self.f else '')

class Ref:
    """pointer to the cell c[k]"""
    __slots__ = ('c', 'k')
    def __init__(self, c, k): self.c = c; self.k = k
    def get(self): return self.c[self.k]
    def set(self, v): self.c[self.k] = v
    def __repr__(self): return '&' + repr(self.c[self.k])

class DynRef(Ref):
    """&dyn Trait: a Ref that remembers the concrete pointee type it was coerced from"""
    __slots__ = ('dyn_ty',)
    def __init__(self, c, k, dyn_ty): self.c = c; self.k = k; self.dyn_ty = dyn_ty

class SliceRef:
    """&[T] / &mut [T]: view c[lo:hi]"""
    __slots__ = ('c', 'lo', 'hi')
    def __init__(self, c, lo, hi): self.c = c; self.lo = lo; self.hi = hi
    def items(self): return self.c[self.lo:self.hi]
    def __len__(self): return self.hi - self.lo
    def __repr__(self): return '&[' + ', '.join(map(repr, self.items())) + ']'

class Str:
    """&str value: immutable tuple of chars, each an int code point or a z3 BitVec(32)"""
    __slots__ = ('ch',)
    def __init__(self, ch): self.ch = tuple(ch)
    def concrete(self): return all(isinstance(c, int) for c in self.ch)
    def py(self): return ''.join(chr(c) if isinstance(c, int) else '⁇' for c in self.ch)
    def __repr__(self): return 'str"%s"' % self.py()

def mkstr(s): return Str(tuple(ord(c) for c in s))

class RString:
    __slots__ = ('ch',)
    def __init__(self, ch=()): self.ch = list(ch)
    def py(self): return ''.join(chr(c) if isinstance(c, int) else '⁇' for c in self.ch)
    def __repr__(self): return 'String"%s"' % self.py()

class RVec:
    __slots__ = ('items',)
    def __init__(self, items=()): self.items = list(items)
    def __repr__(self): return 'vec' + repr(self.items)

class RBox:
    __slots__ = ('cell',)
    def __init__(self, v): self.cell = [v]
    def __repr__(self): return 'Box(' + repr(self.cell[0]) + ')'

class RSet:
    """HashSet<T>: insertion-ordered list, de-duplicated with the element type's own `==` (interpreted)."""
    __slots__ = ('items',)
    def __init__(self, items=()): self.items = list(items)
    def __repr__(self): return 'set' + repr(self.items)

class RMap:
    __slots__ = ('keys', 'vals')
    def __init__(self): self.keys = []; self.vals = []

class RBSet(RSet):
    """BTreeSet: items kept sorted by the model"""
    __slots__ = ()
class RBMap(RMap):
    """BTreeMap: keys kept sorted by the model"""
    __slots__ = ()
class RRc(RBox):
    """Rc / Arc: clone shares the cell"""
    __slots__ = ()

class FnRef:
    __slots__ = ('name', 'substs')
    def __init__(self, name, substs=None): self.name = name; self.substs = substs or {}
    def __repr__(self): return 'fn<%s>' % self.name[-50:]

class Opaque:
    """something we carry around but never look into (fmt::Arguments, io::Error payloads, hashers...)"""
    __slots__ = ('kind', 'data')
    def __init__(self, kind, data=None): self.kind = kind; self.data = data
    def __repr__(self): return '<%s %r>' % (self.kind, self.data)

class SymReal:
    """a float known only as an exact real number (decimal literal with symbolic digits); only ever compared"""
    __slots__ = ('r', 'neg')
    def __init__(self, r, neg=False): self.r = r; self.neg = neg
    def __repr__(self): return 'symreal'

def is_sym(x):
    return isinstance(x, z3.ExprRef)

def deep_copy(v, memo=None):
    """structural clone (what derive(Clone)/std Clone do); z3 terms and immutables are shared"""
    if isinstance(v, (int, float, bool, str)) or v is UNIT or v is UNINIT or v is None or is_sym(v): return v
    if isinstance(v, Str): return v
    if isinstance(v, Agg): return Agg(v.ty, [deep_copy(x) for x in v.f], v.substs)
    if isinstance(v, Enum): return Enum(v.ty, v.variant, v.idx, [deep_copy(x) for x in v.f])
    if isinstance(v, RString): return RString(v.ch)
    if isinstance(v, RVec): return RVec([deep_copy(x) for x in v.items])
    if isinstance(v, RSet): return type(v)([deep_copy(x) for x in v.items])
    if isinstance(v, RRc): return v
    if isinstance(v, RBox): return RBox(deep_copy(v.cell[0]))
    if isinstance(v, (Ref, SliceRef, FnRef, Opaque, SymReal)): return v
    if isinstance(v, tuple): return v
    if isinstance(v, RMap):
        m = type(v)(); m.keys = [deep_copy(x) for x in v.keys]; m.vals = [deep_copy(x) for x in v.vals]; return m
    raise TypeError('deep_copy: %r' % (v,))
