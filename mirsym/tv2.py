"""TV part 2: formatter, lexical parser/formatter, fold, typst vs native on the repo's own strings"""
import sys, time
from tv import corpus_from_repo
from engine import *
from oracle import Oracle, hexs
from nspec import *
import collections

def attempt(unsup, f):
    try: return ('ok', f())
    except RustPanic as p: return ('panic', None)
    except (Unsupported, Unresolved) as u:
        k = str(u)[:140]; unsup[k] = unsup.get(k, 0) + 1; return None

def run(limit=None, which='format,lex,fold,typst'):
    e = Engine(); e.load(); o = Oracle(); o.build()
    corp = corpus_from_repo(os.path.join(e.work, 'repo'))
    if limit: corp = corp[:limit]
    it0 = e.new_interp()
    efm = {n: enum_format(it0, n.upper()) for n in ('ascii', 'latex', 'han')}
    stats = collections.Counter(); unsup = {}
    lfm = {}
    if 'lex' in which or 'fold' in which:
        for n in efm:
            r = attempt(unsup, lambda: lexical_format(e.new_interp(), n))
            if r: lfm[n] = r[1]
    bad = []
    t = time.time()
    for s in corp:
        cps = [ord(c) for c in s]
        for fn in efm:
            if 'format' in which or 'typst' in which:
                it = e.new_interp()
                r = attempt(unsup, lambda: parse_enum(it, efm[fn], cps))
                if r and r[0] == 'ok' and r[1].variant == 'Ok':
                    val = r[1].f[0]
                    if 'format' in which:
                        for fo in efm:
                            g = attempt(unsup, lambda: format_enum(e.new_interp(), efm[fo], val))
                            if g is None: continue
                            st, want = o.ask('reformat', fn, fo, hexs(s))
                            stats['format'] += 1
                            txt = g[1].py() if g[0] == 'ok' else None
                            if not (st == 'ok' and want[0] == 'Ok' and g[0] == 'ok'): bad.append(('format', fn, fo, s, g, want)); continue
                            if txt != want[1]:
                                # order of unordered components may differ: compare what the text parses to, natively
                                a = o.ask('parse', fo, hexs(txt)); b = o.ask('parse', fo, hexs(want[1]))
                                if a != b: bad.append(('format', fn, fo, s, txt, want[1]))
                                else: stats['format_semantic'] += 1
                    if 'typst' in which:
                        g = attempt(unsup, lambda: typst_format(e.new_interp(), val))
                        if g is not None:
                            st, want = o.ask('typst_of', fn, hexs(s)); stats['typst'] += 1
                            txt = g[1].py() if g[0] == 'ok' else None
                            if not (st == 'ok' and g[0] == 'ok' and want[0] == 'Ok'): bad.append(('typst', fn, s, g, want))
                            elif txt != want[1]:
                                if sorted(txt) != sorted(want[1]): bad.append(('typst', fn, s, txt, want[1]))
                                else: stats['typst_perm'] += 1
            if fn in lfm and ('lex' in which or 'fold' in which):
                it = e.new_interp()
                r = attempt(unsup, lambda: lex_parse(it, lfm[fn], cps))
                if r is None: continue
                st, want = o.ask('lex_parse', fn, hexs(s)); stats['lex_parse'] += 1
                got = ('ok', canon_result(r[1], canon_lex_narsese)) if r[0] == 'ok' else ('panic', None)
                exp = (st, strip_err(want) if st == 'ok' else None)
                if got != exp: bad.append(('lex_parse', fn, s, got, exp)); continue
                if r[0] == 'ok' and r[1].variant == 'Ok':
                    lval = r[1].f[0]
                    if 'lex' in which:
                        g = attempt(unsup, lambda: lex_format(e.new_interp(), lfm[fn], lval))
                        if g is not None:
                            st, want = o.ask('lex_reformat', fn, fn, hexs(s)); stats['lex_format'] += 1
                            if not (g[0] == 'ok' and st == 'ok' and want[0] == 'Ok' and g[1].py() == want[1]): bad.append(('lex_format', fn, s, g, want))
                    if 'fold' in which:
                        g = attempt(unsup, lambda: lex_fold(e.new_interp(), deep_copy(lval), efm[fn]))
                        if g is not None:
                            st, want = o.ask('lex_fold', fn, hexs(s)); stats['fold'] += 1
                            got = ('ok', canon_result(g[1], canon_narsese)) if g[0] == 'ok' else ('panic', None)
                            exp = (st, strip_err(want) if st == 'ok' else None)
                            if got != exp: bad.append(('fold', fn, s, got, exp))
    print(dict(stats), 'mismatches', len(bad), 'unsupported', sum(unsup.values()), 'time', round(time.time() - t, 1))
    for b in bad[:12]: print('MISMATCH', b)
    for k, v in sorted(unsup.items(), key=lambda x: -x[1])[:25]: print('  UNSUPPORTED x%d: %s' % (v, k))
    o.close()
if __name__ == '__main__':
    run(int(sys.argv[1]) if len(sys.argv) > 1 and sys.argv[1] != '-' else None, sys.argv[2] if len(sys.argv) > 2 else 'format,lex,fold,typst')
