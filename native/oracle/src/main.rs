//! Native oracle / replay harness: runs the REAL crate on concrete requests (one per stdin line) and prints a
//! canonical JSON result.  Used for (a) validating the MIR interpreter against the compiled code on every run,
//! (b) replaying solver counterexamples before anything is reported as a violation.
use narsese::api::*;
use narsese::conversion::inter_type::lexical_fold::TryFoldInto;
use narsese::conversion::string::impl_enum::format_instances as ef;
use narsese::conversion::string::impl_enum::NarseseFormat as EnumFormat;
use narsese::conversion::string::impl_lexical::format_instances as lf;
use narsese::conversion::string::impl_lexical::NarseseFormat as LexFormat;
use narsese::conversion::string::typst_formatter::FormatterTypst;
use narsese::enum_narsese::{Budget, Punctuation, Sentence, Stamp, Task, Term, Truth};
use narsese::lexical as lx;
use std::collections::hash_map::DefaultHasher;
use std::collections::HashSet;
use std::hash::{Hash, Hasher};
use std::io::{BufRead, Write};
use std::panic::{catch_unwind, AssertUnwindSafe};

type ENarsese = NarseseValue<Term, Sentence, Task>;

fn js(s: &str) -> String {
    let mut o = String::from("\"");
    for c in s.chars() {
        match c {
            '"' => o.push_str("\\\""),
            '\\' => o.push_str("\\\\"),
            c if (c as u32) < 0x20 || (c as u32) > 0x7e => {
                let mut b = [0u16; 2];
                for u in c.encode_utf16(&mut b) { o.push_str(&format!("\\u{:04x}", u)); }
            }
            c => o.push(c),
        }
    }
    o.push('"');
    o
}
fn jf(f: f64) -> String { format!("{{\"f\":\"{:016x}\"}}", f.to_bits()) }

fn enum_fmt(name: &str) -> &'static EnumFormat<&'static str> {
    match name { "ascii" => &ef::FORMAT_ASCII, "latex" => &ef::FORMAT_LATEX, "han" => &ef::FORMAT_HAN, _ => panic!("format {name}") }
}
fn lex_fmt(name: &str) -> &'static LexFormat {
    match name { "ascii" => &lf::FORMAT_ASCII, "latex" => &lf::FORMAT_LATEX, "han" => &lf::FORMAT_HAN, _ => panic!("format {name}") }
}
fn unhex(s: &str) -> String {
    if s.is_empty() || s == "-" { return String::new(); }
    s.split(',').map(|h| char::from_u32(u32::from_str_radix(h, 16).unwrap()).unwrap()).collect()
}

// ---------------------------------------------------------------- canonical JSON of enum values
fn c_term(t: &Term) -> String {
    use Term::*;
    let set = |name: &str, s: &HashSet<Term>| {
        let mut v: Vec<String> = s.iter().map(c_term).collect(); v.sort();
        format!("[\"{}\",[{}]]", name, v.join(","))
    };
    let vecj = |v: &Vec<Term>| v.iter().map(c_term).collect::<Vec<_>>().join(",");
    let two = |name: &str, a: &Term, b: &Term| format!("[\"{}\",{},{}]", name, c_term(a), c_term(b));
    match t {
        Word(n) => format!("[\"Word\",{}]", js(n)),
        Placeholder => "[\"Placeholder\"]".into(),
        VariableIndependent(n) => format!("[\"VariableIndependent\",{}]", js(n)),
        VariableDependent(n) => format!("[\"VariableDependent\",{}]", js(n)),
        VariableQuery(n) => format!("[\"VariableQuery\",{}]", js(n)),
        Interval(i) => format!("[\"Interval\",\"{}\"]", i),
        Operator(n) => format!("[\"Operator\",{}]", js(n)),
        SetExtension(s) => set("SetExtension", s),
        SetIntension(s) => set("SetIntension", s),
        IntersectionExtension(s) => set("IntersectionExtension", s),
        IntersectionIntension(s) => set("IntersectionIntension", s),
        DifferenceExtension(a, b) => two("DifferenceExtension", a, b),
        DifferenceIntension(a, b) => two("DifferenceIntension", a, b),
        Product(v) => format!("[\"Product\",[{}]]", vecj(v)),
        ImageExtension(i, v) => format!("[\"ImageExtension\",\"{}\",[{}]]", i, vecj(v)),
        ImageIntension(i, v) => format!("[\"ImageIntension\",\"{}\",[{}]]", i, vecj(v)),
        Conjunction(s) => set("Conjunction", s),
        Disjunction(s) => set("Disjunction", s),
        Negation(a) => format!("[\"Negation\",{}]", c_term(a)),
        ConjunctionSequential(v) => format!("[\"ConjunctionSequential\",[{}]]", vecj(v)),
        ConjunctionParallel(s) => set("ConjunctionParallel", s),
        Inheritance(a, b) => two("Inheritance", a, b),
        Similarity(a, b) => two("Similarity", a, b),
        Implication(a, b) => two("Implication", a, b),
        Equivalence(a, b) => two("Equivalence", a, b),
        ImplicationPredictive(a, b) => two("ImplicationPredictive", a, b),
        ImplicationConcurrent(a, b) => two("ImplicationConcurrent", a, b),
        ImplicationRetrospective(a, b) => two("ImplicationRetrospective", a, b),
        EquivalencePredictive(a, b) => two("EquivalencePredictive", a, b),
        EquivalenceConcurrent(a, b) => two("EquivalenceConcurrent", a, b),
    }
}
fn c_truth(t: &Truth) -> String {
    match t { Truth::Empty => "[\"Empty\"]".into(), Truth::Single(f) => format!("[\"Single\",{}]", jf(*f)),
              Truth::Double(f, c) => format!("[\"Double\",{},{}]", jf(*f), jf(*c)) }
}
fn c_budget(b: &Budget) -> String {
    match b { Budget::Empty => "[\"Empty\"]".into(), Budget::Single(p) => format!("[\"Single\",{}]", jf(*p)),
              Budget::Double(p, d) => format!("[\"Double\",{},{}]", jf(*p), jf(*d)),
              Budget::Triple(p, d, q) => format!("[\"Triple\",{},{},{}]", jf(*p), jf(*d), jf(*q)) }
}
fn c_stamp(s: &Stamp) -> String {
    match s { Stamp::Eternal => "[\"Eternal\"]".into(), Stamp::Past => "[\"Past\"]".into(), Stamp::Present => "[\"Present\"]".into(),
              Stamp::Future => "[\"Future\"]".into(), Stamp::Fixed(t) => format!("[\"Fixed\",\"{}\"]", t) }
}
fn c_punct(p: &Punctuation) -> String {
    match p { Punctuation::Judgement => "\"Judgement\"", Punctuation::Goal => "\"Goal\"", Punctuation::Question => "\"Question\"", Punctuation::Quest => "\"Quest\"" }.into()
}
fn c_sentence(s: &Sentence) -> String {
    match s {
        Sentence::Judgement(t, tr, st) => format!("[\"Judgement\",{},{},{}]", c_term(t), c_truth(tr), c_stamp(st)),
        Sentence::Goal(t, tr, st) => format!("[\"Goal\",{},{},{}]", c_term(t), c_truth(tr), c_stamp(st)),
        Sentence::Question(t, st) => format!("[\"Question\",{},{}]", c_term(t), c_stamp(st)),
        Sentence::Quest(t, st) => format!("[\"Quest\",{},{}]", c_term(t), c_stamp(st)),
    }
}
fn c_task(t: &Task) -> String { format!("[\"Task\",{},{}]", c_sentence(&t.0), c_budget(&t.1)) }
fn c_narsese(n: &ENarsese) -> String {
    match n { NarseseValue::Term(t) => format!("[\"Term\",{}]", c_term(t)), NarseseValue::Sentence(s) => format!("[\"Sentence\",{}]", c_sentence(s)),
              NarseseValue::Task(t) => format!("[\"Task\",{}]", c_task(t)) }
}
fn c_res<T, E: std::fmt::Display>(r: &Result<T, E>, f: impl Fn(&T) -> String) -> String {
    match r { Ok(v) => format!("[\"Ok\",{}]", f(v)), Err(e) => format!("[\"Err\",{}]", js(&e.to_string())) }
}

// ---------------------------------------------------------------- canonical JSON of lexical values
fn l_term(t: &lx::Term) -> String {
    match t {
        lx::Term::Atom { prefix, name } => format!("[\"Atom\",{},{}]", js(prefix), js(name)),
        lx::Term::Compound { connecter, terms } => format!("[\"Compound\",{},[{}]]", js(connecter), terms.iter().map(l_term).collect::<Vec<_>>().join(",")),
        lx::Term::Set { left_bracket, terms, right_bracket } => format!("[\"Set\",{},[{}],{}]", js(left_bracket), terms.iter().map(l_term).collect::<Vec<_>>().join(","), js(right_bracket)),
        lx::Term::Statement { copula, subject, predicate } => format!("[\"Statement\",{},{},{}]", js(copula), l_term(subject), l_term(predicate)),
    }
}
fn l_strs(v: &[String]) -> String { format!("[{}]", v.iter().map(|s| js(s)).collect::<Vec<_>>().join(",")) }
fn l_sentence(s: &lx::Sentence) -> String {
    format!("[\"Sentence\",{},{},{},{}]", l_term(&s.term), js(&s.punctuation), js(&s.stamp), l_strs(&s.truth))
}
fn l_task(t: &lx::Task) -> String { format!("[\"Task\",{},{}]", l_strs(&t.budget), l_sentence(&t.sentence)) }
fn l_narsese(n: &lx::Narsese) -> String {
    match n { NarseseValue::Term(t) => format!("[\"Term\",{}]", l_term(t)), NarseseValue::Sentence(s) => format!("[\"Sentence\",{}]", l_sentence(s)),
              NarseseValue::Task(t) => format!("[\"Task\",{}]", l_task(t)) }
}

// ---------------------------------------------------------------- value decoding (prefix tokens)
struct Tok<'a> { t: Vec<&'a str>, i: usize }
impl<'a> Tok<'a> {
    fn next(&mut self) -> &'a str { let x = self.t[self.i]; self.i += 1; x }
}
fn f64_of(h: &str) -> f64 { f64::from_bits(u64::from_str_radix(h, 16).unwrap()) }
fn d_terms(tk: &mut Tok, n: usize) -> Vec<Term> { (0..n).map(|_| d_term(tk)).collect() }
fn d_term(tk: &mut Tok) -> Term {
    let t = tk.next();
    let p: Vec<&str> = t.split(':').collect();
    let n = |i: usize| p[i].parse::<usize>().unwrap();
    match p[0] {
        "W" => Term::new_word(unhex(p[1])), "P" => Term::new_placeholder(),
        "Vi" => Term::new_variable_independent(unhex(p[1])), "Vd" => Term::new_variable_dependent(unhex(p[1])),
        "Vq" => Term::new_variable_query(unhex(p[1])), "O" => Term::new_operator(unhex(p[1])),
        "I" => Term::new_interval(n(1)),
        "SE" => Term::new_set_extension(d_terms(tk, n(1))), "SI" => Term::new_set_intension(d_terms(tk, n(1))),
        "IE" => Term::new_intersection_extension(d_terms(tk, n(1))), "II" => Term::new_intersection_intension(d_terms(tk, n(1))),
        "DE" => { let a = d_term(tk); let b = d_term(tk); Term::new_difference_extension(a, b) }
        "DI" => { let a = d_term(tk); let b = d_term(tk); Term::new_difference_intension(a, b) }
        "PR" => Term::new_product(d_terms(tk, n(1))),
        "ME" => Term::new_image_extension(n(1), d_terms(tk, n(2))), "MI" => Term::new_image_intension(n(1), d_terms(tk, n(2))),
        "CJ" => Term::new_conjunction(d_terms(tk, n(1))), "DJ" => Term::new_disjunction(d_terms(tk, n(1))),
        "NG" => Term::new_negation(d_term(tk)),
        "SQ" => Term::new_conjunction_sequential(d_terms(tk, n(1))), "PA" => Term::new_conjunction_parallel(d_terms(tk, n(1))),
        op => {
            let a = d_term(tk); let b = d_term(tk);
            match op {
                "INH" => Term::new_inheritance(a, b), "SIM" => Term::new_similarity(a, b), "IMP" => Term::new_implication(a, b),
                "EQV" => Term::new_equivalence(a, b), "IMPP" => Term::new_implication_predictive(a, b),
                "IMPC" => Term::new_implication_concurrent(a, b), "IMPR" => Term::new_implication_retrospective(a, b),
                "EQVP" => Term::new_equivalence_predictive(a, b), "EQVC" => Term::new_equivalence_concurrent(a, b),
                "INST" => Term::new_instance(a, b), "PROP" => Term::new_property(a, b), "INSTPROP" => Term::new_instance_property(a, b),
                "EQVR" => Term::new_equivalence_retrospective(a, b),
                _ => panic!("term token {op}"),
            }
        }
    }
}
fn d_truth(tk: &mut Tok) -> Truth {
    let t = tk.next(); let p: Vec<&str> = t.split(':').collect();
    match p[0] { "T0" => Truth::new_empty(), "T1" => Truth::Single(f64_of(p[1])), "T2" => Truth::Double(f64_of(p[1]), f64_of(p[2])), _ => panic!("truth {t}") }
}
fn d_budget(tk: &mut Tok) -> Budget {
    let t = tk.next(); let p: Vec<&str> = t.split(':').collect();
    match p[0] { "B0" => Budget::new_empty(), "B1" => Budget::Single(f64_of(p[1])), "B2" => Budget::Double(f64_of(p[1]), f64_of(p[2])),
                 "B3" => Budget::Triple(f64_of(p[1]), f64_of(p[2]), f64_of(p[3])), _ => panic!("budget {t}") }
}
fn d_stamp(tk: &mut Tok) -> Stamp {
    let t = tk.next(); let p: Vec<&str> = t.split(':').collect();
    match p[1] { "E" => Stamp::Eternal, "P" => Stamp::Past, "N" => Stamp::Present, "F" => Stamp::Future, "X" => Stamp::Fixed(p[2].parse().unwrap()), _ => panic!("stamp {t}") }
}
fn d_punct(tk: &mut Tok) -> Punctuation {
    match tk.next() { "J" => Punctuation::Judgement, "G" => Punctuation::Goal, "Q" => Punctuation::Question, "U" => Punctuation::Quest, t => panic!("punct {t}") }
}
fn d_sentence(tk: &mut Tok) -> Sentence {
    assert_eq!(tk.next(), "S");
    let p = d_punct(tk); let t = d_term(tk); let st = d_stamp(tk); let tr = d_truth(tk);
    Sentence::from_punctuation(t, p, st, tr)
}
fn d_task(tk: &mut Tok) -> Task { assert_eq!(tk.next(), "K"); let b = d_budget(tk); let s = d_sentence(tk); Task::new(s, b) }
fn d_narsese(tk: &mut Tok) -> ENarsese {
    match tk.next() { "NT" => NarseseValue::Term(d_term(tk)), "NS" => NarseseValue::Sentence(d_sentence(tk)), "NK" => NarseseValue::Task(d_task(tk)), t => panic!("narsese {t}") }
}
fn dl_term(tk: &mut Tok) -> lx::Term {
    let t = tk.next(); let p: Vec<&str> = t.split(':').collect();
    match p[0] {
        "LA" => lx::Term::new_atom(unhex(p[1]), unhex(p[2])),
        "LC" => { let n: usize = p[2].parse().unwrap(); let c = unhex(p[1]); lx::Term::new_compound(c, (0..n).map(|_| dl_term(tk)).collect()) }
        "LS" => { let n: usize = p[3].parse().unwrap(); let (l, r) = (unhex(p[1]), unhex(p[2])); let v: Vec<lx::Term> = (0..n).map(|_| dl_term(tk)).collect(); lx::Term::new_set(l, v, r) }
        "LT" => { let c = unhex(p[1]); let a = dl_term(tk); let b = dl_term(tk); lx::Term::new_statement(c, a, b) }
        _ => panic!("lexical term token {t}"),
    }
}
fn dl_strs(tk: &mut Tok) -> Vec<String> { let n: usize = tk.next().parse().unwrap(); (0..n).map(|_| unhex(tk.next())).collect() }
fn dl_narsese(tk: &mut Tok) -> lx::Narsese {
    match tk.next() {
        "LNT" => NarseseValue::Term(dl_term(tk)),
        "LNS" => { let t = dl_term(tk); let p = unhex(tk.next()); let st = unhex(tk.next()); let tr = dl_strs(tk); NarseseValue::Sentence(lx::Sentence::new(t, p, st, tr)) }
        "LNK" => { let b = dl_strs(tk); let t = dl_term(tk); let p = unhex(tk.next()); let st = unhex(tk.next()); let tr = dl_strs(tk); NarseseValue::Task(lx::Task::new(b, t, p, st, tr)) }
        t => panic!("lexical narsese token {t}"),
    }
}
fn h(t: &Term) -> u64 { let mut s = DefaultHasher::new(); t.hash(&mut s); s.finish() }

fn handle(op: &str, a: &[&str]) -> String {
    match op {
        "parse" => c_res(&enum_fmt(a[0]).parse::<ENarsese>(&unhex(a[1])), c_narsese),
        "parse_chars" => c_res(&enum_fmt(a[0]).parse_chars::<ENarsese>(unhex(a[1]).chars().collect()), c_narsese),
        "parse_multi" => {
            let ins: Vec<String> = a[1].split('|').map(unhex).collect();
            let r = enum_fmt(a[0]).parse_multi(ins.iter().map(|s| s.as_str()));
            format!("[{}]", r.iter().map(|x| c_res(x, c_narsese)).collect::<Vec<_>>().join(","))
        }
        "parse_truth" => c_res(&enum_fmt(a[0]).parse::<Truth>(&unhex(a[1])), c_truth),
        "parse_budget" => c_res(&enum_fmt(a[0]).parse::<Budget>(&unhex(a[1])), c_budget),
        "parse_stamp" => c_res(&enum_fmt(a[0]).parse::<Stamp>(&unhex(a[1])), c_stamp),
        "parse_punct" => c_res(&enum_fmt(a[0]).parse::<Punctuation>(&unhex(a[1])), c_punct),
        "format" => { let mut tk = Tok { t: a[1].split(' ').collect(), i: 0 }; js(&enum_fmt(a[0]).format_narsese(&d_narsese(&mut tk))) }
        "cast_ops" => {
            // facts of the sentence<->task casts and the NarseseValue accessors for one value (C15)
            let mut tk = Tok { t: a[0].split(' ').collect(), i: 0 };
            let v = d_narsese(&mut tk);
            let kind = if v.is_term() { "term" } else if v.is_sentence() { "sentence" } else { "task" };
            let it = matches!(v.clone().try_into_term(), Ok(ref t) if ENarsese::from_term(t.clone()) == v);
            let is_ = matches!(v.clone().try_into_sentence(), Ok(ref t) if ENarsese::from_sentence(t.clone()) == v);
            let ik = matches!(v.clone().try_into_task(), Ok(ref t) if ENarsese::from_task(t.clone()) == v);
            let ok_t = v.clone().try_into_term().is_ok(); let ok_s = v.clone().try_into_sentence().is_ok(); let ok_k = v.clone().try_into_task().is_ok();
            let compat = match v.clone().try_into_task_compatible() { Ok(t) => format!("[\"Ok\",{}]", c_narsese(&ENarsese::from_task(t))), Err(_) => "[\"Err\"]".to_string() };
            let mut extra = String::new();
            if let ENarsese::Sentence(s) = &v {
                let t = s.clone().cast_to_task();
                let back = t.clone().try_cast_to_sentence();
                extra = format!(",\"cast_to_task\":{},\"back_equal\":{}", c_narsese(&ENarsese::from_task(t)), matches!(&back, Ok(b) if b == s));
            }
            if let ENarsese::Task(t) = &v {
                let r = t.clone().try_cast_to_sentence();
                extra = match r { Ok(s) => format!(",\"to_sentence\":[\"Ok\",{}]", c_narsese(&ENarsese::from_sentence(s))), Err(t2) => format!(",\"to_sentence\":[\"Err\",{}]", t2 == *t) };
            }
            format!("{{\"kind\":{},\"is\":[{},{},{}],\"ok\":[{},{},{}],\"same\":[{},{},{}],\"compat\":{}{}}}", js(kind), v.is_term(), v.is_sentence(), v.is_task(), ok_t, ok_s, ok_k, it, is_, ik, compat, extra)
        }
        "roundtrip" => {
            let mut tk = Tok { t: a[1].split(' ').collect(), i: 0 };
            let v = d_narsese(&mut tk);
            let s = enum_fmt(a[0]).format_narsese(&v);
            let r = enum_fmt(a[0]).parse::<ENarsese>(&s);
            let eq = matches!(&r, Ok(w) if *w == v);
            format!("{{\"text\":{},\"value\":{},\"parsed\":{},\"equal\":{}}}", js(&s), c_narsese(&v), c_res(&r, c_narsese), eq)
        }
        "typst" => { let mut tk = Tok { t: a[0].split(' ').collect(), i: 0 }; js(&FormatterTypst.format(&d_narsese(&mut tk))) }
        "term_ops" => {
            let mut tk = Tok { t: a[0].split(' ').collect(), i: 0 }; let t = d_term(&mut tk);
            let list = |v: Vec<&Term>| format!("[{}]", v.iter().map(|x| c_term(x)).collect::<Vec<_>>().join(","));
            let cat = format!("{:?}", t.get_category()); let cap = format!("{:?}", t.get_capacity());
            let comps = list(t.get_components()); let incl = list(t.get_components_including_placeholder());
            let cc = match t.get_compound_components() { Some(v) => list(v), None => "null".into() };
            let name = match t.get_atom_name() { Some(n) => js(&n), None => "null".into() };
            let preds = format!("[{},{},{},{},{},{},{},{},{},{},{},{}]", t.is_atom(), t.is_compound(), t.is_statement(), t.is_image(),
                t.is_capacity_atom(), t.is_capacity_unary(), t.is_capacity_binary(), t.is_capacity_binary_vec(), t.is_capacity_binary_set(),
                t.is_capacity_multi(), t.is_capacity_vec(), t.is_capacity_set());
            let ex: Vec<String> = t.clone().extract_terms_to_vec().iter().map(c_term).collect();
            format!("{{\"category\":{},\"capacity\":{},\"components\":{},\"including\":{},\"compound\":{},\"name\":{},\"preds\":{},\"extract\":[{}]}}",
                js(&cat), js(&cap), comps, incl, cc, name, preds, ex.join(","))
        }
        "set_atom_name" => {
            let mut tk = Tok { t: a[0].split(' ').collect(), i: 0 }; let mut t = d_term(&mut tk);
            let r = t.set_atom_name(&unhex(a[1])).is_ok();
            let name = match t.get_atom_name() { Some(n) => js(&n), None => "null".into() };
            format!("{{\"ok\":{},\"term\":{},\"name\":{}}}", r, c_term(&t), name)
        }
        "push_components" => {
            let mut tk = Tok { t: a[0].split(' ').collect(), i: 0 }; let mut t = d_term(&mut tk);
            let cs: Vec<Term> = if a[1] == "-" { vec![] } else { a[1].split('|').map(|x| { let mut k = Tok { t: x.split(' ').collect(), i: 0 }; d_term(&mut k) }).collect() };
            let r = t.push_components(cs).is_ok();
            format!("{{\"ok\":{},\"term\":{}}}", r, c_term(&t))
        }
        "truth_from" => {
            let fs: Vec<f64> = if a[0] == "-" { vec![] } else { a[0].split(',').map(f64_of).collect() };
            c_res(&Truth::try_from_floats(fs.into_iter()), c_truth)
        }
        "budget_from" => {
            let fs: Vec<f64> = if a[0] == "-" { vec![] } else { a[0].split(',').map(f64_of).collect() };
            c_res(&Budget::try_from_floats(fs.into_iter()), c_budget)
        }
        "truth_new" => {
            let fs: Vec<f64> = a[0].split(',').map(f64_of).collect();
            let t = if fs.len() == 1 { Truth::new_single(fs[0]) } else { Truth::new_double(fs[0], fs[1]) };
            c_truth(&t)
        }
        "budget_new" => {
            let fs: Vec<f64> = a[0].split(',').map(f64_of).collect();
            let b = match fs.len() { 1 => Budget::new_single(fs[0]), 2 => Budget::new_double(fs[0], fs[1]), _ => Budget::new_triple(fs[0], fs[1], fs[2]) };
            c_budget(&b)
        }
        "truth_get" => {
            let mut tk = Tok { t: a[0].split(' ').collect(), i: 0 }; let t = d_truth(&mut tk);
            let v = if a[1] == "f" { t.f() } else { t.c() }; jf(v)
        }
        "budget_get" => {
            let mut tk = Tok { t: a[0].split(' ').collect(), i: 0 }; let b = d_budget(&mut tk);
            let v = match a[1] { "p" => b.p(), "d" => b.d(), _ => b.q() }; jf(v)
        }
        "evident" => {
            let x = f64_of(a[0]);
            let valid = x.is_valid(); let tv = x.try_validate().is_ok();
            let vp = catch_unwind(AssertUnwindSafe(|| { x.validate(); })).is_err();
            format!("{{\"is_valid\":{},\"try_ok\":{},\"validate_panics\":{},\"zero\":{},\"one\":{}}}", valid, tv, vp, jf(<f64 as EvidentNumber>::zero()), jf(<f64 as EvidentNumber>::one()))
        }
        "term_eq" => {
            // unordered components iterate in a per-instance random order: rebuild both terms many times
            let (mut eq_all, mut eq_any, mut hash_all, mut contains_all) = (true, false, true, true);
            for _ in 0..64 {
                let mut tk = Tok { t: a[0].split(' ').collect(), i: 0 }; let x = d_term(&mut tk);
                let mut tk = Tok { t: a[1].split(' ').collect(), i: 0 }; let y = d_term(&mut tk);
                let e = x == y; eq_all &= e; eq_any |= e;
                if e { hash_all &= h(&x) == h(&y); let mut set = HashSet::new(); set.insert(x.clone()); contains_all &= set.contains(&y); }
            }
            format!("{{\"eq\":{},\"eq_stable\":{},\"hash_eq\":{},\"set_contains\":{}}}", eq_any, eq_all == eq_any, hash_all, contains_all)
        }
        "reformat" => {
            // parse with format a[0], print with format a[1]
            match enum_fmt(a[0]).parse::<ENarsese>(&unhex(a[2])) {
                Ok(v) => format!("[\"Ok\",{}]", js(&enum_fmt(a[1]).format_narsese(&v))),
                Err(e) => format!("[\"Err\",{}]", js(&e.to_string())),
            }
        }
        "typst_of" => {
            match enum_fmt(a[0]).parse::<ENarsese>(&unhex(a[1])) {
                Ok(v) => format!("[\"Ok\",{}]", js(&FormatterTypst.format(&v))),
                Err(e) => format!("[\"Err\",{}]", js(&e.to_string())),
            }
        }
        "lex_reformat" => {
            match lex_fmt(a[0]).parse(&unhex(a[2])) {
                Ok(v) => format!("[\"Ok\",{}]", js(&lex_fmt(a[1]).format_narsese(&v))),
                Err(e) => format!("[\"Err\",{}]", js(&e.to_string())),
            }
        }
        "lex_rt_value" => {
            let mut tk = Tok { t: a[1].split(' ').collect(), i: 0 };
            let v = dl_narsese(&mut tk);
            let text = lex_fmt(a[0]).format_narsese(&v);
            let r = lex_fmt(a[0]).parse(&text);
            format!("{{\"text\":{},\"value\":{},\"parsed\":{},\"equal\":{}}}", js(&text), l_narsese(&v), c_res(&r, l_narsese), matches!(&r, Ok(w) if *w == v))
        }
        "lex_fold_value" => {
            let mut tk = Tok { t: a[1].split(' ').collect(), i: 0 };
            let v = dl_narsese(&mut tk);
            let f: Result<ENarsese, _> = v.try_fold_into(enum_fmt(a[0])); c_res(&f.map_err(|e| format!("{:?}", e)), c_narsese)
        }
        "perr_new" => {
            let env: Vec<char> = unhex(a[0]).chars().collect();
            let e = narsese::conversion::string::impl_enum::ParseError::new("m", env, a[1].parse::<usize>().unwrap());
            js(&e.to_string())
        }
        "lex_parse" => c_res(&lex_fmt(a[0]).parse(&unhex(a[1])), l_narsese),
        "lex_term_ops" => {
            // lexical term accessors (C14): stored term, consuming extraction, category
            match lex_fmt(a[0]).parse_term(&unhex(a[1])) {
                Ok(t) => {
                    let cat = format!("{:?}", t.get_category());
                    let ext = t.clone().extract_terms_to_vec();
                    format!("[\"Ok\",{{\"term\":{},\"extract\":[{}],\"category\":{}}}]", l_term(&t), ext.iter().map(l_term).collect::<Vec<_>>().join(","), js(&cat))
                }
                Err(_) => "[\"Err\"]".to_string(),
            }
        }
        "lex_history" => {
            // lexical parses of h1|h2|...|hn in order on ONE thread and ONE format instance; the last input is also parsed alone on a fresh thread
            let hs: Vec<String> = a[1].split('|').map(unhex).collect();
            let f = lex_fmt(a[0]);
            let seq: Vec<String> = hs.iter().map(|h| c_res(&f.parse(h), l_narsese)).collect();
            let last = hs.last().cloned().unwrap_or_default(); let fname = a[0].to_string();
            let alone = std::thread::Builder::new().stack_size(256 << 20).spawn(move || c_res(&lex_fmt(&fname).parse(&last), l_narsese)).unwrap().join().unwrap_or_else(|_| "[\"Panic\"]".to_string());
            format!("{{\"seq\":[{}],\"alone\":{}}}", seq.join(","), alone)
        }
        "lex_parse_term" => c_res(&lex_fmt(a[0]).parse_term(&unhex(a[1])), l_term),
        "lex_roundtrip" => {
            let r = lex_fmt(a[0]).parse(&unhex(a[1]));
            match r { Err(e) => format!("[\"Err\",{}]", js(&e.to_string())),
                      Ok(v) => { let s = lex_fmt(a[0]).format_narsese(&v); let r2 = lex_fmt(a[0]).parse(&s);
                                 format!("{{\"value\":{},\"text\":{},\"reparsed\":{},\"equal\":{}}}", l_narsese(&v), js(&s), c_res(&r2, l_narsese), matches!(&r2, Ok(w) if *w == v)) } }
        }
        "lex_fold" => {
            let r = lex_fmt(a[0]).parse(&unhex(a[1]));
            match r { Err(e) => format!("[\"LexErr\",{}]", js(&e.to_string())),
                      Ok(v) => { let f: Result<ENarsese, _> = v.try_fold_into(enum_fmt(a[0])); c_res(&f.map_err(|e| format!("{:?}", e)), c_narsese) } }
        }
        _ => panic!("unknown op {op}"),
    }
}

fn main() {
    std::panic::set_hook(Box::new(|_| {}));
    let stdin = std::io::stdin(); let stdout = std::io::stdout();
    for line in stdin.lock().lines() {
        let line = line.unwrap();
        if line.is_empty() { continue; }
        let parts: Vec<&str> = line.split('\t').collect();
        let id = parts[0]; let op = parts[1];
        // every request runs on a FRESH thread: thread-local state of the library can never leak from one request into the next
        let (op_s, args_s): (String, Vec<String>) = (op.to_string(), parts[2..].iter().map(|x| x.to_string()).collect());
        let r = std::thread::Builder::new().stack_size(256 << 20).spawn(move || {
            let args: Vec<&str> = args_s.iter().map(|x| x.as_str()).collect();
            catch_unwind(AssertUnwindSafe(|| handle(&op_s, &args)))
        }).unwrap().join().unwrap_or_else(|e| Err(e));
        let mut out = stdout.lock();
        match r {
            Ok(s) => writeln!(out, "{}\tok\t{}", id, s).unwrap(),
            Err(e) => {
                let msg = e.downcast_ref::<String>().cloned().or_else(|| e.downcast_ref::<&str>().map(|s| s.to_string())).unwrap_or_default();
                writeln!(out, "{}\tpanic\t{}", id, js(&msg)).unwrap()
            }
        }
        out.flush().unwrap();
    }
}
