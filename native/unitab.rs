// Dumps the exact code-point ranges of the std char predicates used by the crate,
// for the toolchain that builds /repo (so the symbolic model of `char::is_*` is the real table).
fn ranges(name: &str, f: fn(char) -> bool) {
    let mut out: Vec<(u32, u32)> = vec![];
    let mut start: Option<u32> = None;
    for cp in 0..=0x110000u32 {
        let v = match char::from_u32(cp) { Some(c) if cp < 0x110000 => f(c), _ => false };
        match (v, start) {
            (true, None) => start = Some(cp),
            (false, Some(s)) => { out.push((s, cp - 1)); start = None; }
            _ => {}
        }
    }
    let body: Vec<String> = out.iter().map(|(a, b)| format!("[{},{}]", a, b)).collect();
    println!("\"{}\": [{}]", name, body.join(","));
}
fn main() {
    println!("{{");
    ranges("is_alphanumeric", char::is_alphanumeric); println!(",");
    ranges("is_alphabetic", char::is_alphabetic); println!(",");
    ranges("is_numeric", char::is_numeric); println!(",");
    ranges("is_whitespace", char::is_whitespace); println!(",");
    ranges("is_lowercase", char::is_lowercase); println!(",");
    ranges("is_uppercase", char::is_uppercase); println!(",");
    ranges("is_control", char::is_control); println!(",");
    // chars that `{:?}` on a String prints unchanged at any position (not escaped, not quoted)
    ranges("debug_plain", |c| c != '\'' && c.escape_debug().count() == 1);
    println!("}}");
}
