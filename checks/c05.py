"""C05 — the lexical parser and lexical folding are total.

  parser  the REAL lexical parse / parse_term (MIR incl. nar_dev_utils) on every string of <= N chars over all
          Unicode, and on formatter samples cut at every position + one arbitrary char / with one char replaced
  fold    try_fold_into on lexical values built directly with ARBITRARY strings in every field (symbolic chars):
          unknown prefixes / connecters / copulas / brackets, wrong arities (0..3 components for every connecter),
          missing or multiple image placeholders, non-numeric / out-of-range truth and budget strings, malformed
          stamps and punctuation
A panic or step-budget overrun is a candidate violation, replayed natively."""
from common import *
from lexspec import *
import c04

def path_parse(engine, ctx, params):
    it = engine.new_interp(ctx, step_limit=1500000)
    lf = lexical_format(it, params['fmt'])
    chars, holes = sym_chars(ctx, params['template'])
    entry = params['entry']
    try:
        r = lex_parse(it, lf, chars) if entry == 'parse' else lex_parse_term(it, lf, chars)
        m = ctx.model(); inp = concretize(ctx, chars, m)
        canon = canon_result(r, canon_lex_narsese if entry == 'parse' else canon_lex_term, m)
        return {'status': 'ok', 'sample': {'fmt': params['fmt'], 'entry': 'lexical ' + entry, 'input': show(inp), 'outcome': r.variant},
                'extra': {'fns': list(it.fn_seen), 'native': {'op': 'lex_parse' if entry == 'parse' else 'lex_parse_term', 'args': [params['fmt'], hexs(inp)], 'interp': ['ok', canon]}}}
    except RustPanic as p:
        inp = concretize(ctx, chars)
        return {'status': 'violation', 'kind': 'panic', 'stage': 'lexical ' + entry, 'fmt': params['fmt'], 'input': inp, 'message': p.msg[:200], 'where': p.where[-60:], 'fns': list(it.fn_seen)}
    except StepLimit as s:
        inp = concretize(ctx, chars)
        return {'status': 'violation', 'kind': 'steplimit', 'stage': 'lexical ' + entry, 'fmt': params['fmt'], 'input': inp, 'message': str(s), 'where': '', 'fns': list(it.fn_seen)}

def sym_str(ctx, tag, n):
    cs = []
    for j in range(n):
        c = z3.BitVec('%s_%d' % (tag, j), 32); ctx.assume(models_str.valid_char(c)); cs.append(c)
    return cs

def inst(ctx, spec):
    """('any', tag, n) -> n arbitrary chars"""
    if isinstance(spec, tuple) and len(spec) == 3 and spec[0] == 'any': return sym_str(ctx, spec[1], spec[2])
    if isinstance(spec, tuple): return tuple(inst(ctx, x) for x in spec)
    if isinstance(spec, list):
        if spec and any(isinstance(x, int) for x in spec):          # a char list with embedded ('any', tag, n) pieces
            out = []
            for x in spec:
                if isinstance(x, tuple): out += sym_str(ctx, x[1], x[2])
                else: out.append(x)
            return out
        return [inst(ctx, x) for x in spec]
    return spec

def path_fold(engine, ctx, params):
    it = engine.new_interp(ctx, step_limit=800000)
    fmt = get_format(it, params['fmt'])
    spec = inst(ctx, params['spec'])
    v = build_lnarsese(it, spec)
    try:
        r = lex_fold(it, v, fmt)
        m = ctx.model(); cs = conc_lspec(spec, m)
        return {'status': 'ok', 'sample': {'fmt': params['fmt'], 'shape': params['name'], 'value': lnarsese_tokens(cs)[:120], 'outcome': r.variant},
                'extra': {'fns': list(it.fn_seen), 'native': {'op': 'lex_fold_value', 'args': [params['fmt'], lnarsese_tokens(cs)], 'interp': ['ok', canon_result(r, canon_narsese, m)]}}}
    except RustPanic as p:
        m = ctx.model(); cs = conc_lspec(spec, m)
        return {'status': 'violation', 'kind': 'panic', 'stage': 'fold', 'fmt': params['fmt'], 'tokens': lnarsese_tokens(cs), 'shape': params['name'], 'message': p.msg[:200], 'where': p.where[-60:], 'fns': list(it.fn_seen)}
    except StepLimit as s:
        m = ctx.model(); cs = conc_lspec(spec, m)
        return {'status': 'violation', 'kind': 'steplimit', 'stage': 'fold', 'fmt': params['fmt'], 'tokens': lnarsese_tokens(cs), 'shape': params['name'], 'message': str(s), 'where': '', 'fns': list(it.fn_seen)}

def confirm(v, oracle):
    if v['stage'] == 'fold':
        st, p = oracle.ask('lex_fold_value', v['fmt'], v['tokens'])
        return {'confirmed': st in ('panic', 'timeout'), 'why': 'native fold returns', 'replay': {'op': 'lex_fold_value', 'args': [v['fmt'], v['tokens']]}, 'what': 'folding %s panics: %s' % (v['tokens'][:120], p)}
    op = 'lex_parse' if v['stage'].endswith(' parse') else 'lex_parse_term'
    st, p = oracle.ask(op, v['fmt'], hexs(v['input']))
    return {'confirmed': st in ('panic', 'timeout'), 'why': 'native lexical parser returns', 'replay': {'op': op, 'args': [v['fmt'], hexs(v['input'])], 'input': show(v['input'])}, 'what': '%s %s(%r) panics: %s' % (v['fmt'], op, show(v['input']), p)}

def key_of(v): return '%s:%s@%s' % (v['stage'], v['kind'], v['where'].split('::')[-1])

def fold_shapes(kw):
    """lexical values with arbitrary / known strings mixed; kw = enum keyword table of the folder format"""
    any1 = lambda t: ('any', t, 1); any2 = lambda t: ('any', t, 2)
    atom = lambda i: ('LA', '', 'w%d' % i)
    P = ('LA', kw['atom.prefix_placeholder'], '')
    out = []
    out.append(('atom/any-prefix', ('Term', ('LA', any1('p'), any1('n')))))
    out.append(('atom/any-prefix2', ('Term', ('LA', any2('p'), ''))))
    for role in ('prefix_word', 'prefix_variable_independent', 'prefix_interval', 'prefix_operator', 'prefix_placeholder'):
        out.append(('atom/%s/any-name' % role, ('Term', ('LA', kw['atom.' + role], any2('n')))))
        out.append(('atom/%s/empty' % role, ('Term', ('LA', kw['atom.' + role], ''))))
    out.append(('atom/interval-big', ('Term', ('LA', kw['atom.prefix_interval'], '99999999999999999999999'))))
    conns = [kw['compound.' + r] for r in CONNECTER_ROLE.values()] + [kw['atom.prefix_operator']]
    for c in conns:
        for n in (0, 1, 2, 3):
            out.append(('compound/%s/%d' % (c, n), ('Term', ('LC', c, [atom(i) for i in range(n)]))))
    for c in (kw['compound.connecter_image_extension'], kw['compound.connecter_image_intension']):
        out.append(('image/%s/no-placeholder' % c, ('Term', ('LC', c, [atom(0), atom(1)]))))
        out.append(('image/%s/two-placeholders' % c, ('Term', ('LC', c, [P, atom(0), P]))))
        out.append(('image/%s/only-placeholder' % c, ('Term', ('LC', c, [P]))))
        out.append(('image/%s/last' % c, ('Term', ('LC', c, [atom(0), atom(1), P]))))
    out.append(('compound/any-connecter', ('Term', ('LC', any2('c'), [atom(0), atom(1)]))))
    out.append(('set/any-brackets', ('Term', ('LS', any1('l'), [atom(0)], any1('r')))))
    out.append(('set/mismatched', ('Term', ('LS', kw['compound.brackets_set_extension'][0], [atom(0)], kw['compound.brackets_set_intension'][1]))))
    out.append(('set/empty', ('Term', ('LS', kw['compound.brackets_set_extension'][0], [], kw['compound.brackets_set_extension'][1]))))
    out.append(('statement/any-copula', ('Term', ('LT', any2('c'), atom(0), atom(1)))))
    for r in COPULA_ROLE.values():
        out.append(('statement/' + r, ('Term', ('LT', kw['statement.' + r], ('LA', any1('p'), 'x'), atom(1)))))
    stmt = ('LT', kw['statement.copula_inheritance'], atom(0), atom(1))
    J = kw['sentence.punctuation_judgement']
    out.append(('sentence/any-punct', ('Sentence', stmt, any1('q'), '', [])))
    out.append(('sentence/empty-punct', ('Sentence', stmt, '', '', [])))
    out.append(('sentence/any-stamp', ('Sentence', stmt, J, any2('s'), [])))
    sl, sr = kw['sentence.stamp_brackets']
    out.append(('sentence/stamp-fixed-any', ('Sentence', stmt, J, sl + kw['sentence.stamp_fixed'] + 'X' + sr, [])))
    out.append(('sentence/stamp-fixed-sym', ('Sentence', stmt, J, [ord(c) for c in sl + kw['sentence.stamp_fixed']] + [('any', 'd', 2)] + [ord(c) for c in sr], [])))
    out.append(('sentence/stamp-fixed-huge', ('Sentence', stmt, J, sl + kw['sentence.stamp_fixed'] + '9' * 30 + sr, [])))
    out.append(('sentence/stamp-only-left', ('Sentence', stmt, J, sl, [])))
    for tr in ([any2('t')], ['1.5'], ['-0.1'], ['NaN'], ['inf'], ['1e400'], ['0.5', 'x'], ['0.5', '0.5', '0.5'], [''], ['0.5'] * 6, ['1', any1('t')]):
        out.append(('sentence/truth/%s' % '|'.join(str(x) if isinstance(x, str) else 'any' for x in tr), ('Sentence', stmt, J, '', tr)))
    for b in ([any2('b')], ['2'], ['0.5', '-1', '0.1'], ['nan'], ['0.5'] * 5, [''], ['0.1', '0.2', any1('b')]):
        out.append(('task/budget/%s' % '|'.join(str(x) if isinstance(x, str) else 'any' for x in b), ('Task', b, stmt, J, '', ['1'])))
    out.append(('task/question-with-truth', ('Task', ['0.5'], stmt, kw['sentence.punctuation_question'], '', ['1', '0.9'])))
    return out

def flatten_stamp(spec):
    """stamp given as a list mixing ints and ('any',..) -> flat list"""
    def fix(s):
        if isinstance(s, list) and any(isinstance(x, tuple) for x in s) and all(isinstance(x, (int, tuple)) for x in s): return ('concat', s)
        if isinstance(s, tuple): return tuple(fix(x) for x in s)
        if isinstance(s, list): return [fix(x) for x in s]
        return s
    return fix(spec)

def main(tier, seed):
    from framework import Runner, Query
    R = Runner('C05', tier, seed); R.setup()
    quick = tier == 'quick'
    R.assumptions += ['lexical parser: every string of <= N chars (N in query bounds) + corrupted formatter samples; fold: the value shapes listed in checks/c05.py fold_shapes with arbitrary chars where marked',
                      'step budget stands for termination']
    it = R.engine.new_interp()
    n = 2 if quick else 3
    for fmt in FORMATS:
        plist = [dict(fmt=fmt, entry='parse', template=[None] * k) for k in range(0, n + 1)] + [dict(fmt=fmt, entry='term', template=[None] * k) for k in range(0, n + (0 if quick else 1))]
        R.run_query(Query('lexical-all/' + fmt, 'c05', 'path_parse', plist, 'lexical parse and parse_term on every string of <= %d chars over all Unicode' % n), confirm, key_of)
        strs = c04.sample_strings(R.oracle, fmt, 2 if quick else len(c04.SAMPLES))
        plist = []
        for s in strs:
            cps = [ord(c) for c in s]
            for i in range(0, len(cps) + 1):
                plist.append(dict(fmt=fmt, entry='parse', template=cps[:i] + [None]))
                if i < len(cps): plist.append(dict(fmt=fmt, entry='parse', template=cps[:i] + [None] + cps[i + 1:]))
        R.run_query(Query('lexical-corrupt/' + fmt, 'c05', 'path_parse', plist, '%d samples cut / corrupted at every position' % len(strs)), confirm, key_of)
        kw = keyword_table(it, get_format(it, fmt))
        opens = [(kw['compound.brackets_set_extension'][0], kw['compound.brackets_set_extension'][1]), (kw['compound.brackets'][0] + kw['compound.connecter_product'] + kw['compound.separator'], kw['compound.brackets'][1]),
                 (kw['statement.brackets'][0], kw['statement.copula_inheritance'] + 'b' + kw['statement.brackets'][1])]
        plist = []
        for o, c in opens:
            body = [ord(x) for x in o * 64 + 'a']
            plist.append(dict(fmt=fmt, entry='parse', template=body + [None]))
            plist.append(dict(fmt=fmt, entry='parse', template=body + [ord(x) for x in c * 64] + [None]))
        R.run_query(Query('lexical-deep/' + fmt, 'c05', 'path_parse', plist, 'each bracket kind nested 64 deep (open only / closed) + one arbitrary char'), confirm, key_of)
        shapes = fold_shapes(kw)
        plist = []
        for nm, sp in shapes:
            # flatten a stamp given as mixed list
            def fl(s):
                if isinstance(s, list) and s and all(isinstance(x, (int, tuple)) for x in s) and any(isinstance(x, int) for x in s): return s
                return s
            plist.append(dict(fmt=fmt, name=nm, spec=sp))
        R.run_query(Query('fold/' + fmt, 'c05', 'path_fold', plist, '%d lexical value shapes with arbitrary strings' % len(shapes)), confirm, key_of)
    return R.finish(rule='one state = one path of the lexical parser or of try_fold_into', trusted=['rustc MIR (crate + nar_dev_utils)', 'mirsym + std models (validated per path)', 'z3'])
