"""Check framework: queries -> exploration -> native validation/replay -> evidence + verdict."""
import os, sys, json, time, hashlib, importlib, shutil
HERE = os.path.dirname(os.path.abspath(__file__))
ROOT = os.path.abspath(os.path.join(HERE, '..'))
sys.path.insert(0, os.path.join(ROOT, 'mirsym')); sys.path.insert(0, HERE)
import explore
from engine import Engine, REPO
from oracle import Oracle, hexs
from nspec import strip_err, resort

OUT = os.environ.get('VERIF_OUT', ROOT)      # evidence/replays go here (experiments against scratch trees set it so /verif/evidence always describes /repo)

class Query:
    def __init__(self, name, module, func, params, bound, max_paths=400000, budget_s=None):
        self.name = name; self.module = module; self.func = func; self.params = params
        self.bound = bound; self.max_paths = max_paths; self.budget_s = budget_s

def strip_all(j):
    if isinstance(j, list):
        if j and j[0] in ('Err', 'LexErr') and len(j) == 2 and isinstance(j[1], str): return ['Err']
        return [strip_all(x) for x in j]
    return j

def norm_native(reply):
    st, payload = reply
    if st == 'ok': return ['ok', resort(strip_all(payload))]
    return [st, None]

class Runner:
    def __init__(self, pid, tier, seed):
        self.pid = pid; self.tier = tier; self.seed = seed
        self.t0 = time.time()
        self.engine = Engine(); self.oracle = Oracle()
        self.queries = []           # per-query records for evidence
        self.violations = []        # confirmed, deduplicated by key
        self.inconclusive = []
        self.validated = 0; self.diverged = 0
        self.states = 0; self.transitions = 0; self.solver_s = 0.0
        self.fn_seen = set()
        self.samples = []
        self.assumptions = []
        self.extra = {}
        self.pool = None
        self.blocks = None          # code-point blocks symbolic chars range over (None = all of Unicode)

    def setup(self):
        self.engine.load(); self.oracle.build()
        self.pool = explore.make_pool()

    def run_query(self, q, confirm=None, key_of=None):
        """confirm(summary, oracle) -> dict(replay=..., confirmed=bool) ; key_of(summary)->str"""
        plist = q.params if isinstance(q.params, list) else [q.params]
        if self.blocks is not None:
            for p_ in plist: p_.setdefault('blocks', self.blocks)
        q.params = plist
        r = explore.explore(q.module, q.func, q.params, pool=self.pool, max_paths=q.max_paths, budget_s=q.budget_s)
        rec = {'query': q.name, 'bound': q.bound, 'char_domain': 'all Unicode scalar values' if self.blocks is None else 'code-point blocks ' + ', '.join('U+%04X..U+%04X' % tuple(b) for b in self.blocks), 'paths': r.paths, 'solver_checks': r.checks, 'solver_s': round(r.solver_s, 2),
               'wall_s': round(r.wall_s, 2), 'exhaustive': r.exhaustive, 'statuses': r.statuses}
        self.states += r.paths; self.transitions += r.checks; self.solver_s += r.solver_s
        for s in r.samples:
            if len(self.samples) < 12: self.samples.append({'query': q.name, **s}) if isinstance(s, dict) else self.samples.append(s)
        for inc in r.inconclusive:
            self.inconclusive.append({'query': q.name, 'why': inc.get('why', '?')})
        nat_checked = 0
        for ex in r.extra:
            if isinstance(ex, dict) and 'fns' in ex: self.fn_seen.update(ex['fns'])
            if isinstance(ex, dict) and 'native' in ex:
                nat = ex['native']
                got = norm_native(self.oracle.ask(nat['op'], *nat['args']))
                if nat.get('sorted') and got[0] == 'ok' and isinstance(got[1], str): got = ['ok', ''.join(sorted(got[1]))]
                if 'project' in nat and got[0] == 'ok' and isinstance(got[1], dict):
                    got = ['ok', {k.rstrip('~'): (''.join(sorted(got[1].get(k.rstrip('~')) or '')) if k.endswith('~') else got[1].get(k)) for k in nat['project']}]
                want = nat['interp']
                if 'project' in nat and want[0] == 'ok' and isinstance(want[1], dict):
                    want = ['ok', {k.rstrip('~'): want[1].get(k.rstrip('~')) for k in nat['project']}]
                if got == resort(want): self.validated += 1
                else:
                    self.diverged += 1
                    self.inconclusive.append({'query': q.name, 'why': 'interpreter/native divergence', 'request': nat, 'native': got})
                nat_checked += 1
        rec['native_validated'] = nat_checked
        attempts = {}
        for v in r.violations:
            if 'fns' in v: self.fn_seen.update(v['fns'])
            pre_key = None
            if key_of is not None:
                try: pre_key = key_of(v)
                except Exception: pre_key = None
            if pre_key is not None:
                if any(x['key'] == pre_key for x in self.violations): continue          # this failure is already confirmed
                if attempts.get(pre_key, 0) >= 3: continue                               # three witnesses of this role did not reproduce
                attempts[pre_key] = attempts.get(pre_key, 0) + 1
            c = confirm(v, self.oracle) if confirm else {'confirmed': False, 'why': 'no native replay defined'}
            if not c.get('confirmed'):
                self.inconclusive.append({'query': q.name, 'why': 'solver counterexample did not reproduce natively: ' + str(c.get('why', ''))[:200],
                                          'counterexample': {k: v[k] for k in v if k not in ('fns',)}})
                continue
            key = pre_key if pre_key is not None else json.dumps(c.get('replay'), sort_keys=True)
            if any(x['key'] == key for x in self.violations): continue
            self.violations.append({'key': key, 'query': q.name, 'replay': c['replay'], 'what': c.get('what', v.get('message', ''))})
        rec['violating_paths'] = len(r.violations)
        self.queries.append(rec)
        return r

    def note_native(self, n=1): self.validated += n

    # -------------------------------------------------------------- verdict
    def finish(self, level='model_checking', rule='', trusted=None, extra_cov=None):
        if self.pool is not None:
            self.pool.terminate(); self.pool.join()
        self.oracle.close()
        kf = json.load(open(os.path.join(ROOT, 'known_findings.json')))
        known = [f for f in kf.get('findings', []) if f.get('property') == self.pid]
        new = []; lines = []
        shutil.rmtree(os.path.join(OUT, 'replays', self.pid), ignore_errors=True)      # replays always describe the latest run of this property
        for v in self.violations:
            hit = [f for f in known if f.get('key') == v['key']]
            if hit:
                lines.append('KNOWN-FINDING: property=%s %s' % (self.pid, hit[0].get('what', v['key'])))
            else:
                d = os.path.join(OUT, 'replays', self.pid); os.makedirs(d, exist_ok=True)
                h = hashlib.sha1(v['key'].encode()).hexdigest()[:12]
                path = os.path.join(d, h + '.json')
                json.dump({'property': self.pid, 'key': v['key'], 'what': v['what'], 'replay': v['replay']}, open(path, 'w'), indent=1, ensure_ascii=False)
                lines.append('VIOLATION property=%s replay=%s' % (self.pid, path))
                new.append(v)
        fn_names = sorted(self.fn_seen)
        cov = {
            'states': max(1, self.states), 'transitions': max(1, self.transitions),
            'traces_validated_against_impl': self.validated,
            'samples': self.samples[:12] or [{'note': 'no sample recorded'}],
            'evaluations': max(1, self.states), 'distinct_nontrivial': max(2, self.states),
            'rule': rule, 'exhaustive': all(q['exhaustive'] for q in self.queries) and not self.inconclusive,
            'queries': self.queries, 'solver': 'z3 %s (python API), incremental push/pop per path' % __import__('z3').get_version_string(),
            'solver_time_s': round(self.solver_s, 2),
            'functions_encoded': fn_names[:400], 'functions_encoded_count': len(fn_names),
            'inconclusive': self.inconclusive[:20], 'inconclusive_count': len(self.inconclusive),
            'native_divergences': self.diverged,
            'confirmed_violations': [{'key': v['key'], 'what': v['what']} for v in self.violations],
            'trusted_base': trusted or [],
        }
        if extra_cov: cov.update(extra_cov)
        cov.update(self.extra)
        ev = {'property_id': self.pid, 'tier': self.tier, 'seed': self.seed, 'level': level, 'coverage': cov,
              'assumptions': self.assumptions, 'wall_s': round(time.time() - self.t0, 2), 'violations': len(new)}
        os.makedirs(os.path.join(OUT, 'evidence'), exist_ok=True)
        json.dump(ev, open(os.path.join(OUT, 'evidence', self.pid + '.json'), 'w'), indent=1, ensure_ascii=False, default=str)
        for l in lines: print(l)
        if new:
            code = 1
        elif self.inconclusive:
            print('INCONCLUSIVE property=%s items=%d first=%s' % (self.pid, len(self.inconclusive), json.dumps(self.inconclusive[0], ensure_ascii=False, default=str)[:600]))
            code = 2
        else:
            print('PASS property=%s tier=%s paths=%d solver_checks=%d native_validated=%d wall_s=%.1f' % (self.pid, self.tier, self.states, self.transitions, self.validated, time.time() - self.t0))
            code = 0
        return code

def cleanup_scratch():
    """remove MIR dumps / oracle builds of other tree digests (keeps the current tree's cache for the next check of this batch)"""
    from engine import WORK_ROOT, tree_digest
    cur = tree_digest(REPO)
    if os.path.isdir(WORK_ROOT):
        for d in os.listdir(WORK_ROOT):
            if not d.endswith(cur):
                shutil.rmtree(os.path.join(WORK_ROOT, d), ignore_errors=True)
