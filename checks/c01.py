"""C01 — enum values survive format-then-parse (ASCII / LaTeX / Han).

One path = one run of the REAL constructors, formatter, parser and `==` (MIR) on a value whose shape and numbers are
concrete and whose atom names are symbolic strings, assumed well-formed exactly as the property defines it.
The solver decides, for every such name, whether parse(format(v)) == Ok(v); counterexamples are replayed natively."""
from common import *
from shapes import *

def fmt_strings(fmt):
    """all &str fields of a format value, by role"""
    f = fmt.f
    atom = f[2].f; comp = f[3].f; stm = f[4].f
    prefixes = [s.py() for s in atom]
    cop = [s.py() for s in stm[1:]]
    return prefixes, cop

def wf_name(it, ctx, fmt, chars):
    """assume the property's well-formedness of an atom name (a list of z3 chars)"""
    prefixes, copulas = fmt_strings(fmt)
    for c in chars:
        ok = it.call_value(fmt.f[0], [c])            # the format's own identifier predicate (real code)
        if not ctx.branch(ok): raise Infeasible()
    ctx.assume(chars[0] != ord('-')); ctx.assume(chars[-1] != ord('-'))
    for p in prefixes:
        if p and len(p) <= len(chars):
            ctx.assume(z3.Not(z3.And(*[chars[i] == ord(ch) for i, ch in enumerate(p)])))
    for k in copulas:
        for i in range(0, len(chars) - len(k) + 1):
            ctx.assume(z3.Not(z3.And(*[chars[i + j] == ord(ch) for j, ch in enumerate(k)])))

def make_names(it, ctx, fmt, spec):
    names = {}
    for i, n in sorted(sym_ids(spec).items()):
        cs = []
        for j in range(n):
            c = z3.BitVec('n%d_%d' % (i, j), 32); ctx.assume(models_str.valid_char(c)); cs.append(c)
        wf_name(it, ctx, fmt, cs)
        names[i] = cs
    return names

def concrete_names(names, m):
    return {i: ''.join(chr(m.eval(c, model_completion=True).as_long()) for c in cs) for i, cs in names.items()}

def path(engine, ctx, params):
    it = engine.new_interp(ctx, step_limit=600000)
    fmt = get_format(it, params['fmt'])
    spec = params['spec']
    names = make_names(it, ctx, fmt, spec)
    v = build_narsese(it, subst_names(spec, names))
    text = format_enum(it, fmt, v)
    r = parse_enum(it, fmt, list(text.ch))
    verdict = 'ok'
    if r.variant != 'Ok': verdict = 'parse-error'
    else:
        w = r.f[0]
        if w.variant != v.variant: verdict = 'kind-changed'
        else:
            eq = it.call_named('<%s as PartialEq>::eq' % NARSESE_TY, [Ref([v], 0), Ref([w], 0)], ['&' + NARSESE_TY, '&' + NARSESE_TY], 'bool')
            if not ctx.branch(eq): verdict = 'value-changed'
    m = ctx.model()
    cn = concrete_names(names, m)
    cspec = subst_names(spec, cn)
    ctext = ''.join(chr(c if isinstance(c, int) else m.eval(c, model_completion=True).as_long()) for c in text.ch)
    base = {'fns': list(it.fn_seen), 'native': {'op': 'roundtrip', 'args': [params['fmt'], narsese_tokens(cspec)],
            'interp': ['ok', {'text': ''.join(sorted(ctext)), 'equal': verdict == 'ok'}], 'project': ['text~', 'equal']}}
    if verdict == 'ok':
        return {'status': 'ok', 'sample': {'fmt': params['fmt'], 'shape': params['name'], 'names': cn, 'text': ctext}, 'extra': base}
    return {'status': 'violation', 'kind': verdict, 'fmt': params['fmt'], 'shape': params['name'], 'spec': cspec, 'names': cn, 'text': ctext,
            'message': '%s: %s format of %s gives %r which does not parse back to it' % (verdict, params['fmt'], params['name'], ctext), 'fns': list(it.fn_seen)}

def confirm(v, oracle):
    st, payload = oracle.ask('roundtrip', v['fmt'], narsese_tokens(v['spec']))
    if st == 'panic':
        return {'confirmed': True, 'replay': {'op': 'roundtrip', 'args': [v['fmt'], narsese_tokens(v['spec'])]}, 'what': 'panic during round trip: %s' % payload}
    ok = payload.get('equal') is False
    return {'confirmed': ok, 'why': 'native round trip is equal', 'replay': {'op': 'roundtrip', 'args': [v['fmt'], narsese_tokens(v['spec'])], 'text': payload.get('text')},
            'what': '%s: %s format(%s)=%r parses to %s' % (v['kind'], v['fmt'], v['shape'], payload.get('text'), json.dumps(payload.get('parsed'), ensure_ascii=False)[:160])}

KEYWORDS = {}
KW_FULL = {}
def load_keywords(R):
    it = R.engine.new_interp()
    for f in FORMATS:
        fmt = get_format(it, f)
        KEYWORDS[f] = fmt_strings(fmt)
        KW_FULL[f] = keyword_table(it, fmt)

def classify(v):
    """role of a counterexample (used as the known-findings key, so unrelated failures keep distinct keys)"""
    prefixes, copulas = KEYWORDS.get(v['fmt'], ([], []))
    names = list(v['names'].values())
    text = v.get('text', '')
    # a statement whose subject name + copula reads as a different, longer copula (format without separators)
    if True:
        for n in names:
            for k in copulas:
                for k2 in copulas:
                    tx = text if isinstance(text, str) else ''.join(chr(c) for c in text)
                    # the lexical parser deletes EVERY whitespace character before parsing, the enum parser only skips the format's space
                    glued = ''.join(ch for ch in tx if not ch.isspace()) if v.get('pipeline') == 'fold' else tx.replace(' ', '')
                    if k2 != k and len(k2) > len(k) and k2.endswith(k) and n.endswith(k2[:len(k2) - len(k)]) and (n + k) in glued:
                        return 'name-plus-copula-reads-as-longer-copula'
        for n in names:
            for k in copulas:
                tx = text if isinstance(text, str) else ''.join(chr(c) for c in text)
                if any(k.startswith(n[i:]) and len(n[i:]) < len(k) for i in range(len(n))) and tx.rstrip().endswith(n):
                    return 'name-ends-input-with-copula-prefix'
    kwf = KW_FULL.get(v['fmt'])
    if kwf:
        bl, br = kwf['task.budget_brackets']
        for n in names:
            # a name that itself reads as a (possibly empty) budget: opening bracket, digits/separators, closing bracket
            if bl and n.startswith(bl) and br in n[len(bl):] and all(ch.isdigit() or ch in '.' + kwf['task.budget_separator'] for ch in n[len(bl):n.index(br, len(bl))]):
                return 'name-reads-as-budget'
        tl, tr = kwf['sentence.truth_brackets']
        for n in names:
            # lexical parser: a name that ends the input and itself reads as a (possibly empty) truth value
            if tl and tl in n and n.endswith(tr) and all(ch.isdigit() or ch in '.' + kwf['sentence.truth_separator'] for ch in n[n.rindex(tl) + len(tl):len(n) - len(tr)]):
                return 'name-reads-as-truth'
        for n in names:
            # lexical parser: a name that ends the input and whose tail reads as a stamp (tense keyword, or fixed-stamp marker + integer)
            for key in ('sentence.stamp_past', 'sentence.stamp_present', 'sentence.stamp_future'):
                kw_ = kwf.get(key)
                if kw_ and all(ch.isalnum() for ch in kw_) and n.endswith(kw_): return 'name-reads-as-stamp'
            fx = kwf.get('sentence.stamp_fixed')
            if fx and all(ch.isalnum() for ch in fx) and fx in n and (n[n.rindex(fx) + len(fx):].lstrip('+-').isdigit() or n.endswith(fx)): return 'name-reads-as-stamp'
    cls = ''.join('d' if ch.isdigit() else 'a' if ch.isalnum() else 'p' for n in names for ch in n)
    return 'other:%s:%s' % (v['shape'], cls)

def key_of(v):
    c = classify(v)
    return '%s:%s' % (v['fmt'], c) if not c.startswith('other:') else '%s:%s:%s' % (v['fmt'], v['kind'], c)

def subst_names_partial(spec):
    if isinstance(spec, tuple) and len(spec) == 3 and spec[0] == 'sym': return spec if spec[1] == 0 else {1: 'b', 2: 'k'}.get(spec[1], 'm')
    if isinstance(spec, tuple): return tuple(subst_names_partial(x) for x in spec)
    if isinstance(spec, list): return [subst_names_partial(x) for x in spec]
    return spec

def hash_pick(nm, k):
    import zlib
    return zlib.crc32(nm.encode()) % k == 0

def shape_list(tier):
    quick = tier == 'quick'
    shapes = []
    for nm, t in depth1_terms():
        shapes.append((nm, ('Term', t)))
    if not quick:
        for nm, t in depth1_terms(2, 1):
            if nm.startswith(('atom/', 'bin/Inheritance', 'set/SetExtension', 'image/ImageExtension@1')):
                shapes.append((nm + '/len2', ('Term', t)))
    for nm, t in nested_terms():
        shapes.append((nm, ('Term', t)))
    import os
    for nm, t in gen_terms(10 if quick else 120, os.environ.get('VERIF_SEED', '0') or '0'):
        shapes.append((nm, ('Term', t)))
    st_term = ('Inheritance', A(0), A(1))
    ss = sentences(st_term); ts = tasks(st_term)
    if quick:
        ss = [x for i_, x in enumerate(ss) if i_ % 2 == 0 or x[0].startswith('sent/Judgement')]
    shapes += ss + ts
    # atoms as the whole term of a sentence / task (ambiguity between prefixes, budgets, punctuation)
    for nm, t in depth1_terms()[:7]:
        shapes.append(('sent-atom/' + nm, ('Sentence', 'Question', t, ('Eternal',), ())))
        shapes.append(('sent-atom-j/' + nm, ('Sentence', 'Judgement', t, ('Eternal',), ())))
        shapes.append(('sent-atom-g/' + nm, ('Sentence', 'Goal', t, ('Past',), (0.5,))))
        shapes.append(('task-atom/' + nm, ('Task', (0.5,), 'Judgement', t, ('Present',), (1.0,))))
        # every punctuation directly after an atom name (round 5: a name-character class that swallows one format's mark)
        shapes.append(('sent-atom-q/' + nm, ('Sentence', 'Quest', t, ('Fixed', -7), ())))
        shapes.append(('task-atom-q/' + nm, ('Task', (), 'Quest', t, ('Eternal',), ())))
    return shapes

def main(tier, seed):
    from framework import Runner, Query
    R = Runner('C01', tier, seed); R.setup()
    R.blocks = models_str.STD_BLOCKS       # symbolic name chars range over Latin..Latin Ext-B, CJK punctuation + ideographs, fullwidth forms, pictographs (thorough adds an all-Unicode query where noted)
    R.assumptions += ['atom names: 1 symbolic char (thorough: also 2) per name, assumed well-formed per the property (format identifier predicate, no leading atom prefix, no leading/trailing "-", no copula inside)',
                      'numbers are concrete members of the sets in checks/shapes.py (incl. 0, 1, 1e-7, isize::MIN/MAX)',
                      'unordered components are emitted in insertion order (the real HashSet order is arbitrary); both insertion orders of 2-element sets are covered by symmetry of the symbolic names',
                      'std models validated per path against the native crate']
    shapes = shape_list(tier)
    load_keywords(R)
    for fmt in FORMATS:
        use = shapes
        if tier == 'quick' and fmt == 'han':
            # Han identifiers split into ~50 classes per char (every keyword is made of identifier chars): quick keeps
            # every shape but makes only the FIRST name symbolic (the others are the concrete letters b, k); thorough
            # makes all names symbolic
            use = [(nm, sp) for nm, sp in shapes if not nm.startswith(('sent/', 'task/')) or hash_pick(nm, 2)]
        plist = [dict(fmt=fmt, name=nm, spec=sp) for nm, sp in use]
        R.run_query(Query('roundtrip/' + fmt, 'c01', 'path', plist, '%d value shapes (constructors, nestings, sentences x stamps x truths, tasks x budgets), every well-formed name' % len(use)), confirm, key_of)
    if tier != 'quick':
        # every Unicode scalar value as a name char, on the constructor shapes (no code-point restriction)
        small = [x for x in shapes if x[0].startswith(('atom/', 'bin/Inheritance', 'set/SetExtension', 'vec/Product', 'unary/', 'image/ImageExtension@1', 'sent-atom', 'task-atom'))]
        for fmt in FORMATS:
            plist = [dict(fmt=fmt, name=nm, spec=sp, blocks=None) for nm, sp in small]
            R.run_query(Query('roundtrip-all-unicode/' + fmt, 'c01', 'path', plist, '%d shapes, every Unicode scalar value as name char' % len(small)), confirm, key_of)
            R.queries[-1]['char_domain'] = 'all Unicode scalar values'
    return R.finish(rule='one state = one path through constructors+formatter+parser+eq for one shape; all well-formed names of the stated length are covered by the path conditions',
                    trusted=['rustc MIR', 'mirsym + std models (validated per path)', 'z3'])
