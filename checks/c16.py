"""C16 — Typst rendering is total, whitespace-normalised and unambiguous.

Paths run the REAL Typst formatter (MIR) on value shapes with symbolic well-formed names:
  layout      output has no leading / trailing / doubled whitespace for every name (solver-decided over the output chars)
  injective   for pairs of shapes with shared symbolic names: if the two values can be semantically different under the
              path condition, their renderings must not be equal (solver asked for names making them coincide)"""
from common import *
from shapes import *
import c01, c06

def render(it, v):
    it.strict_debug = True
    return list(typst_format(it, v).ch)

def ws(c): return models_str.char_pred('is_whitespace', c)

def names_for(it, ctx, fmt, specs):
    ids = {}
    for s in specs: ids.update(sym_ids(s))
    fake = tuple(('sym', i, n) for i, n in ids.items())
    names = c01.make_names(it, ctx, fmt, fake)
    for cs in names.values():
        for c in cs: ctx.assume(models_str.char_pred('debug_plain', c))     # std's `{:?}` escapes the others (outside the code under test)
    return names

def path_layout(engine, ctx, params):
    it = engine.new_interp(ctx, step_limit=600000)
    fmt = get_format(it, 'ascii')
    spec = params['spec']
    names = names_for(it, ctx, fmt, [spec])
    v = build_narsese(it, subst_names(spec, names))
    out = render(it, v)
    bad = None
    conds = []
    if out:
        conds += [ws(out[0]), ws(out[-1])]
        conds += [z3.And(ws(a), ws(b)) if not (isinstance(a, int) and isinstance(b, int)) else (ws(a) and ws(b)) for a, b in zip(out, out[1:])]
    for c in conds:
        if c is True or (c is not False and ctx._check(c)):
            if c is not True: ctx.assume(c)
            bad = 'rendering has leading/trailing/doubled whitespace'; break
    m = ctx.model(); cn = c01.concrete_names(names, m); ctext = show(concretize(ctx, out, m))
    cspec = subst_names(spec, cn)
    if bad is None:
        return {'status': 'ok', 'sample': {'shape': params['name'], 'typst': ctext}, 'extra': {'fns': list(it.fn_seen), 'native': {'op': 'typst', 'args': [narsese_tokens(cspec)], 'interp': ['ok', ''.join(sorted(ctext))], 'sorted': True}}}
    return {'status': 'violation', 'kind': 'layout', 'shape': params['name'], 'what': bad, 'tokens': [narsese_tokens(cspec)], 'message': bad + ': ' + repr(ctext), 'fns': list(it.fn_seen)}

def nref_eq(a, b):
    """reference semantic equality of narsese specs"""
    if a[0] != b[0]: return False
    if a[0] == 'Term': return c06.ref_eq(a[1], b[1])
    if a[0] == 'Sentence':
        if a[1] != b[1] or a[3] != b[3] or a[4] != b[4]: return False
        return c06.ref_eq(a[2], b[2])
    if a[1] != b[1] or a[2] != b[2] or a[4] != b[4] or a[5] != b[5]: return False
    return c06.ref_eq(a[3], b[3])

def path_pair(engine, ctx, params):
    it = engine.new_interp(ctx, step_limit=600000)
    fmt = get_format(it, 'ascii')
    sa, sb = params['specs']
    names = names_for(it, ctx, fmt, [sa, sb])
    xa, xb = subst_names(sa, names), subst_names(sb, names)
    va, vb = build_narsese(it, xa), build_narsese(it, xb)
    oa, ob = render(it, va), render(it, vb)
    ref = nref_eq(xa, xb)
    bad = None
    if len(oa) == len(ob):
        same = c06.zand([(x == y) if not (isinstance(x, int) and isinstance(y, int)) else (x == y) for x, y in zip(oa, ob)])
        differ = True if ref is False else (False if ref is True else z3.Not(ref))
        cond = c06.zand([same, differ])
        if cond is True or (cond is not False and ctx._check(cond)):
            if cond is not True: ctx.assume(cond)
            bad = 'two different values render to the same Typst text'
    m = ctx.model(); cn = c01.concrete_names(names, m)
    ca, cb = subst_names(sa, cn), subst_names(sb, cn)
    ta, tb = show(concretize(ctx, oa, m)), show(concretize(ctx, ob, m))
    if bad is None:
        return {'status': 'ok', 'sample': {'pair': params['name'], 'a': ta, 'b': tb}, 'extra': {'fns': list(it.fn_seen)}}
    return {'status': 'violation', 'kind': 'ambiguous', 'shape': params['name'], 'what': bad, 'tokens': [narsese_tokens(ca), narsese_tokens(cb)], 'message': '%s: %r' % (bad, ta), 'fns': list(it.fn_seen)}

def confirm(v, oracle):
    outs = [oracle.ask('typst', t) for t in v['tokens']]
    rp = {'op': 'typst', 'args': [v['tokens'][0]], 'other': v['tokens'][1:]}
    if any(o[0] == 'panic' for o in outs): return {'confirmed': True, 'replay': rp, 'what': 'typst rendering panics: %s' % outs}
    if v['kind'] == 'layout':
        s = outs[0][1]
        bad = s != s.strip() or any(a.isspace() and b.isspace() for a, b in zip(s, s[1:]))
        return {'confirmed': bad, 'why': 'native rendering is normalised', 'replay': rp, 'what': '%s: %r' % (v['what'], s)}
    same = outs[0][1] == outs[1][1]
    eq = oracle.ask('roundtrip', 'ascii', v['tokens'][0])[1]['value'] == oracle.ask('roundtrip', 'ascii', v['tokens'][1])[1]['value']
    return {'confirmed': same and not eq, 'why': 'native renderings differ', 'replay': rp, 'what': '%s and %s both render as %r' % (v['tokens'][0], v['tokens'][1], outs[0][1])}

def key_of(v): return '%s:%s' % (v['kind'], v['shape'])

def main(tier, seed):
    from framework import Runner, Query
    import itertools
    R = Runner('C16', tier, seed); R.setup()
    R.blocks = [(0, 0x24F)] if tier == 'quick' else models_str.STD_BLOCKS
    quick = tier == 'quick'
    R.assumptions += ['names: 1 symbolic well-formed char (ASCII-format notion of well-formed); shapes of shapes.py; pairs = all pairs of depth-1 terms over the same two names plus sentence/task pairs differing in one item',
                      'unordered components are rendered in insertion order', 'name chars range over the code-point blocks given per query and are those std prints unescaped under {:?} (the Typst formatter quotes names with Debug formatting)']
    shapes = c01.shape_list(tier)
    if quick: shapes = [x for x in shapes if not x[0].startswith(('sent/', 'task/'))] + [x for x in shapes if x[0].startswith(('sent/', 'task/'))][::4]
    R.run_query(Query('layout', 'c16', 'path_layout', [dict(name=nm, spec=sp) for nm, sp in shapes], '%d value shapes' % len(shapes)), confirm, key_of)
    d1 = [(nm, ('Term', t)) for nm, t in depth1_terms()]
    a_, b_, c_ = A(0), A(1), ('Word', 'k')
    for k_ in ('Product', 'ConjunctionSequential', 'Conjunction', 'IntersectionExtension'):
        d1 += [('three/%s/abc' % k_, ('Term', (k_, [a_, b_, c_]))), ('three/%s/cab' % k_, ('Term', (k_, [c_, a_, b_]))), ('three/%s/bac' % k_, ('Term', (k_, [b_, a_, c_])))]
    for k_ in ('ImageExtension', 'ImageIntension'):
        d1 += [('three/%s/%d' % (k_, i_), ('Term', (k_, i_, [a_, b_, c_]))) for i_ in range(4)] + [('three/%s/swap' % k_, ('Term', (k_, 1, [c_, b_, a_])))]
    pairs = [('%s~%s' % (a[0], b[0]), [a[1], b[1]]) for a, b in itertools.combinations(d1, 2)]
    st = ('Inheritance', A(0), A(1))
    ss = sentences(st); ts = tasks(st)
    items = ss[:: (5 if quick else 1)] + ts[:: (3 if quick else 1)]
    pairs += [('%s~%s' % (a[0], b[0]), [a[1], b[1]]) for a, b in itertools.combinations(items, 2)]
    if quick: pairs = pairs[::2]
    # operand order of every ordered binary constructor / ordered container must be visible in the rendering (always checked)
    sw = []
    for k_ in ('DifferenceExtension', 'DifferenceIntension', 'Inheritance', 'Implication', 'ImplicationPredictive', 'ImplicationConcurrent', 'ImplicationRetrospective', 'EquivalencePredictive'):
        sw.append(('swapped/' + k_, [('Term', (k_, a_, b_)), ('Term', (k_, b_, a_))]))
        sw.append(('swapped-nested/' + k_, [('Term', ('Inheritance', (k_, a_, b_), c_)), ('Term', ('Inheritance', (k_, b_, a_), c_))]))
    for k_ in ('Product', 'ConjunctionSequential'):
        sw.append(('swapped/' + k_, [('Term', (k_, [a_, b_])), ('Term', (k_, [b_, a_]))]))
    for k_ in ('ImageExtension', 'ImageIntension'):
        sw += [('swapped/%s@%d' % (k_, i_), [('Term', (k_, i_, [a_, b_])), ('Term', (k_, i_, [b_, a_]))]) for i_ in (0, 1, 2)]
    pairs = sw + pairs
    R.run_query(Query('pairs', 'c16', 'path_pair', [dict(name=nm, specs=sp) for nm, sp in pairs], '%d pairs of value shapes' % len(pairs)), confirm, key_of)
    return R.finish(rule='one state = one path rendering one value (or a pair); obligations decided by z3 over the output characters', trusted=['rustc MIR', 'mirsym + std models (validated per path)', 'z3'])
