"""C12 — every Ok value of the enum parser / of folding is well-formed and can be printed.

Paths: the REAL parser on all short strings and on corrupted samples; lexical parse + fold on the same inputs; for each
Ok result the well-formedness predicate is decided under the path condition (symbolic numbers: the solver is asked for a
value outside [0,1]); then the value is pushed through all three formatters and the Typst renderer."""
from common import *
import c04

def wf_term(ctx, t, path='term', parser=True):
    """-> None or a description of the first violated clause; may consult the solver for symbolic leaves"""
    t = unbox(t); k = t.variant
    if k in TERM_ATOMS:
        if len(t.f[0].ch) == 0: return path + ': empty atom name'
        return None
    if k in ('Placeholder', 'Interval'): return None
    if k in TERM_SETS:
        if parser and len(t.f[0].items) == 0: return path + ': empty ' + k
        for i, x in enumerate(t.f[0].items):
            r = wf_term(ctx, x, '%s/%s[%d]' % (path, k, i), parser)
            if r: return r
        return None
    if k in TERM_VECS or k in TERM_IMAGES:
        items = t.f[-1].items
        if k in TERM_IMAGES:
            idx = t.f[0]
            if is_sym(idx):
                if ctx.branch(z3.UGT(idx, len(items))): return path + ': image index beyond component count'
            elif idx > len(items): return path + ': image index %d > %d components' % (idx, len(items))
        if parser and len(items) == 0 and k not in TERM_IMAGES: return path + ': empty ' + k
        for i, x in enumerate(items):
            r = wf_term(ctx, x, '%s/%s[%d]' % (path, k, i), parser)
            if r: return r
        return None
    for i, x in enumerate(t.f):
        r = wf_term(ctx, x, '%s/%s.%d' % (path, k, i), parser)
        if r: return r
    return None

def in01(ctx, x):
    if isinstance(x, float): return 0.0 <= x <= 1.0
    if isinstance(x, SymReal): return not ctx.branch(z3.Or(x.r < 0, x.r > 1))
    if is_sym(x) and z3.is_fp(x): return not ctx.branch(z3.Not(z3.And(z3.fpLEQ(z3.FPVal(0.0, z3.Float64()), x), z3.fpLEQ(x, z3.FPVal(1.0, z3.Float64())))))
    return True

def wf_narsese(ctx, v, parser=True):
    def nums(e, what):
        for i, x in enumerate(e.f):
            if not in01(ctx, x): return '%s component %d outside [0,1]' % (what, i)
    if v.variant == 'Term': return wf_term(ctx, v.f[0], 'term', parser)
    s = v.f[0] if v.variant == 'Sentence' else v.f[0].f[0]
    r = wf_term(ctx, s.f[0], 'term', parser)
    if r: return r
    if s.variant in ('Judgement', 'Goal'):
        r = nums(s.f[1], 'truth')
        if r: return r
    if v.variant == 'Task':
        r = nums(v.f[0].f[1], 'budget')
        if r: return r
    return None

def print_all(it, v):
    """format in the three formats + typst; returns None or 'panic ...'"""
    for f in FORMATS:
        format_enum(it, get_format(it, f), v)
    typst_format(it, v)

def path(engine, ctx, params):
    it = engine.new_interp(ctx, step_limit=900000)
    fmt = get_format(it, params['fmt'])
    chars, holes = sym_chars(ctx, params['template'])
    pipeline = params.get('pipeline', 'enum')
    if pipeline == 'enum':
        r = parse_enum(it, fmt, chars)
    else:
        lf = lexical_format(it, params['fmt'])
        lr = lex_parse(it, lf, chars)
        if lr.variant != 'Ok':
            m = ctx.model(); inp = concretize(ctx, chars, m)
            return {'status': 'ok', 'sample': {'fmt': params['fmt'], 'pipeline': pipeline, 'input': show(inp), 'outcome': 'LexErr'}, 'extra': {'fns': list(it.fn_seen)}}
        r = lex_fold(it, lr.f[0], fmt)
    bad = None; stage = 'wf'
    if r.variant == 'Ok':
        bad = wf_narsese(ctx, r.f[0], parser=(pipeline == 'enum'))
        if bad is None:
            try: print_all(it, pin_numbers(ctx, deep_copy(r.f[0])))
            except RustPanic as p:
                bad = 'printing the value panics: ' + p.msg[:120]; stage = 'print'
    m = ctx.model(); inp = concretize(ctx, chars, m)
    if bad is None:
        out = {'status': 'ok', 'sample': {'fmt': params['fmt'], 'pipeline': pipeline, 'input': show(inp), 'outcome': r.variant}, 'extra': {'fns': list(it.fn_seen)}}
        if pipeline == 'enum':
            out['extra']['native'] = {'op': 'parse', 'args': [params['fmt'], hexs(inp)], 'interp': ['ok', canon_result(r, canon_narsese, m)]}
        else:
            out['extra']['native'] = {'op': 'lex_fold', 'args': [params['fmt'], hexs(inp)], 'interp': ['ok', canon_result(r, canon_narsese, m)]}
        return out
    return {'status': 'violation', 'kind': 'ill-formed', 'stage': stage, 'what': bad, 'fmt': params['fmt'], 'pipeline': pipeline, 'input': inp,
            'value': canon_result(r, canon_narsese, m), 'message': bad, 'fns': list(it.fn_seen)}

def native_wf(j):
    """well-formedness of an oracle canonical value"""
    def term(t):
        k = t[0]
        if k in TERM_ATOMS: return None if t[1] != '' else 'empty atom name'
        if k in ('Placeholder', 'Interval'): return None
        if k in TERM_IMAGES:
            if int(t[1]) > len(t[2]): return 'image index beyond component count'
            kids = t[2]
        elif k in TERM_SETS or k in TERM_VECS:
            if len(t[1]) == 0: return 'empty ' + k
            kids = t[1]
        else: kids = t[1:]
        for x in kids:
            r = term(x)
            if r: return r
    def nums(e):
        from oracle import bits_to_f
        for x in e[1:]:
            f = bits_to_f(x['f'])
            if not (0.0 <= f <= 1.0): return 'number outside [0,1]'
    if j[0] == 'Term': return term(j[1])
    s = j[1] if j[0] == 'Sentence' else j[1][1]
    r = term(s[1])
    if r: return r
    if s[0] in ('Judgement', 'Goal'):
        r = nums(s[2])
        if r: return r
    if j[0] == 'Task': return nums(j[1][2])

def confirm(v, oracle):
    op = 'parse' if v['pipeline'] == 'enum' else 'lex_fold'
    st, payload = oracle.ask(op, v['fmt'], hexs(v['input']))
    rp = {'op': op, 'args': [v['fmt'], hexs(v['input'])], 'input': show(v['input'])}
    if st == 'panic': return {'confirmed': True, 'replay': rp, 'what': 'panic: %s' % payload}
    if payload[0] != 'Ok': return {'confirmed': False, 'why': 'native result is not Ok'}
    if v['stage'] == 'print':
        bad = []
        for f in FORMATS:
            st2, p2 = oracle.ask('reformat', v['fmt'], f, hexs(v['input']))
            if st2 == 'panic': bad.append('%s formatter panics: %s' % (f, p2))
        st2, p2 = oracle.ask('typst_of', v['fmt'], hexs(v['input']))
        if st2 == 'panic': bad.append('typst panics: %s' % p2)
        return {'confirmed': bool(bad) and v['pipeline'] == 'enum', 'replay': rp, 'what': '; '.join(bad), 'why': 'printing does not panic natively'}
    r = native_wf(payload[1])
    return {'confirmed': r is not None, 'why': 'native value is well-formed', 'replay': rp,
            'what': '%s %s(%r) = Ok(%s): %s' % (v['fmt'], op, show(v['input']), json.dumps(payload[1], ensure_ascii=False)[:140], r)}

def key_of(v):
    return '%s:%s:%s' % (v['pipeline'], v['stage'], re.sub(r'\[\d+\]|\d+', '#', v['what'])[:60])
import re

def main(tier, seed):
    from framework import Runner, Query
    R = Runner('C12', tier, seed); R.setup()
    quick = tier == 'quick'
    R.assumptions += ['inputs: all strings of length <= N over all Unicode (N in the query bounds) and formatter samples with one arbitrary char at every position; longer garbage is outside the claim',
                      'symbolic decimal literals are exact reals; comparison with 0 and 1 is exact because f64 rounding is monotone and 0, 1 are representable']
    n = 2 if quick else 3
    for fmt in FORMATS:
        plist = [dict(fmt=fmt, template=[None] * k) for k in range(0, n + 1)]
        R.run_query(Query('enum-all/' + fmt, 'c12', 'path', plist, 'enum parser, every string of <= %d chars' % n), confirm, key_of)
        # numbers: truth/budget with symbolic digits
        strs = c04.sample_strings(R.oracle, fmt, 2 if quick else len(c04.SAMPLES))
        plist = []
        for s in strs:
            cps = [ord(c) for c in s]
            idxs = [i for i, c in enumerate(cps) if chr(c).isdigit() or chr(c) == '.']
            others = list(range(0, len(cps), 3 if quick else 1))
            for i in sorted(set(idxs + others)):
                plist.append(dict(fmt=fmt, template=cps[:i] + [None] + cps[i + 1:]))
            for i in idxs[:6]:
                for j in idxs:
                    if j > i and j - i <= 2: plist.append(dict(fmt=fmt, template=cps[:i] + [None] + cps[i + 1:j] + [None] + cps[j + 1:]))
        R.run_query(Query('enum-corrupt/' + fmt, 'c12', 'path', plist, '%d samples, arbitrary char at digit positions (single and adjacent pairs) and every %s position' % (len(strs), '3rd' if quick else '')), confirm, key_of)
        plist2 = [dict(p, pipeline='fold') for p in plist[:: (2 if quick else 1)]] + [dict(p, pipeline='fold') for p in plist if sum(1 for x in p['template'] if x is None) == 1 and chr(([c for c in [ord('0')]][0])) and any(x is None and i_ > 0 and p['template'][i_ - 1] is not None and chr(p['template'][i_ - 1]) in '0123456789.;$%' for i_, x in enumerate(p['template']))] + [dict(fmt=fmt, template=[None] * k, pipeline='fold') for k in range(0, n)]
        R.run_query(Query('fold/' + fmt, 'c12', 'path', plist2, 'lexical parse + fold on the same corrupted samples and on all strings of < %d chars' % n), confirm, key_of)
    return R.finish(rule='one state = one path of parser (or lexical parser + fold) + wf predicate + 3 formatters + typst', trusted=['rustc MIR', 'mirsym + std models (validated per path)', 'z3'])
