"""C11 — ASCII output conforms to the published CommonNarsese grammar (README "Standard ASCII Lexicon").

  lexicon   the ASCII keyword tables (enum constant and lexical instance, evaluated from the current MIR) equal the
            OpenNARS-compatible lexicon, role by role
  enum      for every value shape, the REAL enum ASCII formatter output (symbolic names: letters / digits / '_' /
            inner '-') is parsed by the REAL lexical ASCII parser (MIR) and by a reference recogniser transcribed from
            the README PEG; the grammar must accept the whole string with the same kind and the same tree
  lexical   the same for the lexical ASCII formatter on lexical value shapes (format's own vocabulary, any arity)
The PEG recogniser runs on the solver's witness of each path (one per class of names the implementation distinguishes)."""
from common import *
from shapes import *
import c01, c02, peg
from lexspec import *

LEXICON = {'atom.prefix_word': '', 'atom.prefix_placeholder': '_', 'atom.prefix_variable_independent': '$', 'atom.prefix_variable_dependent': '#', 'atom.prefix_variable_query': '?',
           'atom.prefix_interval': '+', 'atom.prefix_operator': '^', 'compound.brackets': ('(', ')'), 'compound.separator': ',', 'compound.brackets_set_extension': ('{', '}'),
           'compound.brackets_set_intension': ('[', ']'), 'compound.connecter_intersection_extension': '&', 'compound.connecter_intersection_intension': '|',
           'compound.connecter_difference_extension': '-', 'compound.connecter_difference_intension': '~', 'compound.connecter_product': '*', 'compound.connecter_image_extension': '/',
           'compound.connecter_image_intension': '\\', 'compound.connecter_conjunction': '&&', 'compound.connecter_disjunction': '||', 'compound.connecter_negation': '--',
           'compound.connecter_conjunction_sequential': '&/', 'compound.connecter_conjunction_parallel': '&|', 'statement.brackets': ('<', '>'), 'statement.copula_inheritance': '-->',
           'statement.copula_similarity': '<->', 'statement.copula_implication': '==>', 'statement.copula_equivalence': '<=>', 'statement.copula_instance': '{--', 'statement.copula_property': '--]',
           'statement.copula_instance_property': '{-]', 'statement.copula_implication_predictive': '=/>', 'statement.copula_implication_concurrent': '=|>',
           'statement.copula_implication_retrospective': '=\\>', 'statement.copula_equivalence_predictive': '</>', 'statement.copula_equivalence_concurrent': '<|>',
           'statement.copula_equivalence_retrospective': '<\\>', 'sentence.punctuation_judgement': '.', 'sentence.punctuation_goal': '!', 'sentence.punctuation_question': '?',
           'sentence.punctuation_quest': '@', 'sentence.stamp_brackets': (':', ':'), 'sentence.stamp_past': '\\', 'sentence.stamp_present': '|', 'sentence.stamp_future': '/',
           'sentence.stamp_fixed': '!', 'sentence.truth_brackets': ('%', '%'), 'sentence.truth_separator': ';', 'task.budget_brackets': ('$', '$'), 'task.budget_separator': ';'}

def path_lexicon(engine, ctx, params):
    it = engine.new_interp(ctx)
    kw = keyword_table(it, get_format(it, 'ascii'))
    bad = [(k, kw.get(k), v) for k, v in LEXICON.items() if kw.get(k) != v]
    voc = lex_vocab(it, lexical_format(it, 'ascii'))
    exp = {'prefixes': sorted(LEXICON['atom.' + r] for r in ATOM_ROLE.values()), 'connecters': sorted(LEXICON['compound.' + r] for r in CONNECTER_ROLE.values()),
           'copulas': sorted(LEXICON['statement.' + r] for r in COPULA_ROLE.values()), 'punctuations': sorted(LEXICON['sentence.punctuation_' + p] for p in ('judgement', 'goal', 'question', 'quest')),
           'set_brackets': sorted([LEXICON['compound.brackets_set_extension'], LEXICON['compound.brackets_set_intension']]), 'brackets': ('(', ')'), 'separator': ',', 'stmt_brackets': ('<', '>'),
           'truth_brackets': ('%', '%'), 'truth_separator': ';', 'budget_brackets': ('$', '$'), 'budget_separator': ';',
           'stamp_brackets': sorted([('', ':|:'), ('', ':\\:'), ('', ':/:'), (':!', ':')])}
    for k, v in exp.items():
        got = voc[k]
        if isinstance(v, list): got = sorted(tuple(x) if isinstance(x, (list, tuple)) else x for x in got); v = sorted(tuple(x) if isinstance(x, (list, tuple)) else x for x in v)
        if got != v: bad.append(('lexical.' + k, voc[k], v))
    if not bad: return {'status': 'ok', 'sample': {'lexicon entries': len(LEXICON) + len(exp)}, 'extra': {'fns': list(it.fn_seen)}}
    return {'status': 'violation', 'kind': 'lexicon', 'what': 'ASCII keyword differs from the lexicon: %s' % bad[:3], 'bad': [list(map(str, b)) for b in bad], 'message': str(bad[:3]), 'fns': list(it.fn_seen)}

def _gc_tables():
    import unicodedata
    if 'gc_letter' in models_str.UNITAB: return
    for name, first in (('gc_letter', 'L'), ('gc_number', 'N')):
        rs = []; start = None
        for cp in range(0x110000):
            v = unicodedata.category(chr(cp))[0] == first
            if v and start is None: start = cp
            elif not v and start is not None: rs.append([start, cp - 1]); start = None
        if start is not None: rs.append([start, 0x10FFFF])
        models_str.UNITAB[name] = rs

def restrict_names(ctx, names):
    """the property's name alphabet: letters, digits, '_' and inner '-' (ASCII letters/digits plus arbitrary Unicode letters)"""
    for cs in names.values():
        for i, c in enumerate(cs):
            _gc_tables()
            ok = [models_str.char_pred('gc_letter', c), models_str.char_pred('gc_number', c), c == ord('_')]
            if 0 < i < len(cs) - 1: ok.append(c == ord('-'))
            ctx.assume(z3.Or(*ok))

def compare(ctx, it, text, lr, kind):
    m = ctx.model()
    ctext = show(concretize(ctx, list(text), m))
    acc, tree = peg.parse(ctext)
    lex = canon_result(lr, canon_lex_narsese, m)
    bad = None
    if not acc: bad = 'the README grammar does not accept %r as a whole (%s)' % (ctext, tree[0] if tree else 'no parse')
    elif tree[0] != kind: bad = 'the grammar classifies %r as %s, the value is a %s' % (ctext, tree[0], kind)
    elif lex != ['Ok', tree]: bad = 'grammar tree and lexical parser disagree on %r: %s vs %s' % (ctext, json.dumps(tree, ensure_ascii=False)[:120], json.dumps(lex, ensure_ascii=False)[:120])
    return bad, ctext, lex

def path_enum(engine, ctx, params):
    it = engine.new_interp(ctx, step_limit=900000)
    fmt = get_format(it, 'ascii'); lf = lexical_format(it, 'ascii')
    spec = params['spec']
    names = c01.make_names(it, ctx, fmt, spec)
    restrict_names(ctx, names)
    v = build_narsese(it, subst_names(spec, names))
    text = format_enum(it, fmt, v)
    lr = lex_parse(it, lf, list(text.ch))
    bad, ctext, lex = compare(ctx, it, text.ch, lr, v.variant)
    if bad is None:
        return {'status': 'ok', 'sample': {'formatter': 'enum', 'shape': params['name'], 'text': ctext}, 'extra': {'fns': list(it.fn_seen), 'native': {'op': 'lex_parse', 'args': ['ascii', hexs(ctext)], 'interp': ['ok', lex]}}}
    cn = c01.concrete_names(names, ctx.model())
    return {'status': 'violation', 'kind': 'enum-output', 'shape': params['name'], 'what': bad, 'text': ctext, 'tokens': narsese_tokens(subst_names(spec, cn)), 'value_kind': v.variant, 'message': bad, 'fns': list(it.fn_seen)}

def path_lexical(engine, ctx, params):
    it = engine.new_interp(ctx, step_limit=900000)
    lf = lexical_format(it, 'ascii'); voc = lex_vocab(it, lf)
    spec = c02.instantiate(it, ctx, voc, params['spec'])
    memo = {}
    def collect(s):
        if isinstance(s, list) and s and all(is_sym(c) for c in s): memo[id(s)] = s
        elif isinstance(s, (tuple, list)):
            for x in s: collect(x)
    collect(spec); restrict_names(ctx, memo)
    v = build_lnarsese(it, spec)
    text = lex_format(it, lf, v)
    lr = lex_parse(it, lf, list(text.ch))
    bad, ctext, lex = compare(ctx, it, text.ch, lr, v.variant)
    if bad is None:
        return {'status': 'ok', 'sample': {'formatter': 'lexical', 'shape': params['name'], 'text': ctext}, 'extra': {'fns': list(it.fn_seen), 'native': {'op': 'lex_parse', 'args': ['ascii', hexs(ctext)], 'interp': ['ok', lex]}}}
    return {'status': 'violation', 'kind': 'lexical-output', 'shape': params['name'], 'what': bad, 'text': ctext, 'tokens': lnarsese_tokens(conc_lspec(spec, ctx.model())), 'value_kind': v.variant, 'message': bad, 'fns': list(it.fn_seen)}

def confirm(v, oracle):
    if v['kind'] == 'lexicon':
        return {'confirmed': True, 'replay': {'op': 'format', 'args': ['ascii', 'NT W:61']}, 'what': v['what']}
    # regenerate the text with the NATIVE formatter from the concrete value, then apply grammar + native lexical parser
    if v['kind'] == 'enum-output':
        st0, text = oracle.ask('format', 'ascii', v['tokens'])
    else:
        st0, r0 = oracle.ask('lex_rt_value', 'ascii', v['tokens']); text = r0['text'] if st0 == 'ok' else None
    if st0 != 'ok': return {'confirmed': st0 == 'panic', 'replay': {'op': 'format', 'args': ['ascii', v['tokens']]}, 'what': 'formatter panics: %s' % text}
    st, p = oracle.ask('lex_parse', 'ascii', hexs(text))
    acc, tree = peg.parse(text)
    from framework import strip_all
    bad = (not acc) or st != 'ok' or strip_all(p) != ['Ok', tree] or tree[0] != v['value_kind']
    return {'confirmed': bool(bad), 'why': 'grammar, value kind and native lexical parser agree on the native output %r' % text,
            'replay': {'op': 'format' if v['kind'] == 'enum-output' else 'lex_rt_value', 'args': ['ascii', v['tokens']], 'text': text, 'grammar_tree': tree, 'value_kind': v['value_kind']},
            'what': '%s (native output %r, grammar kind %s, value kind %s)' % (v['what'], text, tree[0] if tree else None, v['value_kind'])}

def key_of(v): return '%s:%s' % (v['kind'], v.get('shape', 'lexicon').split('#')[0])

def main(tier, seed):
    from framework import Runner, Query
    R = Runner('C11', tier, seed); R.setup()
    R.blocks = models_str.STD_BLOCKS       # symbolic name chars range over Latin..Latin Ext-B, CJK punctuation + ideographs, fullwidth forms, pictographs (thorough adds an all-Unicode query where noted)
    R.assumptions += ['reference = my transcription (checks/peg.py) of the pest grammar in README.en.md, with Unicode categories from Python\'s unicodedata',
                      'the recogniser runs on one solver witness per explored path (class of names distinguished by the implementation), names restricted to letters/digits/_/inner -']
    R.run_query(Query('lexicon', 'c11', 'path_lexicon', [dict()], 'all ASCII keywords of both format instances vs the OpenNARS-compatible lexicon'), confirm, key_of)
    shapes = c01.shape_list(tier)
    R.run_query(Query('enum-ascii', 'c11', 'path_enum', [dict(name=nm, spec=sp) for nm, sp in shapes], '%d enum value shapes' % len(shapes)), confirm, key_of)
    it = R.engine.new_interp(); voc = lex_vocab(it, lexical_format(it, 'ascii'))
    lsh = c02.shapes_for(voc, tier)
    R.run_query(Query('lexical-ascii', 'c11', 'path_lexical', [dict(name=nm, spec=sp) for nm, sp in lsh], '%d lexical value shapes' % len(lsh)), confirm, key_of)
    return R.finish(rule='one state = one path of formatter + lexical parser; the reference grammar is evaluated on the path witness', level='model_checking',
                    trusted=['rustc MIR', 'mirsym + std models (validated per path)', 'z3', 'checks/peg.py transcription of the README grammar', 'python unicodedata'])
