"""C07 — equal terms hash equally (see c06.py, mode 'hash')."""
import c06
def main(tier, seed): return c06.run('C07', tier, seed)
