"""C15 — term / sentence / task classification and conversions are lossless.

Paths run the REAL code (MIR):
  table    transform_mid_result (enum parser) and MidParseResult::fold (lexical parser) on all 2^5 patterns of filled
           item slots: task <=> budget & term & punctuation, sentence <=> term & punctuation & no budget, term <=> term
           & no punctuation, error otherwise; both tables identical
  casts    cast_to_task / try_cast_to_sentence / try_into_task_compatible / from_* / try_into_* / is_* on enum and
           lexical values with symbolic numbers and names
  printed  format(cast_to_task(sentence)) parses (enum parser and lexical parser) to a TASK with an empty budget"""
from common import *
from shapes import *
import c01, c13

SENT_TY = 'enum_narsese::sentence::Sentence'; TASK_TY = 'enum_narsese::task::Task'
NV = 'narsese_value::NarseseValue'

def opt(v): return Enum('Option', 'Some', 1, [v]) if v is not None else Enum('Option', 'None', 0, [])

def path_table(engine, ctx, params):
    it = engine.new_interp(ctx)
    bits = params['bits']          # (budget, term, punctuation, stamp, truth)
    fmt = get_format(it, 'ascii')
    term = build_term(it, ('Word', 'a'))
    vals = [build_budget(it, (0.5,)), term, build_punct(it, 'Judgement'), build_stamp(it, ('Present',)), build_truth(it, (1.0,))]
    order = it.prog.si.struct_fields('NarseseOptions', ['budget', 'term', 'punctuation', 'stamp', 'truth'])
    names = ['budget', 'term', 'punctuation', 'stamp', 'truth']
    mid = Agg('narsese_options::NarseseOptions', [opt(vals[names.index(n)] if bits[names.index(n)] else None) for n in order])
    st_order = it.prog.si.struct_fields('ParseState', ['format', 'env', 'len_env', 'head', 'mid_result'])
    fields = {'format': Ref([fmt], 0), 'env': RVec([]), 'len_env': 0, 'head': 0, 'mid_result': mid}
    state = Agg('conversion::string::impl_enum::parser::ParseState', [fields[n] for n in st_order])
    r = it.call_named('conversion::string::impl_enum::parser::ParseState::<\'_>::transform_mid_result', [Ref([state], 0)], [None], None)
    got = r.f[0].variant if r.variant == 'Ok' else 'Err'
    b, t, p = bits[0], bits[1], bits[2]
    want = 'Err' if not t else ('Task' if (b and p) else 'Sentence' if p else 'Term')
    # lexical table
    lterm = Enum('lexical::term::Term', 'Atom', 0, [RString(), RString([97])])
    lvals = [RVec([RString([48])]), lterm, RString([46]), RString([58]), RVec([RString([49])])]
    lorder = order
    lmid = Agg('narsese_options::NarseseOptions', [opt(lvals[names.index(n)] if bits[names.index(n)] else None) for n in lorder])
    lr = it.call_named('impl_lexical::parser::structs::<impl narsese_options::NarseseOptions<std::vec::Vec<String>, lexical::term::Term, String, String, std::vec::Vec<String>>>::fold', [lmid], [None], None)
    lgot = lr.f[0].variant if lr.variant == 'Some' else 'Err'
    bad = None
    if got != want: bad = 'enum parser classifies slots %s as %s, expected %s' % (bits, got, want)
    elif lgot != want: bad = 'lexical parser classifies slots %s as %s, expected %s' % (bits, lgot, want)
    if bad is None: return {'status': 'ok', 'sample': {'slots(budget,term,punct,stamp,truth)': bits, 'kind': got}, 'extra': {'fns': list(it.fn_seen)}}
    return {'status': 'violation', 'kind': 'table', 'what': bad, 'bits': bits, 'message': bad, 'fns': list(it.fn_seen)}

def path_casts(engine, ctx, params):
    it = engine.new_interp(ctx, step_limit=300000)
    F64 = z3.Float64()
    nb = params['budget']; punct = params['punct']
    xs = [z3.FP('b%d' % i, F64) for i in range(nb)]
    for x in xs: ctx.assume(c13.in01(x))
    c = z3.BitVec('n0_0', 32); ctx.assume(models_str.valid_char(c))
    truth = (1.0, 0.9) if punct in ('Judgement', 'Goal') else ()
    sent = build_sentence(it, punct, ('Word', [c]), ('Fixed', 3), truth)
    budget = Enum('enum_narsese::task::budget::Budget', ['Empty', 'Single', 'Double', 'Triple'][nb], nb, list(xs))
    task = Agg(TASK_TY, [deep_copy(sent), budget])
    bad = None
    def eq(ty, x, y): return ctx.branch(it.call_named('<%s as PartialEq>::eq' % ty, [Ref([x], 0), Ref([y], 0)], [None, None], 'bool'))
    # cast_to_task then back
    t2 = it.call_named('<%s as sentence_cast::CastToTask<%s>>::cast_to_task' % (SENT_TY, TASK_TY), [deep_copy(sent)], [SENT_TY], TASK_TY)
    if t2.f[1].variant != 'Empty' or not eq(SENT_TY, t2.f[0], sent): bad = 'cast_to_task does not wrap the sentence with an empty budget'
    back = it.call_named('<%s as sentence_cast::TryCastToSentence<%s>>::try_cast_to_sentence' % (TASK_TY, SENT_TY), [t2], [TASK_TY], None)
    if bad is None and (back.variant != 'Ok' or not eq(SENT_TY, back.f[0], sent)): bad = 'try_cast_to_sentence(cast_to_task(s)) != Ok(s)'
    r = it.call_named('<%s as sentence_cast::TryCastToSentence<%s>>::try_cast_to_sentence' % (TASK_TY, SENT_TY), [deep_copy(task)], [TASK_TY], None)
    if bad is None:
        if nb == 0 and (r.variant != 'Ok' or not eq(SENT_TY, r.f[0], sent)): bad = 'task with empty budget does not convert back to its sentence'
        if nb > 0 and (r.variant != 'Err' or not eq(TASK_TY, r.f[0], task)): bad = 'task with a budget: try_cast_to_sentence is %s (must hand the task back unchanged)' % r.variant
    # NarseseValue wrap / unwrap
    NVT = '%s<%s, %s, %s>' % (NV, TERM_TY, SENT_TY, TASK_TY)
    term = build_term(it, ('Word', [c]))
    wraps = {'term': (it.call_named('%s::<%s, %s, %s>::from_term' % (NV, TERM_TY, SENT_TY, TASK_TY), [deep_copy(term)], [TERM_TY], NVT), term, TERM_TY),
             'sentence': (it.call_named('%s::<%s, %s, %s>::from_sentence' % (NV, TERM_TY, SENT_TY, TASK_TY), [deep_copy(sent)], [SENT_TY], NVT), sent, SENT_TY),
             'task': (it.call_named('%s::<%s, %s, %s>::from_task' % (NV, TERM_TY, SENT_TY, TASK_TY), [deep_copy(task)], [TASK_TY], NVT), task, TASK_TY)}
    for x, (w, orig, ty) in wraps.items():
        if bad: break
        for y in ('term', 'sentence', 'task'):
            isy = ctx.branch(it.call_named('%s::<%s, %s, %s>::is_%s' % (NV, TERM_TY, SENT_TY, TASK_TY, y), [Ref([w], 0)], [None], 'bool'))
            res = it.call_named('%s::<%s, %s, %s>::try_into_%s' % (NV, TERM_TY, SENT_TY, TASK_TY, y), [deep_copy(w)], [NVT], None)
            if isy != (x == y): bad = 'from_%s(..).is_%s() = %s' % (x, y, isy); break
            if (res.variant == 'Ok') != (x == y): bad = 'try_into_%s(from_%s(v)) is %s' % (y, x, res.variant); break
            if x == y and not eq(ty, res.f[0], orig): bad = 'try_into_%s(from_%s(v)) != v' % (y, x); break
    if bad is None:
        tc = it.call_named('%s::<%s, %s, %s>::try_into_task_compatible' % (NV, TERM_TY, SENT_TY, TASK_TY), [deep_copy(wraps['sentence'][0])], [NVT], None)
        if tc.variant != 'Ok' or tc.f[0].f[1].variant != 'Empty' or not eq(SENT_TY, tc.f[0].f[0], sent): bad = 'try_into_task_compatible(sentence) != cast_to_task(sentence)'
        tc2 = it.call_named('%s::<%s, %s, %s>::try_into_task_compatible' % (NV, TERM_TY, SENT_TY, TASK_TY), [deep_copy(wraps['task'][0])], [NVT], None)
        if bad is None and (tc2.variant != 'Ok' or not eq(TASK_TY, tc2.f[0], task)): bad = 'try_into_task_compatible(task) != task'
        tc3 = it.call_named('%s::<%s, %s, %s>::try_into_task_compatible' % (NV, TERM_TY, SENT_TY, TASK_TY), [deep_copy(wraps['term'][0])], [NVT], None)
        if bad is None and tc3.variant != 'Err': bad = 'try_into_task_compatible(term) succeeds'
    if bad is None: return {'status': 'ok', 'sample': {'punct': punct, 'budget components': nb}, 'extra': {'fns': list(it.fn_seen)}}
    m = ctx.model()
    from fractions import Fraction
    def fval(x):
        v = m.eval(x, model_completion=True)
        import struct
        bits = m.eval(z3.fpToIEEEBV(v), model_completion=True).as_long() if not z3.is_fp_value(v) or not v.isNaN() else 0x7ff8000000000000
        return struct.unpack('<d', struct.pack('<Q', bits))[0]
    name = chr(m.eval(c, model_completion=True).as_long())
    sspec = ('Sentence', punct, ('Word', name), ('Fixed', 3), truth)
    tspec = ('Task', tuple(fval(x) for x in xs), punct, ('Word', name), ('Fixed', 3), truth)
    return {'status': 'violation', 'kind': 'casts', 'what': bad, 'message': bad, 'fns': list(it.fn_seen),
            'tokens': {'term': narsese_tokens(('Term', ('Word', name))), 'sentence': narsese_tokens(sspec), 'task': narsese_tokens(tspec)}, 'nb': nb}

def path_lex_casts(engine, ctx, params):
    it = engine.new_interp(ctx, step_limit=300000)
    nb = params['budget']
    c = z3.BitVec('n0_0', 32); ctx.assume(models_str.valid_char(c))
    LS = 'lexical::sentence::Sentence'; LTK = 'lexical::task::Task'
    lterm = Enum('lexical::term::Term', 'Atom', 0, [RString(), RString([c])])
    so = it.prog.si.struct_fields('Sentence', ['term', 'punctuation', 'stamp', 'truth'])
    sf = {'term': lterm, 'punctuation': RString([46]), 'stamp': RString([58, 124, 58]), 'truth': RVec([RString([49])])}
    sent = Agg(LS, [sf[n] for n in so])
    to = it.prog.si.struct_fields('Task', ['budget', 'sentence'])
    tf = {'budget': RVec([RString([48, 46, 53]) for _ in range(nb)]), 'sentence': deep_copy(sent)}
    task = Agg(LTK, [tf[n] for n in to])
    def eq(ty, x, y): return ctx.branch(it.call_named('<%s as PartialEq>::eq' % ty, [Ref([x], 0), Ref([y], 0)], [None, None], 'bool'))
    bad = None
    t2 = it.call_named('<%s as sentence_cast::CastToTask<%s>>::cast_to_task' % (LS, LTK), [deep_copy(sent)], [LS], LTK)
    back = it.call_named('<%s as sentence_cast::TryCastToSentence<%s>>::try_cast_to_sentence' % (LTK, LS), [t2], [LTK], None)
    if back.variant != 'Ok' or not eq(LS, back.f[0], sent): bad = 'lexical try_cast_to_sentence(cast_to_task(s)) != Ok(s)'
    r = it.call_named('<%s as sentence_cast::TryCastToSentence<%s>>::try_cast_to_sentence' % (LTK, LS), [deep_copy(task)], [LTK], None)
    if bad is None:
        if nb == 0 and (r.variant != 'Ok' or not eq(LS, r.f[0], sent)): bad = 'lexical task with empty budget does not convert back'
        if nb > 0 and (r.variant != 'Err' or not eq(LTK, r.f[0], task)): bad = 'lexical task with a budget converts to a sentence or is altered'
    if bad is None: return {'status': 'ok', 'sample': {'lexical budget entries': nb}, 'extra': {'fns': list(it.fn_seen)}}
    return {'status': 'violation', 'kind': 'lex-casts', 'what': bad, 'message': bad, 'fns': list(it.fn_seen)}

def path_printed(engine, ctx, params):
    """format(cast_to_task(sentence)) parses to a task with an empty budget (enum parser; lexical parser kind)"""
    it = engine.new_interp(ctx, step_limit=900000)
    fmt = get_format(it, params['fmt'])
    spec = params['spec']
    names = c01.make_names(it, ctx, fmt, spec)
    s = subst_names(spec, names)
    sent = build_sentence(it, s[1], s[2], s[3], s[4])
    task = it.call_named('<%s as sentence_cast::CastToTask<%s>>::cast_to_task' % (SENT_TY, TASK_TY), [sent], [SENT_TY], TASK_TY)
    v = Enum(NV, 'Task', 2, [task])
    text = format_enum(it, fmt, v)
    r = parse_enum(it, fmt, list(text.ch))
    lf = lexical_format(it, params['fmt']); lr = lex_parse(it, lf, list(text.ch))
    bad = None
    if r.variant != 'Ok' or r.f[0].variant != 'Task' or r.f[0].f[0].f[1].variant != 'Empty': bad = 'enum parser: printed cast task parses to %s' % (r.f[0].variant if r.variant == 'Ok' else 'Err')
    elif lr.variant != 'Ok' or lr.f[0].variant != 'Task': bad = 'lexical parser: printed cast task parses to %s' % (lr.f[0].variant if lr.variant == 'Ok' else 'Err')
    m = ctx.model(); ctext = concretize(ctx, list(text.ch), m)
    if bad is None:
        return {'status': 'ok', 'sample': {'fmt': params['fmt'], 'text': show(ctext)}, 'extra': {'fns': list(it.fn_seen), 'native': {'op': 'parse', 'args': [params['fmt'], hexs(ctext)], 'interp': ['ok', canon_result(r, canon_narsese, m)]}}}
    return {'status': 'violation', 'kind': 'printed', 'what': bad, 'fmt': params['fmt'], 'text': ctext, 'message': bad + ': ' + show(ctext), 'fns': list(it.fn_seen)}

def confirm(v, oracle):
    if v['kind'] == 'printed':
        a = oracle.ask('parse', v['fmt'], hexs(v['text'])); b = oracle.ask('lex_parse', v['fmt'], hexs(v['text']))
        ok = a[0] == 'ok' and a[1][0] == 'Ok' and a[1][1][0] == 'Task' and a[1][1][1][2] == ['Empty'] and b[0] == 'ok' and b[1][0] == 'Ok' and b[1][1][0] == 'Task'
        return {'confirmed': not ok, 'why': 'native parsers return a task with empty budget', 'replay': {'op': 'parse', 'args': [v['fmt'], hexs(v['text'])], 'text': show(v['text'])}, 'what': v['what'] + ' (text %r)' % show(v['text'])}
    # table / casts: pure API facts with no input to vary; the interpreter ran the real MIR, replay = a direct native probe
    if v['kind'] == 'table':
        b = v['bits']
        txt = ('$0.5$ ' if b[0] else '') + ('a' if b[1] else '') + ('.' if b[2] else '') + (' :|:' if b[3] else '') + (' %1%' if b[4] else '')
        a = oracle.ask('parse', 'ascii', hexs(txt)); l = oracle.ask('lex_parse', 'ascii', hexs(txt))
        want = 'Err' if not b[1] else ('Task' if (b[0] and b[2]) else 'Sentence' if b[2] else 'Term')
        ga = a[1][1][0] if a[0] == 'ok' and a[1][0] == 'Ok' else 'Err'; gl = l[1][1][0] if l[0] == 'ok' and l[1][0] == 'Ok' else 'Err'
        return {'confirmed': ga != want or gl != want, 'why': 'native parsers classify %r as expected' % txt, 'replay': {'op': 'parse', 'args': ['ascii', hexs(txt)], 'text': txt}, 'what': '%s; native parse(%r) kind: enum %s, lexical %s, expected %s' % (v['what'], txt, ga, gl, want)}
    if v['kind'] == 'casts' and v.get('tokens'):
        fails = native_cast_failures(oracle, v['tokens'], v['nb'])
        return {'confirmed': bool(fails), 'why': 'native cast API satisfies every fact', 'replay': {'op': 'cast_ops', 'args': [v['tokens']['task']], 'others': v['tokens']},
                'what': '%s; native: %s' % (v['what'], '; '.join(fails[:3]))}
    return {'confirmed': False, 'why': 'no native probe for this cast API (violation found in MIR only)'}

def native_cast_failures(oracle, toks, nb):
    """the cast / accessor facts of the property, evaluated on the native build"""
    out = []
    facts = {k: oracle.ask('cast_ops', t) for k, t in toks.items()}
    for k, (st, f) in facts.items():
        if st != 'ok': out.append('%s: native %s' % (k, st)); continue
        hot = [k == 'term', k == 'sentence', k == 'task']
        if f['is'] != hot: out.append('is_* of a %s = %s' % (k, f['is']))
        if f['ok'] != hot: out.append('try_into_{term,sentence,task} of a %s succeed: %s' % (k, f['ok']))
        elif f['same'] != hot: out.append('try_into_%s(from_%s(v)) != v' % (k, k))
    st, fs = facts['sentence']; stt, ft = facts['task']; stm, fm = facts['term']
    if st == 'ok':
        sent_val = oracle.ask('roundtrip', 'ascii', toks['sentence'])[1]['value']
        want_task = ['Task', ['Task', sent_val[1], ['Empty']]]
        if fs.get('cast_to_task') != want_task: out.append('cast_to_task(s) = %s' % (fs.get('cast_to_task'),))
        if not fs.get('back_equal'): out.append('try_cast_to_sentence(cast_to_task(s)) != Ok(s)')
        if fs.get('compat') != ['Ok', want_task]: out.append('try_into_task_compatible(sentence) = %s' % (fs.get('compat'),))
        if stt == 'ok':
            ts = ft.get('to_sentence')
            if nb == 0 and ts != ['Ok', sent_val]: out.append('task with empty budget -> %s' % (ts,))
            if nb > 0 and ts != ['Err', True]: out.append('task with a budget: try_cast_to_sentence = %s' % (ts,))
            task_val = oracle.ask('roundtrip', 'ascii', toks['task'])[1]['value']
            if ft.get('compat') != ['Ok', task_val]: out.append('try_into_task_compatible(task) != task')
    if stm == 'ok' and fm.get('compat') != ['Err']: out.append('try_into_task_compatible(term) succeeds')
    return out

def key_of(v): return '%s:%s' % (v['kind'], v['what'][:60])

def main(tier, seed):
    from framework import Runner, Query
    import itertools
    R = Runner('C15', tier, seed); R.setup()
    R.blocks = models_str.STD_BLOCKS       # symbolic name chars range over Latin..Latin Ext-B, CJK punctuation + ideographs, fullwidth forms, pictographs (thorough adds an all-Unicode query where noted)
    c01.load_keywords(R)
    R.assumptions += ['slot patterns: all 32; cast API: 4 punctuations x budgets of 0..3 symbolic numbers in [0,1], symbolic name char; printed casts: sentence shapes of shapes.py with symbolic names']
    R.run_query(Query('table', 'c15', 'path_table', [dict(bits=list(b)) for b in itertools.product([0, 1], repeat=5)], 'all 2^5 filled-slot patterns, enum and lexical'), confirm, key_of)
    R.run_query(Query('casts', 'c15', 'path_casts', [dict(punct=p, budget=n) for p in PUNCTS for n in range(4)], '4 punctuations x 4 budget arities, symbolic numbers'), confirm, key_of)
    R.run_query(Query('lex-casts', 'c15', 'path_lex_casts', [dict(budget=n) for n in range(4)], 'lexical sentence/task casts, 0..3 budget entries'), confirm, key_of)
    ss = sentences(('Inheritance', A(0), A(1)))
    ss = ss[::7] if tier == 'quick' else ss
    for fmt in FORMATS:
        if tier == 'quick' and fmt == 'han': use = ss[:3]
        else: use = ss
        R.run_query(Query('printed/' + fmt, 'c15', 'path_printed', [dict(fmt=fmt, spec=sp, name=nm) for nm, sp in use], '%d sentence shapes cast to task, printed, parsed by both parsers' % len(use)), confirm, key_of)
    # kind(parse(format(v))) = kind(v): atoms as the whole term of a sentence / task / bare term (budget vs variable
    # prefix, punctuation vs query-variable prefix), through the C01 path (which also checks the value)
    kshapes = [x for x in c01.shape_list(tier) if x[0].startswith(('atom/', 'sent-atom', 'task-atom', 'task/0', 'task/1'))]
    for fmt in FORMATS:
        R.run_query(Query('kinds/' + fmt, 'c01', 'path', [dict(fmt=fmt, name=nm, spec=sp) for nm, sp in kshapes], '%d shapes whose classification is delicate (atoms with every prefix as whole term / sentence / task, empty and single budgets)' % len(kshapes)), c01.confirm, c01.key_of)
    return R.finish(rule='one state = one path of the classification table / cast API / print-and-parse on one shape', trusted=['rustc MIR', 'mirsym + std models', 'z3'])
