"""C14 — component access, category and capacity are mutually consistent.

Paths run the REAL accessors (MIR): get_components, get_components_including_placeholder, get_compound_components,
extract_terms_to_vec, get_category / get_capacity and their predicates, on every constructor shape (images with every
placeholder index 0..n, symbolic index where the constructor admits it), atom names symbolic; plus lexical terms:
extraction returns the stored components and category(x) == category(fold(x))."""
from common import *
from shapes import N
import c17

CATEGORY = {}
for k in ('Word', 'Placeholder', 'VariableIndependent', 'VariableDependent', 'VariableQuery', 'Interval', 'Operator'): CATEGORY[k] = ('Atom', 'Atom')
CATEGORY['Negation'] = ('Compound', 'Unary')
for k in ('DifferenceExtension', 'DifferenceIntension'): CATEGORY[k] = ('Compound', 'BinaryVec')
for k in ('Inheritance', 'Implication', 'ImplicationPredictive', 'ImplicationConcurrent', 'ImplicationRetrospective', 'EquivalencePredictive'): CATEGORY[k] = ('Statement', 'BinaryVec')
for k in ('Similarity', 'Equivalence', 'EquivalenceConcurrent'): CATEGORY[k] = ('Statement', 'BinarySet')
for k in ('Product', 'ImageExtension', 'ImageIntension', 'ConjunctionSequential'): CATEGORY[k] = ('Compound', 'Vec')
for k in c17.SETLIKE: CATEGORY[k] = ('Compound', 'Set')

def enum_name(v): return v.variant

def call_pred(it, t, trait, name):
    return it.call_named('<%s as %s>::%s' % (TERM_TY, trait, name), [Ref([t], 0)], ['&' + TERM_TY], 'bool')

def path(engine, ctx, params):
    it = engine.new_interp(ctx, step_limit=300000)
    kind, spec0 = params['shape']
    import c06
    spec, memo = c06.sym_spec(ctx, tuple(spec0) if not isinstance(spec0, tuple) else spec0)
    if kind in TERM_IMAGES and is_sym(spec[1]): ctx.assume(z3.ULE(spec[1], len(spec[2])))
    t = build_term(it, spec)
    cat = it.call_named('<%s as term_category::GetCategory>::get_category' % TERM_TY, [Ref([t], 0)], ['&' + TERM_TY], None)
    cap = it.call_named('<%s as term_capacity::GetCapacity>::get_capacity' % TERM_TY, [Ref([t], 0)], ['&' + TERM_TY], None)
    preds = [ctx.branch(call_pred(it, t, 'term_category::GetCategory', n)) for n in ('is_atom', 'is_compound', 'is_statement')]
    is_image = ctx.branch(it.call_named('impls::<impl %s>::is_image' % TERM_TY, [Ref([t], 0)], ['&' + TERM_TY], 'bool'))
    cpreds = [ctx.branch(call_pred(it, t, 'term_capacity::GetCapacity', n)) for n in ('is_capacity_atom', 'is_capacity_unary', 'is_capacity_binary', 'is_capacity_binary_vec', 'is_capacity_binary_set', 'is_capacity_multi', 'is_capacity_vec', 'is_capacity_set')]
    comps = it.call_named('impls::<impl %s>::get_components' % TERM_TY, [Ref([t], 0)], ['&' + TERM_TY], None)
    incl = it.call_named('impls::<impl %s>::get_components_including_placeholder' % TERM_TY, [Ref([t], 0)], ['&' + TERM_TY], None)
    cc = it.call_named('impls::<impl %s>::get_compound_components' % TERM_TY, [Ref([t], 0)], ['&' + TERM_TY], None)
    tc = deep_copy(t)
    ext = it.call_named('<%s as extract_terms::ExtractTerms>::extract_terms_to_vec' % TERM_TY, [tc], [TERM_TY], None)
    m = ctx.model()
    cs = c06.conc_spec(spec, m)
    C = lambda v: [canon_term(x, m) for x in as_list(v)]
    c_comps, c_incl, c_ext = C(comps), C(incl), C(ext)
    c_cc = None if cc.variant == 'None' else C(cc.f[0])
    ecat, ecap = CATEGORY[kind]
    bad = None
    unordered = ecap == 'Set'
    norm = (lambda l: sorted(l, key=c17.canon_sorted)) if unordered else (lambda l: l)
    if cat.variant != ecat: bad = 'category %s, expected %s' % (cat.variant, ecat)
    elif cap.variant != ecap: bad = 'capacity %s, expected %s' % (cap.variant, ecap)
    elif preds != [ecat == 'Atom', ecat == 'Compound', ecat == 'Statement']: bad = 'category predicates %s' % preds
    elif is_image != (kind in TERM_IMAGES): bad = 'is_image = %s' % is_image
    elif cpreds != [ecap == 'Atom', ecap == 'Unary', ecap in ('BinaryVec', 'BinarySet'), ecap == 'BinaryVec', ecap == 'BinarySet', ecap in ('Vec', 'Set'), ecap == 'Vec', ecap == 'Set']: bad = 'capacity predicates %s for %s' % (cpreds, ecap)
    elif norm(c_ext) != norm(c_incl): bad = 'consuming extraction %s differs from the borrowing accessor %s' % (c_ext, c_incl)
    elif kind in TERM_IMAGES:
        idx = cs[1]
        if c_incl[idx:idx + 1] != [['Placeholder']] or c_incl[:idx] + c_incl[idx + 1:] != c_comps: bad = 'placeholder not at index %d: including=%s components=%s' % (idx, c_incl, c_comps)
    elif norm(c_comps) != norm(c_incl): bad = 'components %s vs including-placeholder %s' % (c_comps, c_incl)
    if bad is None:
        if (c_cc is not None) != (ecat == 'Compound'): bad = 'get_compound_components is %s for a %s' % ('Some' if c_cc is not None else 'None', ecat)
        elif c_cc is not None and norm(c_cc) != norm(c_comps): bad = 'compound components differ from components'
        elif ecap in ('Atom', 'Unary') and len(c_comps) != 1: bad = '%s term with %d components' % (ecap, len(c_comps))
        elif ecap in ('BinaryVec', 'BinarySet') and len(c_comps) != 2: bad = 'binary term with %d components' % len(c_comps)
        elif ecap == 'Atom' and c_comps != [canon_term(t, m)]: bad = 'atom components are not [self]'
    tok = ' '.join(term_tokens(cs))
    interp = {'category': cat.variant, 'capacity': cap.variant, 'components': norm(c_comps), 'including': norm(c_incl), 'compound': None if c_cc is None else norm(c_cc),
              'preds': preds + [is_image] + cpreds, 'extract': norm(c_ext)}
    native = {'op': 'term_ops', 'args': [tok], 'interp': ['ok', interp], 'project': ['category', 'capacity', 'preds'] if unordered else ['category', 'capacity', 'components', 'including', 'compound', 'preds', 'extract']}
    if bad is None:
        return {'status': 'ok', 'sample': {'term': tok, 'category': cat.variant, 'capacity': cap.variant, 'including': c_incl}, 'extra': {'fns': list(it.fn_seen), 'native': native}}
    return {'status': 'violation', 'kind': 'enum', 'shape': kind, 'what': bad, 'tok': tok, 'message': bad, 'fns': list(it.fn_seen)}

def as_list(v):
    v = unbox(v)
    if isinstance(v, RVec): return v.items
    if isinstance(v, SliceRef): return v.items()
    raise Unsupported('list of %r' % (v,))

LEX_CAT = {'Atom': 'Atom', 'Compound': 'Compound', 'Set': 'Compound', 'Statement': 'Statement'}

def path_lex(engine, ctx, params):
    """lexical term (parsed from the ASCII text of an enum shape): extraction returns the stored components in order;
    category equals the category of the folded enum term"""
    it = engine.new_interp(ctx, step_limit=900000)
    fmt = get_format(it, params['fmt']); lf = lexical_format(it, params['fmt'])
    kind, spec = params['shape']
    if kind == 'text': text = RString([ord(c) for c in spec])          # a surface text the enum model cannot produce (duplicates kept by the lexical model)
    else:
        v = build_narsese(it, ('Term', tuple(spec)))
        text = format_enum(it, fmt, v)
    lr = lex_parse_term(it, lf, list(text.ch))
    if lr.variant != 'Ok': raise Unsupported('lexical parse of formatter output failed: ' + text.py())
    lt = lr.f[0]
    LT = 'lexical::term::Term'
    lcat = it.call_named('<%s as term_category::GetCategory>::get_category' % LT, [Ref([lt], 0)], ['&' + LT], None)
    stored = canon_lex_term(lt)
    ext = it.call_named('<%s as extract_terms::ExtractTerms>::extract_terms_to_vec' % LT, [deep_copy(lt)], [LT], None)
    c_ext = [canon_lex_term(x) for x in as_list(ext)]
    folded = it.call_named('<%s as TryFoldInto<%s, FoldError>>::try_fold_into' % (LT, TERM_TY), [deep_copy(lt), Ref([fmt], 0)], [LT, '&' + FMT_TY], None)
    bad = None
    exp_children = {'Atom': [stored], 'Compound': stored[2] if stored[0] == 'Compound' else None, 'Set': stored[2] if stored[0] == 'Set' else None, 'Statement': stored[2:4] if stored[0] == 'Statement' else None}[stored[0]]
    if c_ext != exp_children: bad = 'lexical extraction %s, stored %s' % (c_ext, exp_children)
    elif lcat.variant != LEX_CAT[stored[0]]: bad = 'lexical category %s for a %s' % (lcat.variant, stored[0])
    elif kind == 'text': pass          # folding is not part of this obligation (duplicates / placeholders may be rejected by the enum model)
    elif folded.variant != 'Ok': bad = 'fold of formatter output failed'
    else:
        ecat = it.call_named('<%s as term_category::GetCategory>::get_category' % TERM_TY, [Ref([folded.f[0]], 0)], ['&' + TERM_TY], None)
        if ecat.variant != lcat.variant: bad = 'category of lexical term %s != category of folded term %s' % (lcat.variant, ecat.variant)
    if bad is None:
        return {'status': 'ok', 'sample': {'fmt': params['fmt'], 'text': text.py(), 'lexical category': lcat.variant, 'extracted': len(c_ext)}, 'extra': {'fns': list(it.fn_seen)}}
    return {'status': 'violation', 'kind': 'lexical', 'shape': kind, 'what': bad, 'tok': text.py(), 'fmt': params['fmt'], 'message': bad, 'fns': list(it.fn_seen)}

def confirm(v, oracle):
    if v['kind'] == 'enum':
        st, p = oracle.ask('term_ops', v['tok'])
        if st == 'panic': return {'confirmed': True, 'replay': {'op': 'term_ops', 'args': [v['tok']]}, 'what': 'panic: %s' % p}
        # re-evaluate the reference on the native answer
        k = v['shape']; ecat, ecap = CATEGORY[k]
        bad = p['category'] != ecat or p['capacity'] != ecap or p['preds'][:3] != [ecat == 'Atom', ecat == 'Compound', ecat == 'Statement'] or (p['compound'] is not None) != (ecat == 'Compound')
        srt = (lambda l: sorted(l, key=c17.canon_sorted)) if ecap == 'Set' else (lambda l: l)
        bad = bad or srt(p['extract']) != srt(p['including'])
        if k in TERM_IMAGES:
            idx = int(v['tok'].split(' ')[0].split(':')[1])
            bad = bad or p['including'][idx:idx + 1] != [['Placeholder']] or p['including'][:idx] + p['including'][idx + 1:] != p['components']
        else: bad = bad or srt(p['components']) != srt(p['including'])
        return {'confirmed': bool(bad), 'why': 'native accessors are consistent', 'replay': {'op': 'term_ops', 'args': [v['tok']]}, 'what': '%s on %s: native %s' % (v['what'], v['tok'], json.dumps(p, ensure_ascii=False)[:200])}
    if v['kind'] == 'lexical':
        st, p = oracle.ask('lex_term_ops', v['fmt'], hexs(v['tok']))
        rp = {'op': 'lex_term_ops', 'args': [v['fmt'], hexs(v['tok'])], 'text': v['tok']}
        if st != 'ok': return {'confirmed': st == 'panic', 'replay': rp, 'what': 'native %s' % st, 'why': 'native ' + st}
        if p[0] != 'Ok': return {'confirmed': False, 'why': 'native lexical parse fails'}
        t = p[1]['term']
        exp = {'Atom': [t], 'Compound': t[2] if t[0] == 'Compound' else None, 'Set': t[2] if t[0] == 'Set' else None, 'Statement': t[2:4] if t[0] == 'Statement' else None}[t[0]]
        bad = p[1]['extract'] != exp or p[1]['category'] != LEX_CAT[t[0]]
        return {'confirmed': bad, 'why': 'native lexical accessors are consistent', 'replay': rp, 'what': '%s on %r: native extraction %s, category %s' % (v['what'][:80], v['tok'], json.dumps(p[1]['extract'], ensure_ascii=False)[:160], p[1]['category'])}
    return {'confirmed': False, 'why': 'no native replay for this kind'}

def key_of(v): return '%s:%s:%s' % (v['kind'], v['shape'], v['what'][:40])

def main(tier, seed):
    from framework import Runner, Query
    R = Runner('C14', tier, seed); R.setup()
    a, b, c = ('Word', N(0)), ('Word', N(1)), ('Word', N(2))
    shapes = [(k, (k, N(0))) for k in c17.NAMED] + [('Placeholder', ('Placeholder',)), ('Interval', ('Interval', ('symint', 0)))]
    shapes += [(k, (k, [a, b, c])) for k in c17.SETLIKE] + [(k, (k, [a, b, c])) for k in ('Product', 'ConjunctionSequential')]
    shapes += [(k, (k, [a])) for k in ('SetExtension', 'Product')]
    for k in ('ImageExtension', 'ImageIntension'):
        for n in (0, 1, 2, 3):
            comps = [a, b, c][:n]
            for idx in range(0, n + 1): shapes.append((k, (k, idx, comps)))
        shapes.append((k, (k, ('symint', 0), [a, b, ('Placeholder',)])))
    shapes += [('Negation', ('Negation', a))] + [(k, (k, a, b)) for k in CATEGORY if CATEGORY[k][1] in ('BinaryVec', 'BinarySet')]
    shapes += [('Negation', ('Negation', ('Similarity', a, ('SetExtension', [b, c])))), ('Inheritance', ('Inheritance', ('ImageExtension', 1, [a, b]), ('Conjunction', [a, c])))]
    from shapes import gen_terms
    shapes += [(t[0], t) for nm, t in gen_terms(40 if tier == 'quick' else 600, seed, depth=3)]
    R.assumptions += ['shapes: all 30 constructors (1..3 components), images with every index 0..n for n<=3 and a symbolic index, two nestings; names 1 symbolic char',
                      'unordered accessors are compared as sets']
    R.run_query(Query('enum-accessors', 'c14', 'path', [dict(shape=s) for s in shapes], '%d term shapes (incl. generated nested shapes of depth <= 3, deterministic per VERIF_SEED)' % len(shapes)), confirm, key_of)
    conc = [(k, (k, 'x')) for k in c17.NAMED] + [('Placeholder', ('Placeholder',)), ('Interval', ('Interval', 3))] + \
           [(k, (k, [('Word', 'a'), ('Word', 'b')])) for k in c17.SETLIKE + ('Product', 'ConjunctionSequential')] + \
           [('ImageExtension', ('ImageExtension', 1, [('Word', 'a'), ('Word', 'b')])), ('Negation', ('Negation', ('Word', 'a')))] + \
           [(k, (k, ('Word', 'a'), ('Word', 'b'))) for k in CATEGORY if CATEGORY[k][1] in ('BinaryVec', 'BinarySet')]
    plist = [dict(shape=s, fmt=f) for s in conc for f in (('ascii',) if tier == 'quick' else FORMATS)]
    # the lexical model stores components verbatim: duplicates (adjacent or not) and nesting must come back from extraction unchanged
    for txt in ('{A, A, B}', '[x, y, y]', '{A, B, A}', '{A, A}', '(&&, A, A, B)', '(*, A, A)', '(||, A, B, B, B)', '(&/, A, +1, +1)', '<{A, A, B} --> [x, y, y]>', '{{A, A}, {A, A}}', '(/, R, _, _)', '<A <-> A>'):
        plist.append(dict(shape=('text', txt), fmt='ascii'))
    R.run_query(Query('lexical', 'c14', 'path_lex', plist, 'lexical counterparts of %d shapes' % len(conc)), confirm, key_of)
    return R.finish(rule='one state = one path through all accessors of one term shape', trusted=['rustc MIR', 'mirsym + std models (validated per path)', 'z3'])
