"""shared helpers for check modules (run inside explore workers and in the driver)"""
import os, sys, json
HERE = os.path.dirname(os.path.abspath(__file__))
sys.path.insert(0, os.path.join(HERE, '..', 'mirsym'))
import z3
from engine import *
from nspec import *
import models_str

TARGETS = {
    'narsese': NARSESE_TY,
    'truth': 'truth::Truth', 'budget': 'budget::Budget', 'stamp': 'stamp::Stamp', 'punct': 'punctuation::Punctuation',
}
FORMATS = ('ascii', 'latex', 'han')

def sym_chars(ctx, template, prefix='c'):
    """template: list of code points (concrete) or None (symbolic hole) -> list of chars; holes are named c<i>"""
    out = []; holes = []
    for i, t in enumerate(template):
        if t is None:
            c = z3.BitVec('%s%d' % (prefix, i), 32)
            ctx.assume(models_str.valid_char(c))
            out.append(c); holes.append(c)
        else: out.append(t)
    return out, holes

def concretize(ctx, chars, m=None):
    m = m or ctx.model()
    if m is None: return None
    return [c if isinstance(c, int) else m.eval(c, model_completion=True).as_long() for c in chars]

def show(cps): return ''.join(chr(c) for c in cps)

_fmt_cache = {}
def get_format(it, name):
    return enum_format(it, name.upper())

def pin_numbers(ctx, v):
    """replace symbolic numeric leaves (64-bit ints, decimal literals, floats) by the current model's value, pinning
    the choice in the path condition; names (strings of 32-bit chars) stay symbolic.  Used before handing a value to
    std's number formatting, which is outside the code under test."""
    from fractions import Fraction
    m = ctx.model()
    def walk(x):
        if isinstance(x, SymReal):
            val = m.eval(x.r, model_completion=True)
            fr = Fraction(val.numerator_as_long(), val.denominator_as_long())
            ctx.assume(x.r == val); return float(fr)
        if is_sym(x) and z3.is_bv(x) and x.size() == 64:
            val = m.eval(x, model_completion=True); ctx.assume(x == val); return val.as_long()
        if isinstance(x, (Agg, Enum)):
            for i, y in enumerate(x.f): x.f[i] = walk(y)
            return x
        if isinstance(x, RVec) or isinstance(x, RSet):
            for i, y in enumerate(x.items): x.items[i] = walk(y)
            return x
        if isinstance(x, RBox):
            x.cell[0] = walk(x.cell[0]); return x
        return x
    return walk(v)
