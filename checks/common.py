"""shared helpers for check modules (run inside explore workers and in the driver)"""
import os, sys, json
HERE = os.path.dirname(os.path.abspath(__file__))
sys.path.insert(0, os.path.join(HERE, '..', 'mirsym'))
import z3
from engine import *
from nspec import *
import models_str

TARGETS = {
    'narsese': NARSESE_TY,
    'truth': 'truth::Truth', 'budget': 'budget::Budget', 'stamp': 'stamp::Stamp', 'punct': 'punctuation::Punctuation',
}
FORMATS = ('ascii', 'latex', 'han')

def sym_chars(ctx, template, prefix='c'):
    """template: list of code points (concrete) or None (symbolic hole) -> list of chars; holes are named c<i>"""
    out = []; holes = []
    for i, t in enumerate(template):
        if t is None:
            c = z3.BitVec('%s%d' % (prefix, i), 32)
            ctx.assume(models_str.valid_char(c))
            out.append(c); holes.append(c)
        else: out.append(t)
    return out, holes

def concretize(ctx, chars, m=None):
    m = m or ctx.model()
    if m is None: return None
    return [c if isinstance(c, int) else m.eval(c, model_completion=True).as_long() for c in chars]

def show(cps): return ''.join(chr(c) for c in cps)

_fmt_cache = {}
def get_format(it, name):
    return enum_format(it, name.upper())

def pin_numbers(ctx, v):
    """replace symbolic numeric leaves (64-bit ints, decimal literals, floats) by the current model's value, pinning
    the choice in the path condition; names (strings of 32-bit chars) stay symbolic.  Used before handing a value to
    std's number formatting, which is outside the code under test."""
    from fractions import Fraction
    m = ctx.model()
    def walk(x):
        if isinstance(x, SymReal):
            val = m.eval(x.r, model_completion=True)
            fr = Fraction(val.numerator_as_long(), val.denominator_as_long())
            ctx.assume(x.r == val); f_ = float(fr); return -0.0 if (f_ == 0.0 and x.neg) else f_
        if is_sym(x) and z3.is_bv(x) and x.size() == 64:
            val = m.eval(x, model_completion=True); ctx.assume(x == val); return val.as_long()
        if isinstance(x, (Agg, Enum)):
            for i, y in enumerate(x.f): x.f[i] = walk(y)
            return x
        if isinstance(x, RVec) or isinstance(x, RSet):
            for i, y in enumerate(x.items): x.items[i] = walk(y)
            return x
        if isinstance(x, RBox):
            x.cell[0] = walk(x.cell[0]); return x
        return x
    return walk(v)

def keyword_table(it, fmt):
    """{role: python str or (str, str)} for an enum format value, using the struct field order of the current source"""
    si = it.prog.si
    out = {}
    top = si.struct_fields('NarseseFormat', ['is_valid_atom_name', 'space', 'atom', 'compound', 'statement', 'sentence', 'task'])
    def val(v):
        if isinstance(v, Str): return v.py()
        if isinstance(v, Agg) and v.ty == 'tuple': return tuple(val(x) for x in v.f)
        return v
    for sect, sname in (('space', 'NarseseFormatSpace'), ('atom', 'NarseseFormatAtom'), ('compound', 'NarseseFormatCompound'),
                        ('statement', 'NarseseFormatStatement'), ('sentence', 'NarseseFormatSentence'), ('task', 'NarseseFormatTask')):
        agg = fmt.f[top.index(sect)]
        hints = {'space': ['parse', 'format_terms', 'format_items'], 'atom': ['prefix_word'], 'compound': ['connecter_product'],
                 'statement': ['copula_inheritance'], 'sentence': ['punctuation_goal', 'truth_separator'], 'task': ['budget_separator', 'budget_brackets']}[sect]
        names = [fs for rel, fs in si.structs[sname] if len(fs) == len(agg.f) and all(h in fs for h in hints)][0]
        for n, v in zip(names, agg.f): out[sect + '.' + n] = val(v)
    return out

CONNECTER_ROLE = {'IntersectionExtension': 'connecter_intersection_extension', 'IntersectionIntension': 'connecter_intersection_intension',
                  'DifferenceExtension': 'connecter_difference_extension', 'DifferenceIntension': 'connecter_difference_intension',
                  'Product': 'connecter_product', 'ImageExtension': 'connecter_image_extension', 'ImageIntension': 'connecter_image_intension',
                  'Conjunction': 'connecter_conjunction', 'Disjunction': 'connecter_disjunction', 'Negation': 'connecter_negation',
                  'ConjunctionSequential': 'connecter_conjunction_sequential', 'ConjunctionParallel': 'connecter_conjunction_parallel'}
COPULA_ROLE = {'Inheritance': 'copula_inheritance', 'Similarity': 'copula_similarity', 'Implication': 'copula_implication', 'Equivalence': 'copula_equivalence',
               'ImplicationPredictive': 'copula_implication_predictive', 'ImplicationConcurrent': 'copula_implication_concurrent',
               'ImplicationRetrospective': 'copula_implication_retrospective', 'EquivalencePredictive': 'copula_equivalence_predictive',
               'EquivalenceConcurrent': 'copula_equivalence_concurrent',
               'Instance': 'copula_instance', 'Property': 'copula_property', 'InstanceProperty': 'copula_instance_property', 'EquivalenceRetrospective': 'copula_equivalence_retrospective'}
ATOM_ROLE = {'Word': 'prefix_word', 'VariableIndependent': 'prefix_variable_independent', 'VariableDependent': 'prefix_variable_dependent',
             'VariableQuery': 'prefix_variable_query', 'Operator': 'prefix_operator', 'Placeholder': 'prefix_placeholder', 'Interval': 'prefix_interval'}

def S(s): return [ord(c) for c in s]

def term_tokens_surface(kw, t):
    """token sequence (each a list of chars) of a term spec in the surface syntax; names may be lists of z3 chars"""
    k = t[0]
    if k in TERM_ATOMS:
        nm = t[1]
        return [S(kw['atom.' + ATOM_ROLE[k]]) + (S(nm) if isinstance(nm, str) else list(nm))]
    if k == 'Placeholder': return [S(kw['atom.prefix_placeholder'])]
    if k == 'Interval': return [S(kw['atom.prefix_interval']) + S(str(t[1]))]
    sep = S(kw['compound.separator'])
    def listing(items):
        out = []
        for i, x in enumerate(items):
            if i: out.append(sep)
            out += term_tokens_surface(kw, x)
        return out
    if k in ('SetExtension', 'SetIntension'):
        l, r = kw['compound.brackets_set_extension' if k == 'SetExtension' else 'compound.brackets_set_intension']
        return [S(l)] + listing(t[1]) + [S(r)]
    if k in CONNECTER_ROLE:
        l, r = kw['compound.brackets']
        if k in TERM_IMAGES:
            items = list(t[2]); items.insert(t[1], ('Placeholder',))
        elif k == 'Negation': items = [t[1]]
        elif k in ('DifferenceExtension', 'DifferenceIntension'): items = [t[1], t[2]]
        else: items = t[1]
        return [S(l), S(kw['compound.' + CONNECTER_ROLE[k]]), sep] + listing(items) + [S(r)]
    if k in COPULA_ROLE:
        l, r = kw['statement.brackets']
        return [S(l)] + term_tokens_surface(kw, t[1]) + [S(kw['statement.' + COPULA_ROLE[k]])] + term_tokens_surface(kw, t[2]) + [S(r)]
    raise ValueError(t)

def fnum(x):
    from models_str import fmt_f64
    return S(fmt_f64(x))

def narsese_tokens_surface(kw, v):
    def floats(br, sep, xs):
        out = [S(br[0])]
        for i, x in enumerate(xs):
            if i: out.append(S(sep))
            out.append(fnum(x))
        return out + [S(br[1])]
    def stamp(st):
        # tokens: opening bracket, kind marker, (number), closing bracket -- "stamp ... parts and their numbers"
        if st[0] == 'Eternal': return []
        l, r = kw['sentence.stamp_brackets']
        body = {'Past': 'stamp_past', 'Present': 'stamp_present', 'Future': 'stamp_future', 'Fixed': 'stamp_fixed'}[st[0]]
        toks = [S(l), S(kw['sentence.' + body])] + ([S(str(st[1]))] if st[0] == 'Fixed' else []) + [S(r)]
        return [t for t in toks if t]
    def sentence(p, term, st, tr):
        out = term_tokens_surface(kw, term) + [S(kw['sentence.punctuation_' + p.lower()])] + stamp(st)
        if tr: out += floats(kw['sentence.truth_brackets'], kw['sentence.truth_separator'], tr)
        return out
    if v[0] == 'Term': return term_tokens_surface(kw, v[1])
    if v[0] == 'Sentence': return sentence(v[1], v[2], v[3], v[4])
    return floats(kw['task.budget_brackets'], kw['task.budget_separator'], v[1]) + sentence(v[2], v[3], v[4], v[5])

def value_to_spec(v):
    """interpreter value (enum Narsese/Term/...) -> spec with names as char lists (so de-duplicated sets are reflected)"""
    def term(t):
        t = unbox(t); k = t.variant
        if k in TERM_ATOMS: return (k, list(t.f[0].ch))
        if k == 'Placeholder': return (k,)
        if k == 'Interval': return (k, t.f[0])
        if k in TERM_SETS: return (k, [term(x) for x in t.f[0].items])
        if k in TERM_VECS: return (k, [term(x) for x in t.f[0].items])
        if k in TERM_IMAGES: return (k, t.f[0], [term(x) for x in t.f[1].items])
        if k == 'Negation': return (k, term(t.f[0]))
        return (k, term(t.f[0]), term(t.f[1]))
    def stamp(s): return (s.variant,) + tuple(s.f)
    def sent(s):
        if s.variant in ('Judgement', 'Goal'): return (s.variant, term(s.f[0]), stamp(s.f[2]), tuple(s.f[1].f))
        return (s.variant, term(s.f[0]), stamp(s.f[1]), ())
    if v.variant == 'Term': return ('Term', term(v.f[0]))
    if v.variant == 'Sentence':
        p, t, st, tr = sent(v.f[0]); return ('Sentence', p, t, st, tr)
    p, t, st, tr = sent(v.f[0].f[0]); return ('Task', tuple(v.f[0].f[1].f), p, t, st, tr)

def desugar(t):
    """spec with derived copulas rewritten into primitive constructors (the documented meaning)"""
    if not isinstance(t, tuple): return t
    k = t[0]
    if k == 'Instance': return ('Inheritance', ('SetExtension', [desugar(t[1])]), desugar(t[2]))
    if k == 'Property': return ('Inheritance', desugar(t[1]), ('SetIntension', [desugar(t[2])]))
    if k == 'InstanceProperty': return ('Inheritance', ('SetExtension', [desugar(t[1])]), ('SetIntension', [desugar(t[2])]))
    if k == 'EquivalenceRetrospective': return ('EquivalencePredictive', desugar(t[2]), desugar(t[1]))
    out = []
    for x in t:
        if isinstance(x, tuple) and x and isinstance(x[0], str) and not (len(x) == 3 and x[0] == 'sym'): out.append(desugar(x))
        elif isinstance(x, list) and x and isinstance(x[0], tuple): out.append([desugar(y) for y in x])
        else: out.append(x)
    return tuple(out)
