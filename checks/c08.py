"""C08 — parsing depends only on format and input.

Paths run the REAL parse_multi / parse / parse_chars (MIR) on a history [s1, s2] in which s1 carries symbolic chars
(every fragment kind: budget-only, truth-only, bare term, sentence, task, garbage, each with one position replaced by
an arbitrary char, or fully symbolic short strings) and compare the outcome for s2 with parsing s2 alone."""
from common import *

def parse_multi(it, fmt, inputs):
    text = 'conversion::string::impl_enum::format::NarseseFormat::<&str>::parse_multi::<std::vec::Vec<&str>>'
    return it.call_named(text, [Ref([fmt], 0), RVec([Str(x) for x in inputs])], ['&' + FMT_TY, 'std::vec::Vec<&str>'], None)

def path_multi(engine, ctx, params):
    it = engine.new_interp(ctx, step_limit=800000)
    fmt = get_format(it, params['fmt'])
    hist = []
    allch = []
    for i, t in enumerate(params['history']):
        cs, _ = sym_chars(ctx, t, prefix='h%d_' % i)
        hist.append(cs); allch.append(cs)
    try:
        res = parse_multi(it, fmt, hist)
    except RustPanic as p:
        conc = [concretize(ctx, cs) for cs in hist]
        return {'status': 'violation', 'kind': 'panic', 'fmt': params['fmt'], 'history': conc, 'message': 'parse_multi panics: ' + p.msg[:150], 'where': p.where[-60:], 'fns': list(it.fn_seen)}
    outs = res.items
    m = None
    bad = None
    singles = []
    for i, cs in enumerate(hist):
        fresh = get_format(it, params['fmt'])
        single = parse_enum(it, fresh, cs)
        singles.append(single)
    m = ctx.model()
    for i in range(len(hist)):
        a = canon_result(outs[i], canon_narsese, m); b = canon_result(singles[i], canon_narsese, m)
        if a != b and bad is None: bad = (i, a, b)
    conc = [concretize(ctx, cs, m) for cs in hist]
    if bad is None:
        return {'status': 'ok', 'sample': {'fmt': params['fmt'], 'history': [show(c) for c in conc], 'outcomes': [o.variant for o in outs]},
                'extra': {'fns': list(it.fn_seen), 'native': {'op': 'parse_multi', 'args': [params['fmt'], '|'.join(hexs(c) for c in conc)],
                          'interp': ['ok', [canon_result(o, canon_narsese, m) for o in outs]]}}}
    return {'status': 'violation', 'kind': 'history', 'fmt': params['fmt'], 'history': conc, 'index': bad[0], 'multi': bad[1], 'single': bad[2],
            'message': 'parse_multi[%d] differs from parse alone' % bad[0], 'fns': list(it.fn_seen)}

def path_chars(engine, ctx, params):
    """parse(&str) vs parse_chars(Vec<char>) on the same symbolic input, twice"""
    it = engine.new_interp(ctx, step_limit=600000)
    fmt = get_format(it, params['fmt'])
    cs, _ = sym_chars(ctx, params['template'])
    a = parse_enum(it, fmt, cs); b = parse_enum_chars(it, fmt, list(cs)); c = parse_enum(it, fmt, cs)
    m = ctx.model()
    ca, cb, cc = (canon_result(x, canon_narsese, m) for x in (a, b, c))
    conc = concretize(ctx, cs, m)
    if ca == cb == cc:
        return {'status': 'ok', 'sample': {'fmt': params['fmt'], 'input': show(conc), 'outcome': a.variant}, 'extra': {'fns': list(it.fn_seen),
                'native': {'op': 'parse_chars', 'args': [params['fmt'], hexs(conc)], 'interp': ['ok', cb]}}}
    return {'status': 'violation', 'kind': 'chars', 'fmt': params['fmt'], 'input': conc, 'parse': ca, 'parse_chars': cb, 'again': cc,
            'message': 'parse / parse_chars / repeated parse disagree', 'fns': list(it.fn_seen)}

def path_lex(engine, ctx, params):
    """lexical parser: parse(s1); parse(s2) on ONE format instance vs parse(s2) on a fresh instance"""
    it = engine.new_interp(ctx, step_limit=900000)
    lf = lexical_format(it, params['fmt'])
    syms = [sym_chars(ctx, h, prefix=chr(97 + i))[0] for i, h in enumerate(params['history'])]
    for s_ in syms[:-1]: lex_parse(it, lf, s_)
    s1, s2 = syms[0], syms[-1]
    r2 = lex_parse(it, lf, s2)
    it2 = engine.new_interp(ctx, step_limit=900000)          # a fresh execution: fresh format instance AND fresh statics / thread-locals
    fresh = lexical_format(it2, params['fmt'])
    r2f = lex_parse(it2, fresh, s2)
    it.fn_seen |= it2.fn_seen
    m = ctx.model()
    a = canon_result(r2, canon_lex_narsese, m); b = canon_result(r2f, canon_lex_narsese, m)
    c1, c2 = concretize(ctx, s1, m), concretize(ctx, s2, m)
    call = [concretize(ctx, s_, m) for s_ in syms]
    if a == b:
        return {'status': 'ok', 'sample': {'fmt': params['fmt'], 'lexical history': [show(c1), show(c2)], 'outcome': r2.variant}, 'extra': {'fns': list(it.fn_seen),
                'native': {'op': 'lex_parse', 'args': [params['fmt'], hexs(c2)], 'interp': ['ok', a]}}}
    return {'status': 'violation', 'kind': 'lex-history', 'fmt': params['fmt'], 'history': call, 'message': 'lexical parse depends on an earlier parse', 'fns': list(it.fn_seen)}

def confirm(v, oracle):
    if v['kind'] == 'panic':
        st, multi = oracle.ask('parse_multi', v['fmt'], '|'.join(hexs(c) for c in v['history']))
        return {'confirmed': st == 'panic', 'why': 'no native panic', 'replay': {'op': 'parse_multi', 'args': [v['fmt'], '|'.join(hexs(c) for c in v['history'])], 'history': [show(c) for c in v['history']]},
                'what': 'parse_multi(%r) panics (%s) while parsing each input alone does not' % ([show(c) for c in v['history']], multi)}
    if v['kind'] == 'history':
        st, multi = oracle.ask('parse_multi', v['fmt'], '|'.join(hexs(c) for c in v['history']))
        if st != 'ok': return {'confirmed': st == 'panic', 'replay': {'op': 'parse_multi', 'args': [v['fmt'], '|'.join(hexs(c) for c in v['history'])]}, 'what': 'parse_multi panics: %s' % multi}
        i = v['index']
        st2, single = oracle.ask('parse', v['fmt'], hexs(v['history'][i]))
        diff = strip_err(multi[i]) != strip_err(single)
        return {'confirmed': diff, 'why': 'native results agree', 'replay': {'op': 'parse_multi', 'args': [v['fmt'], '|'.join(hexs(c) for c in v['history'])], 'compare_with': {'op': 'parse', 'args': [v['fmt'], hexs(v['history'][i])]}, 'history': [show(c) for c in v['history']]},
                'what': 'parse_multi(%r)[%d] = %s but parse(%r) = %s' % ([show(c) for c in v['history']], i, json.dumps(strip_err(multi[i]), ensure_ascii=False)[:120], show(v['history'][i]), json.dumps(strip_err(single), ensure_ascii=False)[:120])}
    if v['kind'] == 'lex-history':
        arg = '|'.join(hexs(c) for c in v['history'])
        st, r = oracle.ask('lex_history', v['fmt'], arg)
        rp = {'op': 'lex_history', 'args': [v['fmt'], arg], 'history': [show(c)[:80] for c in v['history']]}
        if st != 'ok': return {'confirmed': st == 'panic', 'replay': rp, 'what': 'lexical history: native %s' % st, 'why': 'native ' + st}
        diff = strip_err(r['seq'][-1]) != strip_err(r['alone'])
        return {'confirmed': diff, 'why': 'native results agree', 'replay': rp,
                'what': 'lexical parse of %r after the history %s gives %s, alone %s' % (show(v['history'][-1])[:60], [show(c)[:40] for c in v['history'][:-1]], json.dumps(strip_err(r['seq'][-1]), ensure_ascii=False)[:80], json.dumps(strip_err(r['alone']), ensure_ascii=False)[:80])}
    if v['kind'] == 'chars':
        a = oracle.ask('parse', v['fmt'], hexs(v['input'])); b = oracle.ask('parse_chars', v['fmt'], hexs(v['input']))
        na = [a[0], strip_err(a[1]) if a[0] == 'ok' else None]; nb = [b[0], strip_err(b[1]) if b[0] == 'ok' else None]
        return {'confirmed': na != nb, 'replay': {'op': 'parse_chars', 'args': [v['fmt'], hexs(v['input'])], 'compare_with': {'op': 'parse', 'args': [v['fmt'], hexs(v['input'])]}},
                'what': 'parse(%r) and parse_chars disagree natively' % show(v['input'])}
    return {'confirmed': False, 'why': 'no native replay for lexical history (the interpreter found state carried in the format instance)'}

def key_of(v):
    if v['kind'] == 'panic': return 'panic@' + v.get('where', '').split('::')[-1]
    if v['kind'] == 'history':
        s = json.dumps([v['multi'], v['single']])
        kinds = (v['multi'][0] if v['multi'][0] == 'Err' else v['multi'][1][0], v['single'][0] if v['single'][0] == 'Err' else v['single'][1][0])
        return 'history:%s-instead-of-%s' % kinds
    return v['kind']

FRAGS = {
    'budget': ('Task', (0.5,), 'Judgement', ('Word', 'A'), ('Eternal',), ()),
}

def fragments(oracle, fmt):
    """concrete fragments of every kind, produced by the real formatter"""
    def f(v): return oracle.ask('format', fmt, narsese_tokens(v))[1]
    task = f(('Task', (0.5, 0.75), 'Judgement', ('Inheritance', ('Word', 'A'), ('Word', 'B')), ('Present',), (1.0, 0.9)))
    sent = f(('Sentence', 'Goal', ('Word', 'C'), ('Eternal',), (0.5,)))
    term = f(('Term', ('Product', [('Word', 'x'), ('Word', 'y')])))
    empty_b = f(('Task', (), 'Judgement', ('Word', 'A'), ('Eternal',), ()))
    bud = task[:task.index(f(('Term', ('Inheritance', ('Word', 'A'), ('Word', 'B')))))].strip()
    truth_only = f(('Sentence', 'Judgement', ('Word', 'A'), ('Eternal',), (1.0, 0.9)))
    truth_only = truth_only[truth_only.index(f(('Term', ('Word', 'A')))) + 2:].strip()
    stamp_only = f(('Sentence', 'Question', ('Word', 'A'), ('Past',), ()))
    stamp_only = stamp_only[stamp_only.index(f(('Term', ('Word', 'A')))) + 2:].strip()
    return {'task': task, 'sentence': sent, 'term': term, 'budget-only': bud, 'truth-only': truth_only, 'stamp-only': stamp_only,
            'term+truth': f(('Term', ('Word', 'A'))) + ' ' + truth_only, 'budget+term': bud + ' ' + term, 'garbage': ')(', 'empty': ''}

def main(tier, seed):
    from framework import Runner, Query
    R = Runner('C08', tier, seed); R.setup()
    quick = tier == 'quick'
    R.assumptions += ['histories of length 2 (thorough: also 3); the first inputs range over fragment kinds with one arbitrary char substituted at every position, or over all short strings',
                      'one history step suffices inductively only if the parser state is fully captured by ParseState (checked: the struct has no interior mutability; statics are immutable)']
    for fmt in FORMATS:
        fr = fragments(R.oracle, fmt)
        seconds = [fr['sentence'], fr['term'], fr['task'], fr['budget-only']] if not quick else [fr['sentence'], fr['term']]
        plist = []
        for kind, s1 in fr.items():
            cps = [ord(c) for c in s1]
            pos = range(len(cps) + 1) if not quick else sorted(set([0, len(cps) // 2, len(cps)]))
            for s2 in seconds:
                plist.append(dict(fmt=fmt, history=[cps, [ord(c) for c in s2]]))
                for i in pos:
                    t = cps[:i] + [None] + cps[i + 1:]
                    plist.append(dict(fmt=fmt, history=[t, [ord(c) for c in s2]]))
        if not quick:
            for a in fr.values():
                for b in list(fr.values())[:4]:
                    plist.append(dict(fmt=fmt, history=[[ord(c) for c in a], [ord(c) for c in b], [ord(c) for c in fr['sentence']]]))
        R.run_query(Query('multi/' + fmt, 'c08', 'path_multi', plist, 'histories [s1,s2]: s1 = each of %d fragment kinds with one arbitrary char at %s position, s2 = %d complete inputs' % (len(fr), 'every' if not quick else '3', len(seconds))), confirm, key_of)
        n = 1 if quick else 2
        plist = [dict(fmt=fmt, history=[[None] * k, [None] * j]) for k in range(0, n + 1) for j in range(1, n + 1) if k + j <= (2 if quick else 3)]
        R.run_query(Query('multi-short/' + fmt, 'c08', 'path_multi', plist, 'all histories [s1,s2] with |s1| <= %d, 1 <= |s2| <= %d, |s1|+|s2| <= %d over all Unicode' % (n, n, 2 if quick else 3)), confirm, key_of)
        plist = [dict(fmt=fmt, template=[None] * k) for k in range(0, 3 if quick else 4)]
        R.run_query(Query('chars/' + fmt, 'c08', 'path_chars', plist, 'parse vs parse_chars vs repeated parse, all strings of <= %d chars' % (2 if quick else 3)), confirm, key_of)
        lp = [dict(fmt=fmt, history=[[ord(c) for c in fr['budget-only']] + [None], [ord(c) for c in fr['sentence']]]),
              dict(fmt=fmt, history=[[None, None], [ord(c) for c in fr['task']]])]
        # histories that exercise depth: an earlier very deep input (valid and truncated) followed by inputs of every depth up to 72
        lb, rb = {'ascii': ('{', '}'), 'latex': ('\\left\\{', '\\right\\}'), 'han': ('『', '』')}[fmt]
        def nest(d, closed=True): return [ord(c) for c in lb * d + 'a' + (rb * d if closed else '')]
        for d2 in ((8, 62, 63, 64, 65, 72) if quick else range(1, 73)):
            lp.append(dict(fmt=fmt, history=[nest(100), nest(d2)]))
            lp.append(dict(fmt=fmt, history=[nest(90, False), nest(d2)]))
        lp.append(dict(fmt=fmt, history=[nest(100), nest(100), nest(100), nest(61)]))
        R.run_query(Query('lexical/' + fmt, 'c08', 'path_lex', lp, 'lexical parser: two parses on one format instance vs a fresh instance'), confirm, key_of)
    return R.finish(rule='one state = one path of parse_multi+parse over a symbolic history', trusted=['rustc MIR', 'mirsym + std models (validated per path)', 'z3'])
