"""C13 — truth / budget / evidence numbers accept exactly [0,1].

Every path runs the REAL constructors / accessors / EvidentNumber methods (MIR, incl. nar_dev_utils' ZeroOneFloat) on
symbolic IEEE-754 doubles (z3 floating-point theory: every bit pattern incl. NaN, +-inf, -0.0, subnormals).  After the
run the solver is asked whether the outcome can disagree with the reference `0 <= x <= 1` on the consumed components."""
from common import *
from models_iter import ListIter

F64 = z3.Float64()
def in01(x): return z3.And(z3.fpLEQ(z3.FPVal(0.0, F64), x), z3.fpLEQ(x, z3.FPVal(1.0, F64)))
def bits(m, x):
    v = m.eval(x, model_completion=True)
    if z3.is_fp_value(v) and v.isNaN(): return '7ff8000000000000'       # fp.to_ieee_bv is unspecified on NaN
    return '%016x' % m.eval(z3.fpToIEEEBV(v), model_completion=True).as_long()

SPEC = {'truth': dict(ty='truth::Truth', path='enum_narsese::sentence::truth::Truth', max=2, news=['new_single', 'new_double'], gets=['f', 'c'], variants=['Empty', 'Single', 'Double']),
        'budget': dict(ty='budget::Budget', path='enum_narsese::task::budget::Budget', max=3, news=['new_single', 'new_double', 'new_triple'], gets=['p', 'd', 'q'], variants=['Empty', 'Single', 'Double', 'Triple'])}

def feasible(ctx, c): return ctx._check(c)

def path(engine, ctx, params):
    it = engine.new_interp(ctx, step_limit=100000)
    kind = params['kind']; sp = SPEC[kind]; mode = params['mode']; k = params['k']
    xs = [z3.FP('x%d' % i, F64) for i in range(k)]
    bad = None; outcome = None; native = None
    def model_bits():
        m = ctx.model(); return [bits(m, x) for x in xs]
    if mode == 'from':
        r = it.call_named('%s::try_from_floats::<std::vec::IntoIter<f64>>' % sp['ty'], [ListIter(list(xs))], ['std::vec::IntoIter<f64>'], None)
        used = min(k, sp['max']); ref = z3.And(*[in01(x) for x in xs[:used]]) if used else z3.BoolVal(True)
        if r.variant == 'Ok':
            v = r.f[0]
            if feasible(ctx, z3.Not(ref)): ctx.assume(z3.Not(ref)); bad = 'try_from_floats accepts a component outside [0,1]'
            elif v.variant != sp['variants'][used]: bad = 'variant %s for %d supplied components' % (v.variant, k)
            else:
                for i in range(used):
                    if not is_sym(v.f[i]) or feasible(ctx, z3.fpToIEEEBV(v.f[i]) != z3.fpToIEEEBV(xs[i])):
                        bad = 'stored component %d differs from the supplied number' % i; break
            outcome = 'Ok:' + v.variant
        else:
            if feasible(ctx, ref): ctx.assume(ref); bad = 'try_from_floats rejects components that are all in [0,1]'
            outcome = 'Err'
        b = model_bits()
        native = {'op': kind + '_from', 'args': [','.join(b) if b else '-'], 'interp': ['ok', ['Err'] if outcome == 'Err' else ['Ok', [r.f[0].variant] + [{'f': x} for x in b[:used]]]]}
    elif mode == 'new':
        ref = z3.And(*[in01(x) for x in xs])
        try:
            v = it.call_named('%s::%s' % (sp['ty'], sp['news'][k - 1]), list(xs), ['f64'] * k, None)
            if feasible(ctx, z3.Not(ref)): ctx.assume(z3.Not(ref)); bad = '%s accepts a component outside [0,1] without panicking' % sp['news'][k - 1]
            elif v.variant != sp['variants'][k]: bad = 'wrong variant ' + v.variant
            else:
                for i in range(k):
                    if feasible(ctx, z3.fpToIEEEBV(v.f[i]) != z3.fpToIEEEBV(xs[i])): bad = 'stored component %d differs' % i; break
            outcome = 'value'
            b = model_bits(); native = {'op': kind + '_new', 'args': [','.join(b)], 'interp': ['ok', [v.variant] + [{'f': x} for x in b]]}
        except RustPanic:
            if feasible(ctx, ref): ctx.assume(ref); bad = '%s panics although every component is in [0,1]' % sp['news'][k - 1]
            outcome = 'panic'
            b = model_bits(); native = {'op': kind + '_new', 'args': [','.join(b)], 'interp': ['panic', None]}
    elif mode == 'get':
        # accessor `g` on a value holding k symbolic (valid) components
        for x in xs: ctx.assume(in01(x))
        val = Enum(sp['path'], sp['variants'][k], k, list(xs))
        gi = params['getter']; g = sp['gets'][gi]
        tok = ('T' if kind == 'truth' else 'B') + str(k)
        try:
            out = it.call_named('%s::%s' % (sp['ty'], g), [Ref([val], 0)], ['&' + sp['ty']], 'f64')
            if gi >= k: bad = 'accessor %s() returns a number for a %s value' % (g, sp['variants'][k])
            elif not is_sym(out) and not isinstance(out, float): bad = 'accessor returned %r' % (out,)
            elif feasible(ctx, z3.fpToIEEEBV(out if is_sym(out) else z3.FPVal(out, F64)) != z3.fpToIEEEBV(xs[gi])): bad = 'accessor %s() does not return the stored number' % g
            outcome = 'value'
            b = model_bits(); native = {'op': kind + '_get', 'args': [tok + ''.join(':' + x for x in b), g], 'interp': ['ok', {'f': b[gi]} if gi < k else None]}
        except RustPanic:
            if gi < k: bad = 'accessor %s() panics although the %s value has that component' % (g, sp['variants'][k])
            outcome = 'panic'
            b = model_bits(); native = {'op': kind + '_get', 'args': [tok + ''.join(':' + x for x in b), g], 'interp': ['panic', None]}
    elif mode == 'evident':
        x = z3.FP('x0', F64); xs = [x]; ref = in01(x)
        ev = '<f64 as evidence_value::EvidentNumber>::'
        valid = ctx.branch(it.call_named(ev + 'is_valid', [Ref([x], 0)], ['&f64'], 'bool'))
        if feasible(ctx, ref != z3.BoolVal(valid)): ctx.assume(ref != z3.BoolVal(valid)); bad = 'is_valid disagrees with 0<=x<=1'
        tv = it.call_named(ev + 'try_validate', [Ref([x], 0)], ['&f64'], None)
        if bad is None and (tv.variant == 'Ok') != valid: bad = 'try_validate disagrees with is_valid'
        try:
            it.call_named(ev + 'validate', [Ref([x], 0)], ['&f64'], None); vp = False
        except RustPanic: vp = True
        if bad is None and vp == valid: bad = 'validate panics iff valid'
        z = it.call_named(ev + 'zero', [], [], 'f64'); o = it.call_named(ev + 'one', [], [], 'f64')
        if bad is None and (z != 0.0 or o != 1.0): bad = 'zero()/one() are not 0 and 1'
        outcome = 'valid' if valid else 'invalid'
        b = model_bits(); native = {'op': 'evident', 'args': [b[0]], 'interp': ['ok', {'is_valid': valid, 'try_ok': tv.variant == 'Ok', 'validate_panics': vp}], 'project': ['is_valid', 'try_ok', 'validate_panics']}
    if bad is None:
        return {'status': 'ok', 'sample': {'kind': kind, 'mode': mode, 'k': k, 'bits': model_bits(), 'outcome': outcome}, 'extra': {'fns': list(it.fn_seen), 'native': native}}
    return {'status': 'violation', 'kind': mode, 'what': bad, 'type': kind, 'k': k, 'native': native, 'message': bad, 'fns': list(it.fn_seen)}

def confirm(v, oracle):
    nat = v['native']
    st, p = oracle.ask(nat['op'], *nat['args'])
    from oracle import bits_to_f
    vals = [bits_to_f(x) for x in re.findall(r'[0-9a-f]{16}', ' '.join(nat['args']))]
    desc = '%s(%s) with %s -> native %s %s' % (nat['op'], v['type'], vals, st, json.dumps(p, ensure_ascii=False)[:120])
    # the reference, concretely
    def ok01(x): return 0.0 <= x <= 1.0
    bad = False
    if nat['op'].endswith('_from'):
        used = vals[:SPEC[v['type']]['max']]
        bad = (st == 'panic') or ((p[0] == 'Ok') != all(ok01(x) for x in used)) or (p[0] == 'Ok' and len(p[1]) - 1 != len(used))
    elif nat['op'].endswith('_new'):
        bad = (st == 'panic') == all(ok01(x) for x in vals)
    elif nat['op'].endswith('_get'):
        gi = SPEC[v['type']]['gets'].index(nat['args'][1]); bad = (st == 'panic') != (gi >= v['k'])
    elif nat['op'] == 'evident':
        r = ok01(vals[0]); bad = st != 'ok' or p['is_valid'] != r or p['try_ok'] != r or p['validate_panics'] == r
    return {'confirmed': bool(bad), 'why': 'native behaviour matches the reference', 'replay': {'op': nat['op'], 'args': nat['args']}, 'what': v['what'] + ': ' + desc}
import re

def key_of(v): return '%s:%s:%s' % (v['type'], v['kind'], v['what'][:50])

def main(tier, seed):
    from framework import Runner, Query
    R = Runner('C13', tier, seed); R.setup()
    R.assumptions += ['floats are symbolic IEEE-754 binary64 values in z3\'s FP theory (all bit patterns); no bound on values',
                      'arities 0..5 for try_from_floats; the n-th root (libm powf) is outside the claim']
    plist = []
    for kind in ('truth', 'budget'):
        sp = SPEC[kind]
        for k in range(0, 6): plist.append(dict(kind=kind, mode='from', k=k))
        for k in range(1, sp['max'] + 1): plist.append(dict(kind=kind, mode='new', k=k))
        for k in range(0, sp['max'] + 1):
            for gi in range(len(sp['gets'])): plist.append(dict(kind=kind, mode='get', k=k, getter=gi))
    plist.append(dict(kind='truth', mode='evident', k=1))
    R.run_query(Query('floats', 'c13', 'path', plist, 'every f64 bit pattern for each component; arities 0..5'), confirm, key_of)
    return R.finish(rule='one state = one path of a constructor/accessor on symbolic doubles; obligations decided by z3 (QF_FP)', trusted=['rustc MIR (crate + nar_dev_utils)', 'mirsym', 'z3 FP theory'])
