"""C02 — lexical Narsese survives format-then-parse in every shipped lexical format.

Lexical values are built directly (the lexical model does not interpret them): every prefix / connecter / bracket
pair / copula / punctuation / stamp form of the lexical format's OWN vocabulary, any arity (1..3 components, also for
"unary" or "binary" connecters), nesting, 0..4 truth / budget entries; identifier names are symbolic strings that the
format accepts and that contain no keyword.  The REAL lexical formatter and parser (MIR, incl. nar_dev_utils
dictionaries) must return exactly the original structure."""
from common import *
from lexspec import *

def sym_name(it, ctx, voc, i, n=1):
    cs = []
    for j in range(n):
        c = z3.BitVec('n%d_%d' % (i, j), 32); ctx.assume(models_str.valid_char(c))
        if not ctx.branch(it.call_value(voc['is_identifier'], [c])): raise Infeasible()
        cs.append(c)
    kws = set()
    for key in ('prefixes', 'connecters', 'copulas', 'punctuations'):
        kws.update(voc[key])
    for key in ('set_brackets', 'stamp_brackets'):
        for l, r in voc[key]: kws.update([l, r])
    for key in ('brackets', 'stmt_brackets', 'truth_brackets', 'budget_brackets'): kws.update(voc[key])
    kws.update([voc['separator'], voc['truth_separator'], voc['budget_separator']])
    for k in kws:
        if not k: continue
        for p in range(0, len(cs) - len(k) + 1):
            ctx.assume(z3.Not(z3.And(*[cs[p + q] == ord(ch) for q, ch in enumerate(k)])))
    return cs

def instantiate(it, ctx, voc, spec):
    memo = {}
    def walk(s):
        if isinstance(s, tuple) and len(s) == 3 and s[0] == 'sym':
            if s[1] not in memo: memo[s[1]] = sym_name(it, ctx, voc, s[1], s[2])
            return memo[s[1]]
        if isinstance(s, tuple): return tuple(walk(x) for x in s)
        if isinstance(s, list): return [walk(x) for x in s]
        return s
    return walk(spec)

def path(engine, ctx, params):
    it = engine.new_interp(ctx, step_limit=1500000)
    lf = lexical_format(it, params['fmt'])
    voc = lex_vocab(it, lf)
    spec = instantiate(it, ctx, voc, params['spec'])
    v = build_lnarsese(it, spec)
    text = lex_format(it, lf, v)
    r = lex_parse(it, lf, list(text.ch))
    m = ctx.model()
    want = canon_lex_narsese(v, m)
    got = canon_result(r, canon_lex_narsese, m)
    ctext = concretize(ctx, list(text.ch), m)
    cs = conc_lspec(spec, m)
    native = {'op': 'lex_rt_value', 'args': [params['fmt'], lnarsese_tokens(cs)], 'interp': ['ok', {'text': show(ctext), 'equal': got == ['Ok', want]}], 'project': ['text', 'equal']}
    if got == ['Ok', want]:
        return {'status': 'ok', 'sample': {'fmt': params['fmt'], 'shape': params['name'], 'text': show(ctext)}, 'extra': {'fns': list(it.fn_seen), 'native': native}}
    return {'status': 'violation', 'kind': 'lexical-roundtrip', 'fmt': params['fmt'], 'shape': params['name'], 'tokens': lnarsese_tokens(cs), 'text': ctext, 'got': got, 'want': want,
            'merge': params['fmt'] == 'han' and name_merges_with_copula(want, voc['copulas']),
            'message': '%s lexical %s prints as %r which parses to %s' % (params['fmt'], params['name'], show(ctext), json.dumps(got, ensure_ascii=False)[:120]), 'fns': list(it.fn_seen)}

def confirm(v, oracle):
    st, p = oracle.ask('lex_rt_value', v['fmt'], v['tokens'])
    rp = {'op': 'lex_rt_value', 'args': [v['fmt'], v['tokens']], 'text': show(v['text'])}
    if st == 'panic': return {'confirmed': True, 'replay': rp, 'what': 'panic: %s' % p}
    return {'confirmed': p['equal'] is False, 'why': 'native lexical round trip is exact', 'replay': rp,
            'what': '%s lexical value %s prints as %r and parses to %s' % (v['fmt'], json.dumps(p['value'], ensure_ascii=False)[:100], p['text'], json.dumps(p['parsed'], ensure_ascii=False)[:140])}

def name_merges_with_copula(t, copulas):
    """does the value contain a statement whose subject is an atom whose name ends with chars that, glued to the statement's copula, spell a
    longer copula of the format?  (the Han format prints subject and copula without a separator)"""
    if isinstance(t, list):
        if t and t[0] == 'Statement' and isinstance(t[2], list) and t[2] and t[2][0] == 'Atom':
            name, cop = t[2][2], t[1]
            for k in range(1, len(name) + 1):
                if any(c2 != cop and c2 == name[-k:] + cop for c2 in copulas): return True
        return any(name_merges_with_copula(x, copulas) for x in t)
    return False

def key_of(v):
    # Han: a name that ends with the first char of a two-char keyword merges with the following keyword (decided on the value, at any nesting)
    if v['fmt'] == 'han' and v.get('merge'):
        return 'han:name-plus-copula-reads-as-longer-copula'
    return '%s:%s' % (v['fmt'], v['shape'].split('#')[0])

def shapes_for(voc, tier):
    from shapes import N
    quick = tier == 'quick'
    a = lambda i: ('LA', '', N(i, 1))
    out = []
    for p in voc['prefixes']:
        out.append(('atom/prefix#' + p, ('Term', ('LA', p, N(0, 1) if p != '_' else ''))))
    out.append(('atom/len2', ('Term', ('LA', '', N(0, 2)))))
    for c in voc['connecters']:
        for n in ((2,) if quick else (1, 2, 3)):
            out.append(('compound/%d#%s' % (n, c), ('Term', ('LC', c, [a(i) for i in range(n)]))))
    for l, r in voc['set_brackets']:
        for n in ((1, 2) if quick else (1, 2, 3)):
            out.append(('set/%d#%s' % (n, l), ('Term', ('LS', l, [a(i) for i in range(n)], r))))
    for c in voc['copulas']:
        out.append(('statement#' + c, ('Term', ('LT', c, a(0), a(1)))))
    cop = voc['copulas'][0]; con = voc['connecters'][0]; sl, sr = voc['set_brackets'][0]
    out.append(('nest/stmt-in-compound', ('Term', ('LC', con, [('LT', cop, a(0), a(1)), ('LS', sl, [a(2)], sr)]))))
    out.append(('nest/compound-in-stmt', ('Term', ('LT', cop, ('LC', con, [a(0), a(1)]), ('LT', voc['copulas'][-1], a(1), a(2))))))
    out.append(('nest/deep', ('Term', ('LS', sl, [('LS', sl, [('LC', con, [('LS', sl, [a(0)], sr)])], sr)], sr))))
    stmt = ('LT', cop, a(0), a(1))
    stamps = ['']
    for l, r in voc['stamp_brackets']:
        stamps.append(l + ('-12' if l != '' or r in (':',) else '') + r if (l, r) == (':!', ':') or 'fixed' in l else l + r)
        if l not in ('',) and (l + r) not in stamps: stamps.append(l + '5' + r)
    for p in voc['punctuations']:
        for st in (stamps[:3] if quick else stamps):
            for tr in ([], ['1', '0.9'], ['0.9', '0.9'], ['1', '0.5', '1']) if quick else ([], ['0.5'], ['1', '0.9'], ['0.9', '0.9'], ['0', '0.25', '1'], ['1', '0.5', '1'], ['1', '1', '1', '1']):
                out.append(('sentence#%s/%s/%d' % (p, st, len(tr)), ('Sentence', stmt, p, st, tr)))
    # every punctuation directly after a bare identifier (no bracket between the name and the mark)
    for p in voc['punctuations']:
        out.append(('sentence-atom#%s' % p, ('Sentence', a(0), p, '', [])))
        out.append(('sentence-atom-st#%s' % p, ('Sentence', a(0), p, stamps[-1], [])))
    for b in ([], ['0.5'], ['0.5', '0.75', '0.25'], ['0.5', '0.5'], ['1', '0', '1']) if quick else ([], ['0.5'], ['0.5', '0.75'], ['0.5', '0.75', '0.25'], ['1', '0', '1', '0.5']):
        out.append(('task/%d' % len(b), ('Task', b, stmt, voc['punctuations'][0], stamps[1] if len(stamps) > 1 else '', ['1', '0.9'])))
        out.append(('task-atom/%d' % len(b), ('Task', b, a(0), voc['punctuations'][-1], '', [])))
    # generated nested lexical terms over the format's own vocabulary (any connecter/arity, duplicates allowed), deterministic per VERIF_SEED
    import random, zlib, os
    rng = random.Random(zlib.crc32(('c02-%s-%s' % (os.environ.get('VERIF_SEED', '0') or '0', sl)).encode()))
    def gterm(d):
        if d == 0 or rng.random() < 0.25:
            p = rng.choice(voc['prefixes']); return ('LA', p, N(rng.randrange(3), 1) if p != '_' else '')
        c = rng.choice(['C', 'C', 'S', 'T', 'T'])
        if c == 'C':
            kids = [gterm(d - 1) for _ in range(rng.randrange(1, 4))]
            if rng.random() < 0.25: kids.append(kids[0])
            return ('LC', rng.choice(voc['connecters']), kids)
        if c == 'S':
            l, r = rng.choice(voc['set_brackets']); kids = [gterm(d - 1) for _ in range(rng.randrange(1, 4))]
            if rng.random() < 0.25: kids.insert(0, kids[0])
            return ('LS', l, kids, r)
        return ('LT', rng.choice(voc['copulas']), gterm(d - 1), gterm(d - 1))
    for i in range(12 if quick else 150):
        t = gterm(3)
        out.append(('gen/%d/%s' % (i, t[0]), ('Term', t)))
        if i % 3 == 0:
            out.append(('gen/%d/sentence' % i, ('Sentence', t, rng.choice(voc['punctuations']), rng.choice(stamps), rng.choice([[], ['1'], ['0.5', '0.5'], ['1', '0', '0.25']]))))
    return out

def main(tier, seed):
    from framework import Runner, Query
    R = Runner('C02', tier, seed); R.setup()
    R.blocks = models_str.STD_BLOCKS       # symbolic name chars range over Latin..Latin Ext-B, CJK punctuation + ideographs, fullwidth forms, pictographs (thorough adds an all-Unicode query where noted)
    R.assumptions += ['values: every keyword of the lexical format\'s own tables in its role, arities 1..3 (quick: 2), nestings to depth 4, truth/budget lists of 0..4 numeric strings; names 1 (and 2) symbolic identifier chars containing no keyword',
                      'stamp strings are the format\'s own stamp forms (fixed stamps with a small integer)']
    it = R.engine.new_interp()
    for fmt in FORMATS:
        voc = lex_vocab(it, lexical_format(it, fmt))
        shapes = shapes_for(voc, tier)
        if tier == 'quick' and fmt == 'han':
            import c01
        plist = [dict(fmt=fmt, name=nm, spec=sp) for nm, sp in shapes]
        R.run_query(Query('lexical-roundtrip/' + fmt, 'c02', 'path', plist, '%d lexical value shapes over the format\'s own vocabulary' % len(shapes)), confirm, key_of)
    return R.finish(rule='one state = one path of lexical formatter + lexical parser on one value shape with symbolic names', trusted=['rustc MIR (crate + nar_dev_utils)', 'mirsym + std models (validated per path)', 'z3'])
