"""Value shapes (specs with symbolic-name placeholders) shared by C01/C03/C09/C10/C11/C12/C15/C16 checks.
A name placeholder is ('sym', id, length); numbers are concrete members of small stated sets."""
import itertools

def N(i, n=1): return ('sym', i, n)
A = lambda i, n=1: ('Word', N(i, n))

ATOMS = lambda i, n=1: [('Word', N(i, n)), ('VariableIndependent', N(i, n)), ('VariableDependent', N(i, n)), ('VariableQuery', N(i, n)), ('Operator', N(i, n))]

def depth1_terms(n0=1, n1=1):
    a, b, c = A(0, n0), A(1, n1), ('Word', 'k')
    out = []
    out += [('atom/' + t[0], t) for t in ATOMS(0, n0)]
    out += [('atom/Placeholder', ('Placeholder',)), ('atom/Interval', ('Interval', 7))]
    for k in ('SetExtension', 'SetIntension', 'IntersectionExtension', 'IntersectionIntension', 'Conjunction', 'Disjunction', 'ConjunctionParallel'):
        out.append(('set/' + k, (k, [a, b])))
    out.append(('set/SetExtension1', ('SetExtension', [a])))
    for k in ('Product', 'ConjunctionSequential'):
        out.append(('vec/' + k, (k, [a, b])))
    for k in ('ImageExtension', 'ImageIntension'):
        for idx in (0, 1, 2):
            out.append(('image/%s@%d' % (k, idx), (k, idx, [a, b])))
    out.append(('unary/Negation', ('Negation', a)))
    for k in ('DifferenceExtension', 'DifferenceIntension', 'Inheritance', 'Similarity', 'Implication', 'Equivalence', 'ImplicationPredictive',
              'ImplicationConcurrent', 'ImplicationRetrospective', 'EquivalencePredictive', 'EquivalenceConcurrent'):
        out.append(('bin/' + k, (k, a, b)))
    return out

def nested_terms():
    a, b = A(0), A(1)
    return [
        ('nest/stmt-in-set', ('SetExtension', [('Inheritance', a, b)])),
        ('nest/set-in-stmt', ('Inheritance', ('SetExtension', [a]), ('SetIntension', [b]))),
        ('nest/neg-conj', ('Negation', ('Conjunction', [a, ('Negation', b)]))),
        ('nest/image-in-prod', ('Product', [('ImageExtension', 1, [a, b]), ('Interval', 3), ('Placeholder',)])),
        ('nest/stmt-stmt', ('Implication', ('Similarity', a, b), ('EquivalenceConcurrent', b, a))),
        ('nest/deep-sets', ('SetExtension', [('SetIntension', [('SetExtension', [a])])])),
        ('nest/var-op', ('Inheritance', ('Product', [('VariableIndependent', N(0)), ('VariableDependent', N(1))]), ('Operator', N(2)))),
        ('nest/diff-seq', ('ConjunctionSequential', [('DifferenceIntension', a, b), ('Interval', 0), ('VariableQuery', N(2))])),
    ]

TRUTHS = [(), (1.0,), (0.5, 0.9), (0.0, 1.0), (0.123456789, 1e-07)]
BUDGETS = [(), (0.5,), (0.5, 0.75), (0.5, 0.75, 0.25), (1.0, 0.0, 1e-05)]
STAMPS = [('Eternal',), ('Past',), ('Present',), ('Future',), ('Fixed', 0), ('Fixed', -1), ('Fixed', 9223372036854775807), ('Fixed', -9223372036854775808)]
PUNCTS = ['Judgement', 'Goal', 'Question', 'Quest']

def sentences(term):
    out = []
    for p in PUNCTS:
        for st in STAMPS[:5] if p != 'Judgement' else STAMPS:
            for tr in (TRUTHS if p in ('Judgement', 'Goal') else TRUTHS[:1]):
                out.append(('sent/%s/%s/%d' % (p, '_'.join(map(str, st)), len(tr)), ('Sentence', p, term, st, tr)))
    return out

def tasks(term):
    out = []
    for b in BUDGETS:
        for p, st, tr in (('Judgement', ('Eternal',), (1.0, 0.9)), ('Goal', ('Present',), ()), ('Question', ('Fixed', -3), ()), ('Quest', ('Eternal',), ())):
            out.append(('task/%d/%s' % (len(b), p), ('Task', b, p, term, st, tr)))
    return out

def subst_names(spec, names):
    """replace ('sym', id, n) by names[id] (list of chars / str) throughout a spec"""
    if isinstance(spec, tuple) and len(spec) == 3 and spec[0] == 'sym': return names[spec[1]]
    if isinstance(spec, tuple): return tuple(subst_names(x, names) for x in spec)
    if isinstance(spec, list): return [subst_names(x, names) for x in spec]
    return spec

def sym_ids(spec, out=None):
    out = {} if out is None else out
    if isinstance(spec, tuple) and len(spec) == 3 and spec[0] == 'sym': out[spec[1]] = spec[2]
    elif isinstance(spec, (tuple, list)):
        for x in spec: sym_ids(x, out)
    return out


def gen_terms(n, seed, depth=3, nnames=3):
    """n pseudo-random well-formed term SHAPES of nesting depth <= depth (<= 3 children per compound): every constructor, images with
    any valid placeholder index, intervals from a small set; atom names stay symbolic placeholders N(0..nnames-1).  Deterministic per seed."""
    import random, zlib
    rng = random.Random(zlib.crc32(('shapes-%s' % seed).encode()))
    ATOMK = ['Word', 'VariableIndependent', 'VariableDependent', 'VariableQuery', 'Operator']
    SETK = ['SetExtension', 'SetIntension', 'IntersectionExtension', 'IntersectionIntension', 'Conjunction', 'Disjunction', 'ConjunctionParallel']
    BINK = ['DifferenceExtension', 'DifferenceIntension', 'Inheritance', 'Similarity', 'Implication', 'Equivalence', 'ImplicationPredictive',
            'ImplicationConcurrent', 'ImplicationRetrospective', 'EquivalencePredictive', 'EquivalenceConcurrent']
    def atom(allow_special=True):
        r = rng.random()
        if allow_special and r < 0.1: return ('Interval', rng.choice([0, 1, 7, 42]))
        return (rng.choice(ATOMK), N(rng.randrange(nnames)))
    def term(d):
        if d == 0 or rng.random() < 0.2: return atom()
        c = rng.choice(['set', 'set', 'vec', 'image', 'neg', 'bin', 'bin', 'bin'])
        if c == 'set': return (rng.choice(SETK), [term(d - 1) for _ in range(rng.randrange(1, 4))])
        if c == 'vec': return (rng.choice(['Product', 'ConjunctionSequential']), [term(d - 1) for _ in range(rng.randrange(1, 4))])
        if c == 'image':
            cs = [term(d - 1) for _ in range(rng.randrange(1, 4))]; return (rng.choice(['ImageExtension', 'ImageIntension']), rng.randrange(len(cs) + 1), cs)
        if c == 'neg': return ('Negation', term(d - 1))
        return (rng.choice(BINK), term(d - 1), term(d - 1))
    out = []
    for i in range(n):
        t = term(depth)
        while t[0] in ATOMK or t[0] == 'Interval': t = term(depth)
        out.append(('gen/%d/%s' % (i, t[0]), t))
    return out


def gen_concrete(n, seed, depth=3):
    """n generated values with concrete names (for corpora of printed samples): terms of gen_terms with names a/b/c, every third wrapped in a sentence or task"""
    import random, zlib
    rng = random.Random(zlib.crc32(('concrete-%s' % seed).encode()))
    out = []
    for i, (nm, t) in enumerate(gen_terms(n, 'c%s' % seed, depth)):
        t = subst_names(t, {0: 'a', 1: 'bb', 2: 'c7'})
        if i % 3 == 1: out.append(('Sentence', rng.choice(PUNCTS[:2]), t, rng.choice(STAMPS[:6]), rng.choice(TRUTHS[:3])))
        elif i % 3 == 2: out.append(('Task', rng.choice(BUDGETS[:4]), rng.choice(PUNCTS), t, rng.choice(STAMPS[:6]), ()))
        else: out.append(('Term', t))
    return out
