"""C17 — term mutators change exactly what they say, or fail and change nothing.

Paths run the REAL `set_atom_name` / `get_atom_name` / `push_components` (MIR) on every constructor shape with a
symbolic new name (0..3 arbitrary chars) or symbolic appended components, and compare outcome and post-state with the
reference model; std's integer parser is a model validated per path against the native build."""
from common import *
from shapes import N
import re as _re

NAMED = ('Word', 'VariableIndependent', 'VariableDependent', 'VariableQuery', 'Operator')
VECLIKE = ('Product', 'ImageExtension', 'ImageIntension', 'ConjunctionSequential')
SETLIKE = ('SetExtension', 'SetIntension', 'IntersectionExtension', 'IntersectionIntension', 'Conjunction', 'Disjunction', 'ConjunctionParallel')

def all_shapes():
    a, b = ('Word', 'a'), ('Word', 'b')
    out = [(k, (k, 'old')) for k in NAMED] + [('Placeholder', ('Placeholder',)), ('Interval', ('Interval', 5))]
    out += [(k, (k, [a, b])) for k in SETLIKE] + [(k, (k, [a, b])) for k in ('Product', 'ConjunctionSequential')]
    out += [('ImageExtension', ('ImageExtension', 1, [a, b])), ('ImageIntension', ('ImageIntension', 2, [a, b])), ('Negation', ('Negation', a))]
    out += [(k, (k, a, b)) for k in ('DifferenceExtension', 'DifferenceIntension', 'Inheritance', 'Similarity', 'Implication', 'Equivalence', 'ImplicationPredictive',
                                     'ImplicationConcurrent', 'ImplicationRetrospective', 'EquivalencePredictive', 'EquivalenceConcurrent')]
    return out

def canon_sorted(j): return ckey(j)

def spec_canon(t):
    """canonical JSON (as the oracle prints it) of a concrete spec"""
    k = t[0]
    if k in TERM_ATOMS: return [k, t[1]]
    if k == 'Placeholder': return [k]
    if k == 'Interval': return [k, str(t[1])]
    if k in TERM_SETS:
        items = []
        for x in t[1]:
            c = spec_canon(x)
            if c not in items: items.append(c)
        return [k, sorted(items, key=canon_sorted)]
    if k in TERM_VECS: return [k, [spec_canon(x) for x in t[1]]]
    if k in TERM_IMAGES: return [k, str(t[1]), [spec_canon(x) for x in t[2]]]
    if k == 'Negation': return [k, spec_canon(t[1])]
    return [k, spec_canon(t[1]), spec_canon(t[2])]

def path_rename(engine, ctx, params):
    it = engine.new_interp(ctx, step_limit=200000)
    kind, spec = params['shape']
    spec = tuple(spec)
    t = build_term(it, spec)
    before = canon_term(t)
    name = []
    for j in range(params['len']):
        c = z3.BitVec('c%d' % j, 32); ctx.assume(models_str.valid_char(c)); name.append(c)
    for j, cp in enumerate(params.get('fixed', [])):
        if cp is not None: ctx.assume(name[j] == cp)
    cell = [t]
    r = it.call_named('impls::<impl %s>::set_atom_name' % TERM_TY, [Ref(cell, 0), Str(name)], ['&mut ' + TERM_TY, '&str'], None)
    pin_numbers(ctx, cell[0])
    got = it.call_named('impls::<impl %s>::get_atom_name' % TERM_TY, [Ref(cell, 0)], ['&' + TERM_TY], None)
    m = ctx.model()
    cname = ''.join(chr(m.eval(c, model_completion=True).as_long()) for c in name)
    after = canon_term(cell[0], m)
    gname = None if got.variant == 'None' else cstr(got.f[0], m)
    ok = r.variant == 'Ok'
    bad = None
    if kind in NAMED:
        exp_after = [kind, cname]
        if not ok: bad = 'renaming a %s fails' % kind
        elif after != exp_after: bad = 'after renaming the term is %s' % after
        elif gname != cname: bad = 'get_atom_name returns %r after set_atom_name(%r)' % (gname, cname)
        elif not (len(cell[0].f[0].ch) == len(name) and all(x is y or (is_sym(x) and is_sym(y) and x.eq(y)) for x, y in zip(cell[0].f[0].ch, name))): bad = 'stored name is not the given name verbatim'
    elif kind == 'Interval':
        mm = _re.fullmatch(r'\+?[0-9]+', cname)
        exp_ok = bool(mm) and int(cname) <= (1 << 64) - 1
        if ok != exp_ok: bad = 'set_atom_name(%r) on an interval returns %s' % (cname, r.variant)
        elif ok and after != ['Interval', str(int(cname))]: bad = 'interval value after set_atom_name(%r) is %s' % (cname, after)
        elif not ok and after != before: bad = 'failed rename changed the interval'
        elif ok and gname != str(int(cname)): bad = 'get_atom_name gives %r' % gname
    elif kind == 'Placeholder':
        if not ok or after != before: bad = 'placeholder: result %s, term %s' % (r.variant, after)
        elif gname != '': bad = 'placeholder name is %r' % gname
    else:
        if ok: bad = 'renaming a %s succeeds' % kind
        elif after != before: bad = 'failed rename changed the term'
        elif gname is not None: bad = 'get_atom_name on a %s returns %r' % (kind, gname)
    tok = ' '.join(term_tokens(spec))
    native = {'op': 'set_atom_name', 'args': [tok, hexs(cname)], 'interp': ['ok', {'ok': ok, 'term': after, 'name': gname}]}
    if bad is None:
        return {'status': 'ok', 'sample': {'shape': kind, 'new name': cname, 'result': r.variant, 'after': after}, 'extra': {'fns': list(it.fn_seen), 'native': native}}
    return {'status': 'violation', 'kind': 'rename', 'shape': kind, 'what': bad, 'native': native, 'message': bad, 'fns': list(it.fn_seen)}

def path_push(engine, ctx, params):
    it = engine.new_interp(ctx, step_limit=300000)
    kind, spec = params['shape']
    spec = tuple(spec)
    t = build_term(it, spec)
    before = canon_term(t)
    comps = []
    kinds = params.get('kinds') or ['W'] * params['n']
    for i, kd in enumerate(kinds):
        if kd == 'P': comps.append(('Placeholder',)); continue
        if kd == 'I': comps.append(('Interval', 3)); continue
        c = z3.BitVec('p%d' % i, 32); ctx.assume(models_str.valid_char(c)); comps.append(('Word', [c]))
    cvals = RVec([build_term(it, c) for c in comps])
    cell = [t]
    r = it.call_named('impls::<impl %s>::push_components::<%s>' % (TERM_TY, VEC_TERM), [Ref(cell, 0), cvals], ['&mut ' + TERM_TY, VEC_TERM], None)
    m = ctx.model()
    cspecs = [c if c[0] != 'Word' else ('Word', chr(m.eval(c[1][0], model_completion=True).as_long())) for c in comps]
    cn = [c[1] if c[0] == 'Word' else c[0] for c in cspecs]
    after = canon_term(cell[0], m); ok = r.variant == 'Ok'
    bad = None
    if kind in VECLIKE:
        exp = list(spec); exp[-1] = list(spec[-1]) + cspecs
        if not ok: bad = 'push_components fails on %s' % kind
        elif after != spec_canon(tuple(exp)): bad = 'after pushing %s the term is %s' % (cn, after)
    elif kind in SETLIKE:
        exp = (kind, list(spec[1]) + cspecs)
        if not ok: bad = 'push_components fails on %s' % kind
        elif after != spec_canon(exp): bad = 'after uniting %s the term is %s' % (cn, after)
    else:
        if ok: bad = 'push_components succeeds on %s' % kind
        elif after != before: bad = 'failed push changed the term'
    tok = ' '.join(term_tokens(spec))
    native = {'op': 'push_components', 'args': [tok, '|'.join(' '.join(term_tokens(c)) for c in cspecs) or '-'], 'interp': ['ok', {'ok': ok, 'term': after}]}
    if bad is None:
        return {'status': 'ok', 'sample': {'shape': kind, 'pushed': cn, 'result': r.variant, 'after': after}, 'extra': {'fns': list(it.fn_seen), 'native': native}}
    return {'status': 'violation', 'kind': 'push', 'shape': kind, 'what': bad, 'native': native, 'message': bad, 'fns': list(it.fn_seen)}

def confirm(v, oracle):
    nat = v['native']
    st, p = oracle.ask(nat['op'], *nat['args'])
    # the interpreter's outcome equals the native outcome iff the native build misbehaves the same way
    same = (st == 'ok' and p == nat['interp'][1]) or (st == 'panic' and nat['interp'][0] == 'panic')
    return {'confirmed': bool(same) or st == 'panic', 'why': 'native outcome differs from the interpreter\'s', 'replay': {'op': nat['op'], 'args': nat['args']},
            'what': '%s: native %s(%s) -> %s' % (v['what'], nat['op'], ', '.join(nat['args']), json.dumps(p, ensure_ascii=False)[:160])}

def key_of(v): return '%s:%s:%s' % (v['kind'], v['shape'], _re.sub(r"'[^']*'|\[.*\]", '_', v['what'])[:50])

def main(tier, seed):
    from framework import Runner, Query
    R = Runner('C17', tier, seed); R.setup()
    quick = tier == 'quick'
    R.assumptions += ['new names: every string of 0..%d arbitrary Unicode chars (plus boundary numerals for intervals); pushed component lists of 0..2 atoms with arbitrary names' % (3 if quick else 4),
                      'std str::parse::<usize> is a Python model, validated against the native build on every path']
    shapes = all_shapes()
    plist = []
    for sh in shapes:
        for L in range(0, (4 if quick else 5)):
            if sh[0] not in NAMED + ('Interval',) and L > 1: continue
            plist.append(dict(shape=sh, len=L))
    for s in ('18446744073709551615', '18446744073709551616', '+0', '+', '0007', '-1', '+18446744073709551615', '99999999999999999999'):
        plist.append(dict(shape=('Interval', ('Interval', 5)), len=len(s), fixed=[ord(c) for c in s]))
    R.run_query(Query('rename', 'c17', 'path_rename', plist, '%d shapes (all 30 constructors) x names of 0..%d arbitrary chars + 8 boundary numerals' % (len(shapes), 3 if quick else 4)), confirm, key_of)
    import itertools
    plist = [dict(shape=sh, n=n) for sh in shapes for n in range(0, 3)]
    plist += [dict(shape=sh, n=len(k), kinds=list(k)) for sh in shapes for n_ in (1, 2, 3) for k in itertools.product('WPI', repeat=n_) if ('P' in k or 'I' in k) and (n_ < 3 or k.count('W') <= 1)]
    R.run_query(Query('push', 'c17', 'path_push', plist, '%d shapes x pushed lists of 0..3 components drawn from {word with arbitrary name, placeholder, interval}' % len(shapes)), confirm, key_of)
    return R.finish(rule='one state = one path of a mutator on one shape with symbolic arguments', trusted=['rustc MIR', 'mirsym + std models (validated per path)', 'z3'])
