"""C04 — the enum parser is total.

Decided by symbolic execution of the REAL parser (MIR of /repo's current tree) with z3:
  Q-all   every string of length <= N over ALL Unicode scalar values, per format and entry point
  Q-trunc well-formed sample strings cut at every position and continued by one arbitrary char (truncated /
          unbalanced inputs, deep nesting), and with every single position replaced by an arbitrary char
  Q-win   ParseError::new (the +-4 window) for env lengths 0..L and EVERY 64-bit cursor value
A path that panics, or exceeds the step budget, is a candidate violation; it is reported only after the concrete
input the solver produced panics/hangs in the natively compiled crate."""
from common import *

ENTRIES = {'multi': 'parse_multi', 'parse': 'parse', 'parse_chars': 'parse_chars', 'truth': 'parse_truth', 'budget': 'parse_budget',
           'stamp': 'parse_stamp', 'punct': 'parse_punct'}

def run_entry(it, fmt, entry, chars):
    if entry == 'multi':
        import c08
        return c08.parse_multi(it, fmt, [chars]).items[0]
    if entry == 'parse': return parse_enum(it, fmt, chars)
    if entry == 'parse_chars': return parse_enum_chars(it, fmt, chars)
    return parse_enum(it, fmt, chars, TARGETS[entry])

def canon_for(entry, r):
    inner = {'multi': canon_narsese, 'parse': canon_narsese, 'parse_chars': canon_narsese, 'truth': canon_truth, 'budget': canon_budget,
             'stamp': canon_stamp, 'punct': lambda v, m=None: v.variant}[entry]
    return canon_result(r, inner)

def path(engine, ctx, params):
    """params: fmt, entry, template (list of cp|None)"""
    it = engine.new_interp(ctx, step_limit=params.get('step_limit', 150000))
    fmt = get_format(it, params['fmt'])
    chars, holes = sym_chars(ctx, params['template'])
    entry = params['entry']
    try:
        r = run_entry(it, fmt, entry, chars)
        if r.variant == 'Err':
            it.call_named('<%s as ToString>::to_string' % PERR_TY, [Ref(r.f, 0)], ['&' + PERR_TY], 'String')
        m = ctx.model()
        inp = concretize(ctx, chars, m)
        out = {'status': 'ok', 'sample': {'fmt': params['fmt'], 'entry': entry, 'input': show(inp), 'outcome': r.variant, 'mir_steps': it.steps},
               'extra': {'fns': list(it.fn_seen)}}
        try:
            out['extra']['native'] = {'op': ENTRIES[entry], 'args': [params['fmt'], hexs(inp)], 'interp': ['ok', (lambda c: [c] if entry == 'multi' else c)(canon_for(entry, r) if r.variant == 'Err' or not holes else canon_concrete(entry, r, m))]}
        except Exception:
            pass
        return out
    except RustPanic as p:
        inp = concretize(ctx, chars)
        return {'status': 'violation', 'kind': 'panic', 'message': p.msg[:200], 'input': inp, 'where': p.where[-60:], 'fmt': params['fmt'], 'entry': entry, 'fns': list(it.fn_seen)}
    except StepLimit as s:
        inp = concretize(ctx, chars)
        return {'status': 'violation', 'kind': 'steplimit', 'message': str(s), 'input': inp, 'where': '', 'fmt': params['fmt'], 'entry': entry, 'fns': list(it.fn_seen)}

def canon_concrete(entry, r, model):
    inner = {'multi': canon_narsese, 'parse': canon_narsese, 'parse_chars': canon_narsese, 'truth': canon_truth, 'budget': canon_budget,
             'stamp': canon_stamp, 'punct': lambda v, m=None: v.variant}[entry]
    return canon_result(r, inner, model)

def path_window(engine, ctx, params):
    """ParseError::new("m", env(len), index) for a symbolic 64-bit index"""
    it = engine.new_interp(ctx)
    n = params['len']
    idx = z3.BitVec('index', 64)
    env = RVec([ord('a')] * n)
    try:
        e = it.call_named('conversion::string::impl_enum::parser::ParseError::new', [mkstr('m'), env, idx], ['&str', 'std::vec::Vec<char>', 'usize'], PERR_TY)
        it.call_named('<%s as ToString>::to_string' % PERR_TY, [Ref([e], 0)], ['&' + PERR_TY], 'String')
        m = ctx.model(); iv = m.eval(idx, model_completion=True).as_long()
        return {'status': 'ok', 'sample': {'len': n, 'index': iv, 'outcome': 'constructed+displayed'}, 'extra': {'fns': list(it.fn_seen)}}
    except RustPanic as p:
        m = ctx.model(); iv = m.eval(idx, model_completion=True).as_long()
        return {'status': 'violation', 'kind': 'panic-window', 'message': p.msg[:200], 'len': n, 'index': iv, 'where': p.where[-60:], 'fns': list(it.fn_seen)}

# ------------------------------------------------------------------------------------------ driver side
def overshoot_inputs(fmtname, k):
    """concrete inputs that drive the cursor k or more positions past the end (used to turn a window counterexample
    into an end-to-end input): unterminated nested brackets"""
    opens = {'ascii': ['{', '[', '(&,', '<'], 'latex': ['\\left\\{', '\\left[', '\\left(\\times{}\;', '\\left<'],
             'han': ['『', '【', '（与，', '「']}[fmtname]
    out = []
    for depth in range(1, 9):
        for o in opens[:3]:
            out.append(opens[3] + o * depth + 'a')
            out.append(o * depth + 'a' + ' x')
    return out

def confirm(v, oracle):
    if v['kind'] in ('panic', 'steplimit'):
        st, payload = oracle.ask(ENTRIES[v['entry']], v['fmt'], hexs(v['input']))
        ok = (st == 'panic') if v['kind'] == 'panic' else (st == 'timeout')
        if st == 'timeout': payload = 'no answer within 20 s (the interpreter exceeded its step budget on the same input)'
        return {'confirmed': ok, 'why': 'native status %s' % st,
                'replay': {'op': ENTRIES[v['entry']], 'args': [v['fmt'], hexs(v['input'])], 'input': show(v['input']), 'expect': 'no panic'},
                'what': '%s in %s on %s %s input %r: %s' % ('panic' if st == 'panic' else 'non-termination', v['where'].split('::')[-1], v['fmt'], v['entry'], show(v['input']), payload if st in ('panic', 'timeout') else '')}
    if v['kind'] == 'panic-window':
        st, payload = oracle.ask('perr_new', hexs('a' * v['len']), str(v['index']))
        if st != 'panic': return {'confirmed': False, 'why': 'ParseError::new did not panic natively'}
        # look for an end-to-end input whose cursor overshoots far enough
        need = v['index'] - v['len']
        for f in FORMATS:
            for s in overshoot_inputs(f, need):
                st2, p2 = oracle.ask('parse', f, hexs(s))
                if st2 == 'panic':
                    return {'confirmed': True, 'replay': {'op': 'parse', 'args': [f, hexs(s)], 'input': s, 'expect': 'no panic',
                                                          'unit': {'op': 'perr_new', 'len': v['len'], 'index': v['index']}},
                            'what': 'error-window slice panics when the cursor is %d past the end (index=%d, len=%d); reachable: %s parse(%r) panics: %s' % (need, v['index'], v['len'], f, s, p2)}
        return {'confirmed': True, 'replay': {'op': 'perr_new', 'args': [hexs('a' * v['len']), str(v['index'])], 'expect': 'no panic'},
                'what': 'public ParseError::new(_, env[len=%d], index=%d) panics: %s' % (v['len'], v['index'], payload)}
    return {'confirmed': False}

def key_of(v):
    if v['kind'] == 'panic-window': return 'panic@generate_env_slice'
    if v['kind'] == 'panic': return 'panic@' + v['where'].split('::')[-1]
    return 'hang@' + v['fmt'] + ':' + v['entry']

SAMPLES = [
    ('Task', (0.5, 0.75, 0.25), 'Judgement', ('Inheritance', ('Product', [('SetExtension', [('Word', 'SELF')]), ('VariableIndependent', 'x'), ('Interval', 12)]), ('SetIntension', [('Word', 'good')])), ('Present',), (1.0, 0.9)),
    ('Sentence', 'Goal', ('Implication', ('Conjunction', [('Similarity', ('Word', 'a'), ('VariableDependent', 'b')), ('Negation', ('Operator', 'op'))]), ('ImageExtension', 1, [('Word', 'r'), ('VariableQuery', 'q')])), ('Fixed', -12), (0.5,)),
    ('Term', ('SetExtension', [('SetExtension', [('SetExtension', [('SetIntension', [('SetIntension', [('SetIntension', [('Word', 'deep')])])])])])])),
    ('Sentence', 'Question', ('EquivalencePredictive', ('DifferenceExtension', ('Word', 'a'), ('Word', 'b')), ('ConjunctionSequential', [('Word', 'c'), ('Interval', 3), ('Word', 'd')])), ('Future',), ()),
    ('Task', (), 'Quest', ('ImplicationRetrospective', ('IntersectionIntension', [('Word', 'x'), ('Word', 'y')]), ('ImageIntension', 0, [('Word', 'r'), ('Word', 's')])), ('Past',), ()),
    ('Term', ('Product', [('Product', [('Product', [('Product', [('Product', [('Product', [('Word', 'n')])])])])])])),
]

def sample_strings(oracle, fmt, upto):
    import os
    from shapes import gen_concrete
    out = []
    extra = gen_concrete(9, os.environ.get('VERIF_SEED', '0') or '0') if upto >= len(SAMPLES) else []          # thorough tiers: + generated nested samples
    for v in SAMPLES[:upto] + extra:
        st, s = oracle.ask('format', fmt, narsese_tokens(v))
        if st == 'ok': out.append(s)
    return out

def main(tier, seed):
    from framework import Runner, Query
    R = Runner('C04', tier, seed); R.setup()
    quick = tier == 'quick'
    n_all = {'parse': 2 if quick else 4, 'multi': 2 if quick else 3, 'parse_chars': 1 if quick else 3, 'truth': 3 if quick else 4, 'budget': 3 if quick else 4,
             'stamp': 3 if quick else 4, 'punct': 2 if quick else 3}
    R.assumptions += ['std APIs (Vec, String, HashSet, iterators, fmt, str::parse) are Python models validated against the native build on every explored path (traces_validated_against_impl) and on the repo\'s own string literals',
                      'HashSet iteration order modelled as insertion order', 'step budget 150000 MIR basic blocks per path stands for "terminates" (longest terminating path observed < 30000)',
                      'inputs longer than the stated bounds / nesting deeper than the sample corpus are outside the claim']
    # Q-win
    qs = [dict(len=n) for n in range(0, 7 if quick else 13)]
    R.run_query(Query('window', 'c04', 'path_window', qs, 'ParseError::new: env length 0..%d, every 64-bit cursor index' % (len(qs) - 1)), confirm, key_of)
    # Q-all
    for fmt in FORMATS:
        for entry, n in n_all.items():
            plist = [dict(fmt=fmt, entry=entry, template=[None] * k) for k in range(0, n + 1)]
            R.run_query(Query('all/%s/%s' % (fmt, entry), 'c04', 'path', plist, 'every string of 0..%d chars over all Unicode scalar values' % n), confirm, key_of)
    # Q-trunc
    for fmt in FORMATS:
        strs = sample_strings(R.oracle, fmt, 3 if quick else len(SAMPLES))
        plist = []
        for s in strs:
            cps = [ord(c) for c in s]
            step = 1
            for i in range(0, len(cps) + 1, step):
                plist.append(dict(fmt=fmt, entry='parse', template=cps[:i] + [None]))
                if not quick and i < len(cps):
                    plist.append(dict(fmt=fmt, entry='parse', template=cps[:i] + [None] + cps[i + 1:]))
        R.run_query(Query('trunc/%s' % fmt, 'c04', 'path', plist, '%d formatter-produced samples (nesting <= 6), cut at every position + one arbitrary char%s' % (len(strs), '' if quick else '; every single char replaced by an arbitrary char')), confirm, key_of)
    # deep nesting (the property's bound is 64 levels): every bracket kind nested 64 deep, unterminated / closed, + 1 arbitrary char
    it0 = R.engine.new_interp()
    for fmt in FORMATS:
        kw = keyword_table(it0, get_format(it0, fmt))
        opens = [(kw['compound.brackets_set_extension'][0], kw['compound.brackets_set_extension'][1]), (kw['compound.brackets_set_intension'][0], kw['compound.brackets_set_intension'][1]),
                 (kw['compound.brackets'][0] + kw['compound.connecter_product'] + kw['compound.separator'], kw['compound.brackets'][1]),
                 (kw['statement.brackets'][0], ' ' + kw['statement.copula_inheritance'] + ' b' + kw['statement.brackets'][1])]
        plist = []
        for o, c in opens:
            for depth in ((64,) if quick else (16, 64)):
                body = [ord(x) for x in o * depth + 'a']
                plist.append(dict(fmt=fmt, entry='parse', template=body + [None], step_limit=600000))
                plist.append(dict(fmt=fmt, entry='parse', template=body + [ord(x) for x in c * depth] + [None], step_limit=600000))
        R.run_query(Query('deep/' + fmt, 'c04', 'path', plist, 'each bracket kind nested 64 deep (open only / closed) + one arbitrary char'), confirm, key_of)
    return R.finish(rule='one state = one explored path (equivalence class of inputs under the parser\'s branch decisions); transitions = solver feasibility checks; every path\'s solver witness is re-run through the native crate and must agree',
                    trusted=['rustc nightly MIR dump of /repo', 'mirsym interpreter + std models (validated per path against native)', 'z3'])
