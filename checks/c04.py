"""C04 — totality of the enum parser: one symbolic path of an entry point on a (partly) symbolic input."""
from common import *

def run_entry(it, fmt, entry, chars):
    if entry == 'parse': return parse_enum(it, fmt, chars)
    if entry == 'parse_chars': return parse_enum_chars(it, fmt, chars)
    if entry in ('truth', 'budget', 'stamp', 'punct'): return parse_enum(it, fmt, chars, TARGETS[entry])
    raise ValueError(entry)

def path(engine, ctx, params):
    """params: fmt, entry, template (list of cp|None), [display]"""
    it = engine.new_interp(ctx, step_limit=params.get('step_limit', 400000))
    fmt = get_format(it, params['fmt'])
    chars, holes = sym_chars(ctx, params['template'])
    try:
        if params['entry'] == 'multi':
            # parse_multi over the template split at U+E000 markers is handled by c08; here: [template] alone
            r = run_entry(it, fmt, 'parse', chars)
        else:
            r = run_entry(it, fmt, params['entry'], chars)
        kind = r.variant
        if kind == 'Err' and params.get('display', True):
            s = it.call_named('<%s as ToString>::to_string' % PERR_TY, [Ref(r.f, 0)], ['&' + PERR_TY], 'String')
        inp = concretize(ctx, chars)
        return {'status': 'ok', 'sample': {'input': show(inp), 'outcome': kind, 'steps': it.steps}, 'extra': kind}
    except RustPanic as p:
        inp = concretize(ctx, chars)
        return {'status': 'violation', 'kind': 'panic', 'message': p.msg[:200], 'input': inp, 'where': p.where[-80:]}
    except StepLimit as s:
        inp = concretize(ctx, chars)
        return {'status': 'violation', 'kind': 'steplimit', 'message': str(s), 'input': inp}
