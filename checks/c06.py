"""C06 / C07 — term equality is semantic and hashing is consistent with it.

Paths run the REAL `PartialEq for Term` and `Hash for Term` (MIR) on pairs (and triples) of terms whose shapes are
concrete and whose atom names / numbers are symbolic.  The solver decides, under each path condition,
  C06: eq(a,b) <=> reference semantic equality (sets as sets, symmetric statements in either order), symmetry,
       reflexivity, transitivity;
  C07: eq(a,b) => hash(a) == hash(b), with the hasher modelled as a collision-free fold (uninterpreted functions),
       so only write sequences that are forced equal count as equal hashes.
Set-like variants compare through std HashSet, which is only correct if element hashing agrees with equality; so a
C07 failure on the elements of a set is also reported by C06 (nested sets compare unequal natively)."""
from common import *
from shapes import N
import models_coll

SETS = ('SetExtension', 'SetIntension', 'IntersectionExtension', 'IntersectionIntension', 'Conjunction', 'Disjunction', 'ConjunctionParallel')
SYMM = ('Similarity', 'Equivalence', 'EquivalenceConcurrent')

def zand(xs):
    xs = [x for x in xs if x is not True]
    if any(x is False for x in xs): return False
    return True if not xs else (xs[0] if len(xs) == 1 else z3.And(*xs))
def zor(xs):
    xs = [x for x in xs if x is not False]
    if any(x is True for x in xs): return True
    return False if not xs else (xs[0] if len(xs) == 1 else z3.Or(*xs))

def name_eq(a, b):
    a = [ord(c) for c in a] if isinstance(a, str) else list(a); b = [ord(c) for c in b] if isinstance(b, str) else list(b)
    if len(a) != len(b): return False
    out = []
    for x, y in zip(a, b):
        if isinstance(x, int) and isinstance(y, int):
            if x != y: return False
        else: out.append(x == y)
    return zand(out)

def ref_eq(a, b):
    """reference semantic equality of two specs (names may hold z3 chars, numbers z3 bit-vectors)"""
    if a[0] != b[0]: return False
    k = a[0]
    if k in TERM_ATOMS: return name_eq(a[1], b[1])
    if k == 'Placeholder': return True
    if k == 'Interval':
        if isinstance(a[1], int) and isinstance(b[1], int): return a[1] == b[1]
        return a[1] == b[1]
    if k in SETS:
        l = zand([zor([ref_eq(x, y) for y in b[1]]) for x in a[1]])
        r = zand([zor([ref_eq(x, y) for x in a[1]]) for y in b[1]])
        return zand([l, r])
    if k in TERM_VECS:
        if len(a[1]) != len(b[1]): return False
        return zand([ref_eq(x, y) for x, y in zip(a[1], b[1])])
    if k in TERM_IMAGES:
        if len(a[2]) != len(b[2]): return False
        i = (a[1] == b[1])
        return zand([i if not isinstance(i, bool) else i] + [ref_eq(x, y) for x, y in zip(a[2], b[2])])
    if k == 'Negation': return ref_eq(a[1], b[1])
    if k in SYMM:
        return zor([zand([ref_eq(a[1], b[1]), ref_eq(a[2], b[2])]), zand([ref_eq(a[1], b[2]), ref_eq(a[2], b[1])])])
    return zand([ref_eq(a[1], b[1]), ref_eq(a[2], b[2])])

def sym_spec(ctx, spec):
    """instantiate ('sym', id, n) names with z3 chars and ('symint', id) with z3 64-bit numbers"""
    memo = {}
    def walk(s):
        if isinstance(s, tuple) and len(s) == 3 and s[0] == 'sym':
            if s[1] not in memo:
                cs = []
                for j in range(s[2]):
                    c = z3.BitVec('n%d_%d' % (s[1], j), 32); ctx.assume(models_str.valid_char(c)); cs.append(c)
                memo[s[1]] = cs
            return memo[s[1]]
        if isinstance(s, tuple) and len(s) == 2 and s[0] == 'symint':
            key = ('i', s[1])
            if key not in memo: memo[key] = z3.BitVec('i%d' % s[1], 64)
            return memo[key]
        if isinstance(s, tuple): return tuple(walk(x) for x in s)
        if isinstance(s, list): return [walk(x) for x in s]
        return s
    return walk(spec), memo

def conc_spec(spec, m):
    def walk(s):
        if isinstance(s, list) and s and all(is_sym(c) or isinstance(c, int) for c in s) and not any(isinstance(c, (tuple, list)) for c in s):
            return ''.join(chr(c if isinstance(c, int) else m.eval(c, model_completion=True).as_long()) for c in s)
        if is_sym(s): return m.eval(s, model_completion=True).as_long()
        if isinstance(s, tuple): return tuple(walk(x) for x in s)
        if isinstance(s, list): return [walk(x) for x in s]
        return s
    return walk(spec)

def term_eq(it, a, b):
    return it.call_named('<%s as PartialEq>::eq' % TERM_TY, [Ref([a], 0), Ref([b], 0)], ['&' + TERM_TY, '&' + TERM_TY], 'bool')

def term_hash(it, t):
    hs = Opaque('hasher', models_coll.HasherState())
    it.call_named('<%s as Hash>::hash::<DefaultHasher>' % TERM_TY, [Ref([t], 0), Ref([hs], 0)], [None, None], None)
    return models_coll.uf('Fin', 1)(hs.data.h)

def path(engine, ctx, params):
    """params: specs [A, B(, C)], mode 'eq' | 'hash'"""
    it = engine.new_interp(ctx, step_limit=400000)
    specs, memo = sym_spec(ctx, tuple(params['specs']))
    def bound_idx(s):
        if isinstance(s, tuple) and s and isinstance(s[0], str) and s[0] in TERM_IMAGES and is_sym(s[1]): ctx.assume(z3.ULE(s[1], len(s[2])))
        if isinstance(s, (tuple, list)):
            for x in s:
                if isinstance(x, (tuple, list)): bound_idx(x)
    bound_idx(specs)
    terms = [build_term(it, s) for s in specs]
    a, b = terms[0], terms[1]
    sa, sb = specs[0], specs[1]
    bad = None
    r = ctx.branch(term_eq(it, a, b))
    ref = ref_eq(sa, sb)
    def feasible(c):
        if c is True: return True
        if c is False: return False
        return ctx._check(c)
    if params['mode'] == 'eq':
        if r and feasible(z3.Not(ref) if not isinstance(ref, bool) else (not ref)):
            ctx.assume(z3.Not(ref) if not isinstance(ref, bool) else True); bad = 'compares equal but denotes different terms'
        elif (not r) and feasible(ref):
            ctx.assume(ref if not isinstance(ref, bool) else True); bad = 'compares unequal but denotes the same term'
        if bad is None:
            r2 = ctx.branch(term_eq(it, b, a))
            if r2 != r: bad = 'a == b is %s but b == a is %s' % (r, r2)
        if bad is None and not ctx.branch(term_eq(it, a, a)): bad = 'a != a'
        if bad is None and len(terms) == 3:
            c = terms[2]
            if r and ctx.branch(term_eq(it, b, c)) and not ctx.branch(term_eq(it, a, c)): bad = 'a == b and b == c but a != c'
    if bad is None and r:
        ha, hb = term_hash(it, a), term_hash(it, b)
        if feasible(ha != hb):
            ctx.assume(ha != hb)
            bad = 'equal terms hash differently' if params['mode'] == 'hash' else 'equal terms hash differently (std HashSet equality of sets containing them is then unreliable)'
    m = ctx.model()
    cs = [conc_spec(s, m) for s in specs]
    toks = [' '.join(term_tokens(c)) for c in cs]
    if bad is None:
        return {'status': 'ok', 'sample': {'a': toks[0], 'b': toks[1], 'eq': r}, 'extra': {'fns': list(it.fn_seen),
                'native': {'op': 'term_eq', 'args': [toks[0], toks[1]], 'interp': ['ok', {'eq': r, 'eq_stable': True} if params['mode'] == 'eq' else {'eq': r}], 'project': ['eq', 'eq_stable'] if params['mode'] == 'eq' else ['eq']}}}
    return {'status': 'violation', 'kind': params['mode'], 'what': bad, 'pair': params['name'], 'tokens': toks, 'specs': cs, 'eq': r, 'message': bad + ': ' + toks[0] + '  vs  ' + toks[1], 'fns': list(it.fn_seen)}

def py_ref_eq(a, b):
    r = ref_eq(a, b)
    return bool(r) if isinstance(r, bool) else z3.is_true(z3.simplify(r))

def confirm(v, oracle):
    st, p = oracle.ask('term_eq', v['tokens'][0], v['tokens'][1])
    rp = {'op': 'term_eq', 'args': v['tokens'][:2]}
    if st != 'ok': return {'confirmed': st == 'panic', 'replay': rp, 'what': 'panic in ==/hash: %s' % p}
    want = py_ref_eq(tuple(v['specs'][0]) if isinstance(v['specs'][0], list) else v['specs'][0], v['specs'][1])
    if v['kind'] == 'hash' or 'hash differently' in v['what']:
        ok = (p['eq'] and not p['hash_eq']) or (not p['set_contains'] and p['eq']) or not p['eq_stable']
        return {'confirmed': bool(ok), 'why': 'native hashes agree over 64 rebuilds', 'replay': rp, 'what': '%s == %s is true but hashes differ / HashSet lookup fails (native, 64 rebuilds): %s' % (v['tokens'][0], v['tokens'][1], p)}
    ok = (p['eq'] != want) or not p['eq_stable']
    return {'confirmed': bool(ok), 'why': 'native == agrees with the reference', 'replay': rp, 'what': '%s == %s natively %s (stable=%s), semantic equality is %s' % (v['tokens'][0], v['tokens'][1], p['eq'], p['eq_stable'], want)}

def key_of(v):
    return '%s:%s:%s' % (v['kind'], v['pair'].split('/')[0], v['what'][:40])

def pairs():
    a, b, c = ('Word', N(0)), ('Word', N(1)), ('Word', N(2))
    out = []
    atoms = [('Word', N(0)), ('VariableIndependent', N(0)), ('VariableDependent', N(1)), ('VariableQuery', N(0)), ('Operator', N(1)), ('Placeholder',), ('Interval', ('symint', 0)), ('Interval', ('symint', 1))]
    for i, x in enumerate(atoms):
        for y in atoms[i:]: out.append(('atoms/%s-%s' % (x[0], y[0]), [x, y]))
    for k in SETS:
        out.append(('set/%s/swap' % k, [(k, [a, b]), (k, [b, a])]))
        out.append(('set/%s/dup' % k, [(k, [a, a, b]), (k, [b, a])]))
        out.append(('set/%s/sub' % k, [(k, [a, b]), (k, [a])]))
        out.append(('set/%s/3' % k, [(k, [a, b, c]), (k, [c, a, b])]))
    out.append(('set/cross', [('SetExtension', [a, b]), ('SetIntension', [a, b])]))
    out.append(('set/cross2', [('Conjunction', [a, b]), ('ConjunctionParallel', [b, a])]))
    for k in ('Product', 'ConjunctionSequential'):
        out.append(('vec/%s/swap' % k, [(k, [a, b]), (k, [b, a])]))
        out.append(('vec/%s/len' % k, [(k, [a, b]), (k, [a, b, c])]))
    out.append(('vec/cross', [('Product', [a, b]), ('ConjunctionSequential', [a, b])]))
    for k in ('ImageExtension', 'ImageIntension'):
        out.append(('image/%s/index' % k, [(k, ('symint', 0), [a, b]), (k, ('symint', 1), [a, b])]))
        out.append(('image/%s/swap' % k, [(k, 1, [a, b]), (k, 1, [b, a])]))
    out.append(('image/cross', [('ImageExtension', 0, [a, b]), ('ImageIntension', 0, [a, b])]))
    out.append(('unary/neg', [('Negation', a), ('Negation', b)]))
    for k in ('DifferenceExtension', 'DifferenceIntension', 'Inheritance', 'Implication', 'ImplicationPredictive', 'ImplicationConcurrent', 'ImplicationRetrospective', 'EquivalencePredictive') + SYMM:
        out.append(('stmt/%s/swap' % k, [(k, a, b), (k, b, a)]))
        out.append(('stmt/%s/same' % k, [(k, a, b), (k, a, c)]))
    out.append(('stmt/cross', [('Inheritance', a, b), ('Implication', a, b)]))
    out.append(('stmt/cross2', [('Similarity', a, b), ('Equivalence', b, a)]))
    out.append(('stmt/cross3', [('DifferenceExtension', a, b), ('DifferenceIntension', a, b)]))
    # nesting: unordered things inside unordered things
    out.append(('nest/set-of-sets', [('SetExtension', [('SetExtension', [a, b])]), ('SetExtension', [('SetExtension', [b, a])])]))
    out.append(('nest/set-of-symm', [('Conjunction', [('Similarity', a, b), c]), ('Conjunction', [c, ('Similarity', b, a)])]))
    out.append(('nest/symm-of-sets', [('Similarity', ('SetIntension', [a, b]), c), ('Similarity', c, ('SetIntension', [b, a]))]))
    out.append(('nest/symm-of-symm', [('Equivalence', ('Similarity', a, b), c), ('Equivalence', c, ('Similarity', b, a))]))
    out.append(('nest/vec-of-sets', [('Product', [('SetExtension', [a, b]), c]), ('Product', [('SetExtension', [b, a]), c])]))
    out.append(('nest/stmt-of-sets', [('Inheritance', ('IntersectionExtension', [a, b, c]), a), ('Inheritance', ('IntersectionExtension', [c, b, a]), a)]))
    out.append(('nest/deep', [('SetExtension', [('Disjunction', [('EquivalenceConcurrent', a, b), ('Negation', c)])]), ('SetExtension', [('Disjunction', [('Negation', c), ('EquivalenceConcurrent', b, a)])])]))
    # elements that differ only in ways a coarse hash cannot see (atom kind, a negation wrapper, ordered-compound kind)
    for k in ('SetExtension', 'Conjunction', 'IntersectionIntension'):
        out.append(('set/%s/atom-kind' % k, [(k, [('Word', N(0)), b]), (k, [('Operator', N(0)), b])]))
        out.append(('set/%s/neg-wrapper' % k, [(k, [a, b]), (k, [a, ('Negation', b)])]))
        out.append(('set/%s/compound-kind' % k, [(k, [('Product', [a, b]), c]), (k, [('ConjunctionSequential', [a, b]), c])]))
        out.append(('set/%s/stmt-vs-diff' % k, [(k, [('Inheritance', a, b), c]), (k, [('DifferenceExtension', a, b), c])]))
    out.append(('nest/set-of-sets-sibling', [('SetExtension', [('SetExtension', [a, c]), ('SetExtension', [b])]), ('SetExtension', [('SetExtension', [c, a]), ('SetExtension', [b])])]))
    out.append(('nest/conj-of-conj-sibling', [('Disjunction', [('Conjunction', [a, c]), ('Conjunction', [b, ('Word', 'm2')])]), ('Disjunction', [('Conjunction', [b, ('Word', 'm2')]), ('Conjunction', [c, a])])]))
    out.append(('image/nested-sets', [('ImageExtension', 1, [a, ('Disjunction', [('Conjunction', [a, c]), ('Conjunction', [b])])]), ('ImageExtension', 1, [a, ('Disjunction', [('Conjunction', [b]), ('Conjunction', [c, a])])])]))
    # equal elements of DIFFERENT shapes inside ordered containers (a shortcut that compares a cheap 'shape' of the elements first
    # breaks exactly these): symmetric statements with operands of different kinds swapped, sets of mixed kinds in another order
    mixed_sym = [('Similarity', a, ('SetExtension', [b])), ('Similarity', ('SetExtension', [b]), a)]
    mixed_eqv = [('Equivalence', ('Product', [a]), b), ('Equivalence', b, ('Product', [a]))]
    mixed_set = [('SetExtension', [a, ('Product', [b]), ('Inheritance', c, a)]), ('SetExtension', [('Inheritance', c, a), a, ('Product', [b])])]
    for nm_, (p_, q_) in (('symm-mixed', mixed_sym), ('eqv-mixed', mixed_eqv), ('set-mixed', mixed_set)):
        out.append(('ordered/prod/' + nm_, [('Product', [c, p_]), ('Product', [c, q_])]))
        out.append(('ordered/seq/' + nm_, [('ConjunctionSequential', [p_, c]), ('ConjunctionSequential', [q_, c])]))
        out.append(('ordered/image/' + nm_, [('ImageExtension', 1, [c, p_]), ('ImageExtension', 1, [c, q_])]))
        out.append(('ordered/imageI/' + nm_, [('ImageIntension', 0, [p_, c]), ('ImageIntension', 0, [q_, c])]))
        out.append(('ordered/stmt/' + nm_, [('Inheritance', p_, c), ('Inheritance', q_, c)]))
        out.append(('ordered/diff/' + nm_, [('DifferenceExtension', c, p_), ('DifferenceExtension', c, q_)]))
        out.append(('ordered/neg/' + nm_, [('Negation', p_), ('Negation', q_)]))
    triples = [('trans/sets', [('SetExtension', [a, b]), ('SetExtension', [b, c]), ('SetExtension', [c, a])]),
               ('trans/symm', [('Similarity', a, b), ('Similarity', b, c), ('Similarity', c, a)]),
               ('trans/symm2', [('Equivalence', a, b), ('Equivalence', b, a), ('Equivalence', a, c)]),
               ('trans/nested', [('Conjunction', [('Similarity', a, b)]), ('Conjunction', [('Similarity', b, a)]), ('Conjunction', [('Similarity', a, c)])])]
    return out, triples

def gen_pairs(n, seed, depth=3):
    """pseudo-random SHAPES (names / numbers stay symbolic): (t, permuted t) and (t, permuted-then-mutated t).  Deterministic per seed."""
    import random, zlib
    rng = random.Random(zlib.crc32(('c06-%s' % seed).encode()))
    ATOMK = ['Word', 'VariableIndependent', 'VariableDependent', 'VariableQuery', 'Operator']
    BIN = ['DifferenceExtension', 'DifferenceIntension', 'Inheritance', 'Implication', 'ImplicationPredictive', 'ImplicationConcurrent', 'ImplicationRetrospective', 'EquivalencePredictive'] + list(SYMM)
    def atom():
        r = rng.random()
        if r < 0.08: return ('Placeholder',)
        if r < 0.16: return ('Interval', ('symint', rng.randrange(2)))
        return (rng.choice(ATOMK), N(rng.randrange(3)))
    def term(d):
        if d == 0 or rng.random() < 0.25: return atom()
        c = rng.choice(['set', 'set', 'vec', 'image', 'neg', 'bin', 'bin', 'symm'])
        if c == 'set': return (rng.choice(list(SETS)), [term(d - 1) for _ in range(rng.randrange(1, 4))])
        if c == 'vec': return (rng.choice(list(TERM_VECS)), [term(d - 1) for _ in range(rng.randrange(1, 4))])
        if c == 'image':
            cs = [term(d - 1) for _ in range(rng.randrange(1, 3))]; return (rng.choice(list(TERM_IMAGES)), rng.randrange(len(cs) + 1), cs)
        if c == 'neg': return ('Negation', term(d - 1))
        if c == 'symm': return (rng.choice(list(SYMM)), term(d - 1), term(d - 1))
        return (rng.choice(BIN), term(d - 1), term(d - 1))
    def permute(t):
        k = t[0]
        if k in SETS:
            cs = [permute(x) for x in t[1]]
            if rng.random() < 0.3: cs.append(permute(rng.choice(t[1])))          # a duplicate changes nothing
            rng.shuffle(cs); return (k, cs)
        if k in TERM_VECS: return (k, [permute(x) for x in t[1]])
        if k in TERM_IMAGES: return (k, t[1], [permute(x) for x in t[2]])
        if k == 'Negation': return (k, permute(t[1]))
        if k in SYMM: return (k, permute(t[2]), permute(t[1])) if rng.random() < 0.5 else (k, permute(t[1]), permute(t[2]))
        if len(t) == 3 and isinstance(t[1], tuple) and isinstance(t[2], tuple) and k not in TERM_ATOMS: return (k, permute(t[1]), permute(t[2]))
        return t
    def mutate(t):
        """one local change somewhere in the tree"""
        k = t[0]
        kids = [i for i, x in enumerate(t) if isinstance(x, tuple) and i > 0 and k not in TERM_ATOMS and k != 'Interval'] + ([('L', j) for j in range(len(t[-1]))] if isinstance(t[-1], list) else [])
        if kids and rng.random() < 0.6:
            w = rng.choice(kids)
            if isinstance(w, tuple):
                cs = list(t[-1]); cs[w[1]] = mutate(cs[w[1]]); return t[:-1] + (cs,)
            return t[:w] + (mutate(t[w]),) + t[w + 1:]
        if k in TERM_ATOMS: return (rng.choice([x for x in ATOMK if x != k]), t[1]) if rng.random() < 0.5 else (k, N(rng.randrange(3)))
        if k == 'Placeholder': return ('Word', N(0))
        if k == 'Interval': return ('Interval', ('symint', 1 - t[1][1]))
        if k in SETS: return (rng.choice([x for x in SETS if x != k]), t[1]) if rng.random() < 0.5 else (k, t[1] + [atom()])
        if k in TERM_VECS: return (k, t[1][::-1]) if len(t[1]) > 1 and rng.random() < 0.5 else (rng.choice([x for x in TERM_VECS if x != k]), t[1])
        if k in TERM_IMAGES: return (k, (t[1] + 1) % (len(t[2]) + 1), t[2]) if rng.random() < 0.6 else (rng.choice([x for x in TERM_IMAGES if x != k]), t[1], t[2])
        if k == 'Negation': return t[1]
        if k in SYMM: return (rng.choice([x for x in SYMM if x != k]), t[1], t[2])
        return (k, t[2], t[1]) if rng.random() < 0.5 else (rng.choice([x for x in BIN if x != k]), t[1], t[2])
    out = []
    for i in range(n):
        t = term(depth)
        out.append(('gen/%d/perm' % i, [t, permute(t)]))
        out.append(('gen/%d/mut' % i, [t, mutate(permute(t))]))
    return out

def run(pid, tier, seed):
    from framework import Runner, Query
    R = Runner(pid, tier, seed); R.setup()
    mode = 'eq' if pid == 'C06' else 'hash'
    ps, triples = pairs()
    R.assumptions += ['term shapes: every constructor in pairs (same / swapped / duplicated / different arity / different constructor) and nestings of unordered inside unordered up to depth 3; atom names are 1 symbolic char, interval values and image indices symbolic 64-bit',
                      'hasher = collision-free fold (uninterpreted functions) started from one symbolic key; real SipHash collisions are outside the model',
                      'unordered containers iterate in insertion order in the model; insertion orders are varied explicitly in the pairs']
    plist = [dict(name=nm, specs=sp, mode=mode) for nm, sp in ps]
    if mode == 'eq': plist += [dict(name=nm, specs=sp, mode=mode) for nm, sp in triples]
    R.run_query(Query('pairs', 'c06', 'path', plist, '%d term pairs/triples, all names/numbers symbolic' % len(plist)), confirm, key_of)
    g = gen_pairs(400 if tier == 'quick' else 20000, seed)
    R.run_query(Query('generated', 'c06', 'path', [dict(name=nm, specs=sp, mode=mode) for nm, sp in g],
                      '%d generated shape pairs (depth <= 3, <= 3 children; t vs a reordering of t, and vs a reordering with one local change), leaves symbolic; shapes drawn deterministically from VERIF_SEED=%s' % (len(g), seed)), confirm, key_of)
    return R.finish(rule='one state = one path of == (and Hash) over a pair with symbolic leaves; obligations are decided by z3 under the path condition', trusted=['rustc MIR', 'mirsym + std models (validated per path)', 'z3 (uninterpreted-function model of the hasher)'])

def main(tier, seed): return run('C06', tier, seed)
