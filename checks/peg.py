"""Reference recogniser for the PEG published in README(.en).md ("Standard ASCII Lexicon"), transcribed rule by rule
(pest semantics: ordered choice, implicit WHITESPACE skipping between the parts of non-atomic rules, none inside @ rules).
Returns trees in the same canonical shape as the lexical parser's values."""
import unicodedata

def is_ws(c): return c.isspace() or c in '\u0085‎‏  '
def punct_sym(c): return unicodedata.category(c)[0] in 'PS'
def atom_char(c): return unicodedata.category(c)[0] in 'LN' or c in '_-'

class P:
    def __init__(self, s): self.s = s; self.n = len(s)
    def ws(self, i):
        while i < self.n and is_ws(self.s[i]): i += 1
        return i
    def lit(self, i, t): return i + len(t) if self.s.startswith(t, i) else None
    # ---- atomic rules
    def copula(self, i):
        s, n = self.s, self.n
        def ps(j): return j < n and punct_sym(s[j])
        if ps(i) and i + 1 < n and s[i + 1] == '-' and ps(i + 2): return i + 3
        if ps(i) and i + 1 < n and s[i + 1] == '=' and ps(i + 2): return i + 3
        if i < n and s[i] == '=' and ps(i + 1) and i + 2 < n and s[i + 2] == '>': return i + 3
        if i < n and s[i] == '<' and ps(i + 1) and i + 2 < n and s[i + 2] == '>': return i + 3
        return None
    def connecter(self, i):
        if not (i < self.n and punct_sym(self.s[i])): return None
        j = i + 1
        while j < self.n and self.s[j] != ',' and punct_sym(self.s[j]): j += 1
        return j
    def atom_prefix(self, i):
        j = i
        while j < self.n and punct_sym(self.s[j]): j += 1
        return j if j > i else None
    def atom_content(self, i):
        if not (i < self.n and atom_char(self.s[i])): return None
        j = i + 1
        while j < self.n and self.copula(j) is None and atom_char(self.s[j]): j += 1
        return j
    def tbt(self, i):
        j = i
        while j < self.n and (self.s[j] in '0123456789.'): j += 1
        return j if j > i else None
    # ---- non-atomic rules: (end, tree) or None
    def atom(self, i):
        if i < self.n and self.s[i] == '_': return i + 1, ['Atom', '_', '']
        j = self.atom_prefix(i)
        if j is not None:
            k = self.atom_content(j)
            if k is not None: return k, ['Atom', self.s[i:j], self.s[j:k]]
        k = self.atom_content(i)
        if k is not None: return k, ['Atom', '', self.s[i:k]]
        return None
    def term_list(self, i):
        r = self.term(i)
        if r is None: return None
        i, t = r; terms = [t]
        while True:
            j = self.lit(self.ws(i), ',')
            if j is None: break
            r = self.term(self.ws(j))
            if r is None: break
            i, t = r; terms.append(t)
        return i, terms
    def compound(self, i):
        j = self.lit(i, '(')
        if j is not None:
            j = self.ws(j); k = self.connecter(j)
            if k is not None:
                conn = self.s[j:k]
                c = self.lit(self.ws(k), ',')
                if c is not None:
                    r = self.term_list(self.ws(c))
                    if r is not None:
                        e = self.lit(self.ws(r[0]), ')')
                        if e is not None: return e, ['Compound', conn, r[1]]
        for l, rb in (('{', '}'), ('[', ']')):
            j = self.lit(i, l)
            if j is not None:
                r = self.term_list(self.ws(j))
                if r is not None:
                    e = self.lit(self.ws(r[0]), rb)
                    if e is not None: return e, ['Set', l, r[1], rb]
        return None
    def statement(self, i):
        j = self.lit(i, '<')
        if j is None: return None
        r = self.term(self.ws(j))
        if r is None: return None
        c0 = self.ws(r[0]); c1 = self.copula(c0)
        if c1 is None: return None
        r2 = self.term(self.ws(c1))
        if r2 is None: return None
        e = self.lit(self.ws(r2[0]), '>')
        if e is None: return None
        return e, ['Statement', self.s[c0:c1], r[1], r2[1]]
    def term(self, i):
        return self.statement(i) or self.compound(i) or self.atom(i)
    def numbers(self, i, l, r, allow_empty):
        j = self.lit(i, l)
        if j is None: return None
        j = self.ws(j); vals = []
        k = self.tbt(j)
        if k is not None:
            vals.append(self.s[j:k]); j = k
            while True:
                c = self.lit(self.ws(j), ';')
                if c is None: break
                k0 = self.ws(c); k = self.tbt(k0)
                if k is None: break
                vals.append(self.s[k0:k]); j = k
            while True:
                c = self.lit(self.ws(j), ';')
                if c is None: break
                j = c
        elif not allow_empty: return None
        e = self.lit(self.ws(j), r)
        if e is None: return None
        return e, vals
    def stamp(self, i):
        j = self.lit(i, ':')
        if j is None: return None
        k = j
        while k < self.n and self.s[k] != ':': k += 1
        if k == j or k >= self.n: return None
        return k + 1, self.s[i:k + 1]
    def sentence(self, i):
        r = self.term(i)
        if r is None: return None
        p = self.ws(r[0])
        if not (p < self.n and punct_sym(self.s[p])): return None
        end = p + 1; st = ''; tr = []
        s = self.stamp(self.ws(end))
        if s is not None: end, st = s
        t = self.numbers(self.ws(end), '%', '%', False)
        if t is not None: end, tr = t
        return end, ['Sentence', r[1], self.s[p], st, tr]
    def task(self, i):
        b = self.numbers(i, '$', '$', True)
        if b is None: return None
        s = self.sentence(self.ws(b[0]))
        if s is None: return None
        return s[0], ['Task', b[1], s[1]]
    def narsese(self):
        i = self.ws(0)
        for kind, f in (('Task', self.task), ('Sentence', self.sentence), ('Term', self.term)):
            r = f(i)
            if r is not None:
                return (self.ws(r[0]) == self.n), [kind, r[1]]
        return False, None

def parse(text):
    """-> (accepted_whole_input, tree or None)"""
    return P(text).narsese()
