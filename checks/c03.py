"""C03 — direct enum parsing and lexical parsing + folding give the same value.

For every surface string of a value (concrete shape incl. the four derived copulas, symbolic well-formed names), the
REAL enum parser and the REAL lexical parser + fold (MIR) are run on the same text; both must succeed, agree with each
other and equal the value built by the constructors (which desugar derived copulas)."""
from common import *
from shapes import *
import c01, c09

def derived_shapes():
    a, b = A(0), A(1)
    sets = [('derived/Instance/set-subject', ('Term', ('Instance', ('SetExtension', [a]), b))), ('derived/InstanceProperty/set-both', ('Term', ('InstanceProperty', ('SetExtension', [a, b]), ('SetIntension', [b])))),
            ('derived/Property/set-predicate', ('Term', ('Property', a, ('SetIntension', [b])))), ('derived/Instance/nested-sugar', ('Term', ('Instance', ('Instance', a, b), a))),
            ('derived/EquivalenceRetrospective/stmt-operands', ('Term', ('EquivalenceRetrospective', ('Inheritance', a, b), ('EquivalencePredictive', b, a))))]
    return sets + [('derived/' + k, ('Term', (k, a, b))) for k in ('Instance', 'Property', 'InstanceProperty', 'EquivalenceRetrospective')] + \
           [('derived/nested', ('Term', ('Implication', ('Instance', a, b), ('Property', b, ('Word', N(2)))))),
            ('derived/sentence', ('Sentence', 'Judgement', ('InstanceProperty', a, b), ('Present',), (1.0, 0.9)))]

def path(engine, ctx, params):
    it = engine.new_interp(ctx, step_limit=1200000)
    fmt = get_format(it, params['fmt'])
    spec = params['spec']
    names = c01.make_names(it, ctx, fmt, spec)
    sspec = subst_names(spec, names)
    v = build_narsese(it, desugar(sspec))              # expected value: built from PRIMITIVE constructors only (documented desugaring)
    v_sugar = build_narsese(it, sspec) if params['name'].startswith('derived/') else None      # the derived constructors themselves
    kw = keyword_table(it, fmt)
    surface = sspec if params['name'].startswith('derived/') else value_to_spec(v)
    toks = narsese_tokens_surface(kw, surface)
    pattern = tuple(params['pattern']) if isinstance(params['pattern'], list) else params['pattern']
    text = c09.spaced(toks, pattern)
    r1 = parse_enum(it, fmt, text)
    lf = lexical_format(it, params['fmt'])
    lr = lex_parse(it, lf, text)
    r2 = lex_fold(it, lr.f[0], fmt) if lr.variant == 'Ok' else lr
    verdict = 'ok'
    def eq(x, y): return ctx.branch(it.call_named('<%s as PartialEq>::eq' % NARSESE_TY, [Ref([x], 0), Ref([y], 0)], ['&' + NARSESE_TY, '&' + NARSESE_TY], 'bool'))
    if r1.variant != 'Ok': verdict = 'enum-parse-error'
    elif r2.variant != 'Ok': verdict = 'lexical-or-fold-error'
    elif r1.f[0].variant != r2.f[0].variant or not eq(r1.f[0], r2.f[0]): verdict = 'pipelines-disagree'
    elif r1.f[0].variant != v.variant or not eq(r1.f[0], v): verdict = 'differs-from-value'
    elif v_sugar is not None and not eq(v_sugar, v): verdict = 'derived-constructor-differs-from-desugared-form'
    m = ctx.model()
    cn = c01.concrete_names(names, m); ctext = concretize(ctx, text, m)
    if verdict == 'ok':
        return {'status': 'ok', 'sample': {'fmt': params['fmt'], 'shape': params['name'], 'text': show(ctext)},
                'extra': {'fns': list(it.fn_seen), 'native': {'op': 'lex_fold', 'args': [params['fmt'], hexs(ctext)], 'interp': ['ok', canon_result(r2, canon_narsese, m)]}}}
    return {'status': 'violation', 'kind': verdict, 'fmt': params['fmt'], 'shape': params['name'], 'text': ctext, 'names': cn, 'spec': subst_names(spec, cn),
            'message': '%s on %r' % (verdict, show(ctext)), 'fns': list(it.fn_seen)}

def confirm(v, oracle):
    from framework import strip_all
    a = oracle.ask('parse', v['fmt'], hexs(v['text'])); b = oracle.ask('lex_fold', v['fmt'], hexs(v['text']))
    base = oracle.ask('roundtrip', v['fmt'], narsese_tokens(desugar(v['spec'])))
    na = strip_all(a[1]) if a[0] == 'ok' else ['panic']; nb = strip_all(b[1]) if b[0] == 'ok' else ['panic']
    want = ['Ok', base[1]['value']] if base[0] == 'ok' else None
    sugar = oracle.ask('roundtrip', v['fmt'], narsese_tokens(v['spec']))
    bad = not (na == nb == want) or (sugar[0] == 'ok' and base[0] == 'ok' and sugar[1]['value'] != base[1]['value'])
    return {'confirmed': bad, 'why': 'native pipelines agree with the value',
            'replay': {'op': 'lex_fold', 'args': [v['fmt'], hexs(v['text'])], 'compare_with': {'op': 'parse', 'args': [v['fmt'], hexs(v['text'])]}, 'text': show(v['text']), 'expected': want},
            'what': '%s text %r: enum parse = %s; lexical+fold = %s; value = %s' % (v['fmt'], show(v['text']), json.dumps(na, ensure_ascii=False)[:110], json.dumps(nb, ensure_ascii=False)[:110], json.dumps(want, ensure_ascii=False)[:90])}

def key_of(v):
    cls = c01.classify(v)
    if not cls.startswith('other:'): return '%s:%s' % (v['fmt'], cls)
    return '%s:%s:%s' % (v['fmt'], v['kind'], v['shape'])

def main(tier, seed):
    from framework import Runner, Query
    R = Runner('C03', tier, seed); R.setup()
    R.blocks = models_str.STD_BLOCKS       # symbolic name chars range over Latin..Latin Ext-B, CJK punctuation + ideographs, fullwidth forms, pictographs (thorough adds an all-Unicode query where noted)
    quick = tier == 'quick'
    c01.load_keywords(R)
    R.assumptions += ['strings = token layouts of the value shapes of checks/shapes.py plus the four derived copulas, with no spaces and with one space at every boundary; names 1 symbolic well-formed char',
                      'numbers concrete (shapes.py)']
    import c10
    shapes = [(nm, ('Term', t)) for nm, t in depth1_terms()] + derived_shapes() + [(nm, ('Term', t)) for nm, t in nested_terms()] + c10.image_shapes()[:4]
    shapes += [(nm, ('Term', t)) for nm, t in gen_terms(8 if quick else 40, seed)]          # generated nested shapes (depth <= 3), deterministic per VERIF_SEED
    st = ('Inheritance', A(0), A(1))
    ss = sentences(st); ts = tasks(st)
    shapes += ([x for x in ss if '/Eternal/' in x[0] or x[0].startswith('sent/Judgement') and x[0].endswith('/1')] + ts[::3]) if quick else (ss + ts)
    for fmt in FORMATS:
        plist = []
        for nm, sp in shapes:
            if quick and fmt == 'han':
                if nm.startswith(('sent/', 'task/')) and not c01.hash_pick(nm, 3): continue
            for p in (['none'] if (quick and not nm.startswith('derived/')) else ['none', ('all', 1)]):
                plist.append(dict(fmt=fmt, name=nm, spec=sp, pattern=p))
        R.run_query(Query('pipelines/' + fmt, 'c03', 'path', plist, '%d shapes (30 constructors, 4 derived copulas, nestings, sentences, tasks)' % len(shapes)), confirm, key_of)
    return R.finish(rule='one state = one path running both pipelines on one symbolic text', trusted=['rustc MIR', 'mirsym + std models (validated per path)', 'z3'])
