"""Lexical Narsese value specs: ('LA', prefix, name) | ('LC', connecter, [terms]) | ('LS', left, [terms], right) |
('LT', copula, subject, predicate); strings are python str or lists of chars (ints / z3 chars)."""
from common import *

LT = 'lexical::term::Term'; LSENT = 'lexical::sentence::Sentence'; LTASK = 'lexical::task::Task'

def rs(x): return RString([ord(c) for c in x] if isinstance(x, str) else list(x))

def lex_vocab(it, lf):
    """vocabulary of a LEXICAL format value (its own tables), by role"""
    si = it.prog.si
    def fields(struct, hint):
        return [fs for rel, fs in si.structs[struct] if 'impl_lexical' in rel and all(h in fs for h in hint)][0]
    top = fields('NarseseFormat', ['space', 'atom'])
    get = lambda agg, names, n: agg.f[names.index(n)]
    atom = get(lf, top, 'atom'); comp = get(lf, top, 'compound'); stm = get(lf, top, 'statement'); sen = get(lf, top, 'sentence'); task = get(lf, top, 'task'); space = get(lf, top, 'space')
    def strs(v):
        v = unbox(v)
        if isinstance(v, (Str, RString)): return v.py()
        if isinstance(v, Agg) and v.ty == 'tuple': return tuple(strs(x) for x in v.f)
        if isinstance(v, RVec): return [strs(x) for x in v.items]
        if isinstance(v, Agg): return strs(v.f[0])
        return v
    fa = fields('NarseseFormatAtom', ['prefixes']); fc = fields('NarseseFormatCompound', ['connecters']); fs_ = fields('NarseseFormatStatement', ['copulas'])
    fse = fields('NarseseFormatSentence', ['punctuations']); ft = fields('NarseseFormatTask', ['budget_brackets']); fsp = fields('NarseseFormatSpace', ['format_terms'])
    return {'prefixes': strs(get(atom, fa, 'prefixes')), 'is_identifier': get(atom, fa, 'is_identifier'),
            'set_brackets': strs(get(comp, fc, 'set_brackets')), 'brackets': strs(get(comp, fc, 'brackets')), 'separator': strs(get(comp, fc, 'separator')), 'connecters': strs(get(comp, fc, 'connecters')),
            'stmt_brackets': strs(get(stm, fs_, 'brackets')), 'copulas': strs(get(stm, fs_, 'copulas')),
            'punctuations': strs(get(sen, fse, 'punctuations')), 'truth_brackets': strs(get(sen, fse, 'truth_brackets')), 'truth_separator': strs(get(sen, fse, 'truth_separator')),
            'stamp_brackets': strs(get(sen, fse, 'stamp_brackets')), 'budget_brackets': strs(get(task, ft, 'budget_brackets')), 'budget_separator': strs(get(task, ft, 'budget_separator')),
            'format_terms': strs(get(space, fsp, 'format_terms')), 'format_items': strs(get(space, fsp, 'format_items'))}

def variants(it): return it.prog.si.enum_variants('Term', 'Atom')

def build_lterm(it, t):
    vs = variants(it); names = [v for v, _ in vs]
    k = {'LA': 'Atom', 'LC': 'Compound', 'LS': 'Set', 'LT': 'Statement'}[t[0]]
    idx = names.index(k); fnames = vs[idx][1]
    if k == 'Atom': d = {'prefix': rs(t[1]), 'name': rs(t[2])}
    elif k == 'Compound': d = {'connecter': rs(t[1]), 'terms': RVec([build_lterm(it, x) for x in t[2]])}
    elif k == 'Set': d = {'left_bracket': rs(t[1]), 'terms': RVec([build_lterm(it, x) for x in t[2]]), 'right_bracket': rs(t[3])}
    else: d = {'copula': rs(t[1]), 'subject': RBox(build_lterm(it, t[2])), 'predicate': RBox(build_lterm(it, t[3]))}
    return Enum(LT, k, idx, [d[n] for n in fnames])

def build_lnarsese(it, v):
    """v = ('Term', t) | ('Sentence', t, punct, stamp, [truth]) | ('Task', [budget], t, punct, stamp, [truth])"""
    si = it.prog.si
    NV = 'narsese_value::NarseseValue'
    if v[0] == 'Term': return Enum(NV, 'Term', 0, [build_lterm(it, v[1])])
    so = [fs for rel, fs in si.structs['Sentence'] if 'lexical' in rel][0]
    def sentence(t, p, st, tr):
        d = {'term': build_lterm(it, t), 'punctuation': rs(p), 'stamp': rs(st), 'truth': RVec([rs(x) for x in tr])}
        return Agg(LSENT, [d[n] for n in so])
    if v[0] == 'Sentence': return Enum(NV, 'Sentence', 1, [sentence(*v[1:])])
    to = [fs for rel, fs in si.structs['Task'] if 'lexical' in rel][0]
    d = {'budget': RVec([rs(x) for x in v[1]]), 'sentence': sentence(*v[2:])}
    return Enum(NV, 'Task', 2, [Agg(LTASK, [d[n] for n in to])])

def hx(s): return hexs(s)
def lterm_tokens(t):
    if t[0] == 'LA': return ['LA:%s:%s' % (hx(t[1]), hx(t[2]))]
    if t[0] == 'LC': return ['LC:%s:%d' % (hx(t[1]), len(t[2]))] + [y for x in t[2] for y in lterm_tokens(x)]
    if t[0] == 'LS': return ['LS:%s:%s:%d' % (hx(t[1]), hx(t[3]), len(t[2]))] + [y for x in t[2] for y in lterm_tokens(x)]
    return ['LT:%s' % hx(t[1])] + lterm_tokens(t[2]) + lterm_tokens(t[3])
def lnarsese_tokens(v):
    def strs(xs): return [str(len(xs))] + [hx(x) for x in xs]
    if v[0] == 'Term': return ' '.join(['LNT'] + lterm_tokens(v[1]))
    if v[0] == 'Sentence': return ' '.join(['LNS'] + lterm_tokens(v[1]) + [hx(v[2]), hx(v[3])] + strs(v[4]))
    return ' '.join(['LNK'] + strs(v[1]) + lterm_tokens(v[2]) + [hx(v[3]), hx(v[4])] + strs(v[5]))

def conc_lspec(spec, m):
    def walk(s):
        if isinstance(s, list) and s and all(is_sym(c) or isinstance(c, int) for c in s):
            return ''.join(chr(c if isinstance(c, int) else m.eval(c, model_completion=True).as_long()) for c in s)
        if isinstance(s, tuple): return tuple(walk(x) for x in s)
        if isinstance(s, list): return [walk(x) for x in s]
        return s
    return walk(spec)
