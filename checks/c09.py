"""C09 — whitespace between tokens never changes what is parsed (enum parser; lexical parser + fold).

A value (concrete shape, symbolic well-formed atom names) is laid out as its surface token sequence; the tokens are
joined with a spacing pattern (none at all / one / two spaces at every boundary / k spaces at a single boundary /
for the lexical pipeline also tab, newline, U+3000) and the REAL parsers (MIR) must return the original value."""
from common import *
from shapes import *
import c01

def spaced(tokens, pattern, space=(32,)):
    """pattern: 'none' | ('all', k) | ('one', i, k)"""
    out = []
    for i, t in enumerate(tokens):
        if i:
            if pattern == 'none': k = 0
            elif pattern[0] == 'all': k = pattern[1]
            else: k = pattern[2] if pattern[1] == i else 0
            out += list(space) * k
        out += t
    return out

def path(engine, ctx, params):
    it = engine.new_interp(ctx, step_limit=900000)
    fmt = get_format(it, params['fmt'])
    spec = params['spec']
    names = c01.make_names(it, ctx, fmt, spec)
    sspec = subst_names(spec, names)
    v = build_narsese(it, sspec)
    kw = keyword_table(it, fmt)
    toks = narsese_tokens_surface(kw, value_to_spec(v))
    # sanity: the token sequence is the real formatter's output modulo spaces
    real = [c for c in format_enum(it, fmt, v).ch if not (isinstance(c, int) and c == 32)]
    mine = [c for t in toks for c in t if not (isinstance(c, int) and c == 32)]
    same = len(real) == len(mine) and all((a is b) or (isinstance(a, int) and isinstance(b, int) and a == b) or (is_sym(a) and is_sym(b) and a.eq(b)) for a, b in zip(real, mine))
    if not same:
        raise Unsupported('token layout of the check disagrees with the formatter for %s (%s)' % (params['name'], params['fmt']))
    pattern = tuple(params['pattern']) if isinstance(params['pattern'], list) else params['pattern']
    text = spaced(toks, pattern, tuple(params.get('space', (32,))))
    pipeline = params['pipeline']
    if pipeline == 'enum':
        r = parse_enum(it, fmt, text)
    else:
        lf = lexical_format(it, params['fmt'])
        lr = lex_parse(it, lf, text)
        r = lex_fold(it, lr.f[0], fmt) if lr.variant == 'Ok' else lr
    verdict = 'ok'
    if r.variant != 'Ok': verdict = 'parse-error'
    else:
        w = r.f[0]
        if w.variant != v.variant: verdict = 'kind-changed'
        else:
            eq = it.call_named('<%s as PartialEq>::eq' % NARSESE_TY, [Ref([v], 0), Ref([w], 0)], ['&' + NARSESE_TY, '&' + NARSESE_TY], 'bool')
            if not ctx.branch(eq): verdict = 'value-changed'
    m = ctx.model()
    cn = c01.concrete_names(names, m)
    ctext = concretize(ctx, text, m)
    op = 'parse' if pipeline == 'enum' else 'lex_fold'
    if verdict == 'ok':
        return {'status': 'ok', 'sample': {'fmt': params['fmt'], 'shape': params['name'], 'pipeline': pipeline, 'pattern': str(pattern), 'text': show(ctext)},
                'extra': {'fns': list(it.fn_seen), 'native': {'op': op, 'args': [params['fmt'], hexs(ctext)], 'interp': ['ok', canon_result(r, canon_narsese, m)]}}}
    return {'status': 'violation', 'kind': verdict, 'fmt': params['fmt'], 'shape': params['name'], 'pipeline': pipeline, 'pattern': str(pattern), 'text': ctext,
            'spec': subst_names(spec, cn), 'names': cn, 'message': '%s on spaced text %r' % (verdict, show(ctext)), 'fns': list(it.fn_seen)}

def confirm(v, oracle):
    op = 'parse' if v['pipeline'] == 'enum' else 'lex_fold'
    st, payload = oracle.ask(op, v['fmt'], hexs(v['text']))
    st0, base = oracle.ask('roundtrip', v['fmt'], narsese_tokens(v['spec']))
    rp = {'op': op, 'args': [v['fmt'], hexs(v['text'])], 'text': show(v['text']), 'expected_value': base.get('value') if st0 == 'ok' else None}
    if st == 'panic': return {'confirmed': True, 'replay': rp, 'what': 'panic: %s' % payload}
    want = ['Ok', base['value']] if st0 == 'ok' else None
    from framework import strip_all
    # compare semantically: canonical forms (sets sorted); symmetric statements are printed in stored order so equal
    ok = strip_all(payload) != want
    return {'confirmed': ok, 'why': 'native result equals the value', 'replay': rp,
            'what': '%s %s(%r) = %s, expected %s' % (v['fmt'], op, show(v['text']), json.dumps(strip_all(payload), ensure_ascii=False)[:140], json.dumps(want, ensure_ascii=False)[:100])}

def key_of(v):
    if v['fmt'] == 'han':
        cls = c01.classify(v)
        if not cls.startswith('other:'): return 'han:' + cls
    return '%s:%s:%s:%s:%s' % (v['fmt'], v['pipeline'], v['kind'], v['shape'].split('/')[0], c01.classify(v) if v['fmt'] == 'han' else v['pattern'].split(',')[0])

ONE_FOR = ('atom/Word', 'set/SetExtension', 'set/Conjunction', 'vec/Product', 'image/ImageExtension@1', 'image/ImageIntension@2', 'unary/', 'bin/Inheritance', 'bin/DifferenceExtension', 'bin/EquivalenceConcurrent',
           'nest/image-in-prod', 'nest/stmt-stmt', 'sent/Judgement/Fixed_-1/2', 'sent/Goal/Present/1', 'sent/Question/Eternal/0', 'task/3/Judgement', 'task/0/Quest', 'task/1/Question')

def main(tier, seed):
    from framework import Runner, Query
    R = Runner('C09', tier, seed); R.setup()
    R.blocks = models_str.STD_BLOCKS       # symbolic name chars range over Latin..Latin Ext-B, CJK punctuation + ideographs, fullwidth forms, pictographs (thorough adds an all-Unicode query where noted)
    quick = tier == 'quick'
    c01.load_keywords(R)
    R.assumptions += ['tokens = atoms (prefix+name), brackets, separators, connecters, copulas, punctuation, stamp brackets / kind marker / number, truth and budget brackets, numbers and separators; no space is inserted inside an atom',
                      'spacing patterns: none, 1 or 2 spaces at every boundary; thorough adds k in {1,3} spaces at each single boundary for one shape of every syntactic class; lexical pipeline also tab/newline/U+3000 at every boundary',
                      'names: 1 symbolic well-formed char each (as C01)']
    shapes = [x for x in c01.shape_list(tier) if not x[0].startswith(('sent-atom-q/', 'task-atom-q/'))]     # the round-5 quest-after-atom shapes are C01's; C09's shape set is unchanged
    gen_ = [x for x in shapes if x[0].startswith('gen/')]
    shapes = [x for x in shapes if not x[0].startswith('gen/')] + gen_[:(6 if quick else 30)]          # generated nested shapes: a bounded share (they have many tokens)
    if quick:
        shapes = [x for x in shapes if x[0].startswith(('gen/', 'atom/', 'set/SetExtension', 'set/Conjunction', 'vec/', 'image/ImageExtension@1', 'image/ImageIntension@2', 'unary/', 'bin/', 'nest/')) and not x[0].endswith('SetExtension1')] \
                 + [x for x in shapes if x[0].startswith('sent/')][::8] + [x for x in shapes if x[0].startswith('task/')][::5]
    for fmt in FORMATS:
        plist = []
        for nm, sp in shapes:
            for pipeline in ('enum', 'fold'):
                pats = ['none', ('all', 1), ('all', 2)] if (not quick or pipeline == 'enum') else ['none', ('all', 1)]
                for p in pats:
                    plist.append(dict(fmt=fmt, name=nm, spec=sp, pattern=p, pipeline=pipeline))
                if not quick and nm.startswith(ONE_FOR):          # single-boundary patterns: for one shape of every syntactic class
                    ntok = 24
                    for i in range(1, ntok):
                        for k in (1, 3): plist.append(dict(fmt=fmt, name=nm, spec=sp, pattern=('one', i, k), pipeline=pipeline))
            for sp_ch in ((9,), (10,), (0x3000,)):
                if quick and not nm.startswith(('bin/Inheritance', 'vec/Product', 'sent/')): continue
                plist.append(dict(fmt=fmt, name=nm, spec=sp, pattern=('all', 1), pipeline='fold', space=sp_ch))
        R.run_query(Query('spacing/' + fmt, 'c09', 'path', plist, '%d shapes x spacing patterns x {enum parser, lexical+fold}' % len(shapes)), confirm, key_of)
    return R.finish(rule='one state = one path of constructors + formatter + parser (or lexical parser + fold) + == on one spaced layout', trusted=['rustc MIR', 'mirsym + std models (validated per path)', 'z3'])
