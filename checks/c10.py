"""C10 — derived copulas and surface sugar mean what the documentation says (both pipelines, all formats).

  derived   the four derived copulas: text parsed by the enum parser and by lexical parser + fold equals the value
            built by the desugaring constructors (c03.path on the derived shapes, symbolic names)
  images    image connecter with SEVERAL placeholders: index = position of the first, later placeholders stay
  interval  prefix + symbolic decimal digits (leading zeros allowed) denotes its decimal value (solver-decided)
  placeholder  prefix followed by arbitrary identifier chars still denotes the placeholder"""
from common import *
from shapes import *
import c01, c03, c09

def image_shapes():
    a, b, P = A(0), A(1), ('Placeholder',)
    out = []
    for k in ('ImageExtension', 'ImageIntension'):
        out += [('image/%s/first-of-two' % k, ('Term', (k, 1, [a, P, b]))), ('image/%s/lead' % k, ('Term', (k, 0, [P, a]))), ('image/%s/trail' % k, ('Term', (k, 2, [a, b, P]))),
                ('image/%s/last' % k, ('Term', (k, 2, [a, b]))), ('image/%s/last-of-one' % k, ('Term', (k, 1, [a]))), ('image/%s/last-nested' % k, ('Term', (k, 2, [a, (k, 1, [b])]))),
                ('image/%s/only-placeholders' % k, ('Term', (k, 0, [P]))), ('image/%s/three' % k, ('Term', (k, 1, [a, P, P]))),
                ('image/%s/nested' % k, ('Term', ('Inheritance', ('Product', [a]), (k, 0, [b, P]))))]
    return out

def path_atom(engine, ctx, params):
    it = engine.new_interp(ctx, step_limit=900000)
    fmt = get_format(it, params['fmt']); kw = keyword_table(it, fmt)
    kind = params['kind']; n = params['n']
    cs = []
    for j in range(n):
        c = z3.BitVec('d%d' % j, 32); ctx.assume(models_str.valid_char(c)); cs.append(c)
    if kind == 'interval':
        for c in cs: ctx.assume(z3.And(z3.UGE(c, 48), z3.ULE(c, 57)))
        atom = S(kw['atom.prefix_interval']) + S('0' * params.get('zeros', 0)) + cs
        ref = z3.BitVecVal(0, 64)
        for c in cs: ref = ref * 10 + z3.ZeroExt(32, c - 48)
    else:
        c01.wf_name(it, ctx, fmt, cs)          # the suffix is a well-formed name (in particular: contains no copula)
        atom = S(kw['atom.prefix_placeholder']) + cs
    l, r = kw['compound.brackets']
    wrap = params['wrap']
    text = atom if not wrap else S(l) + S(kw['compound.connecter_product']) + S(kw['compound.separator']) + atom + S(kw['compound.separator']) + S('k') + S(r)
    r1 = parse_enum(it, fmt, text)
    lf = lexical_format(it, params['fmt']); lr = lex_parse(it, lf, text)
    r2 = lex_fold(it, lr.f[0], fmt) if lr.variant == 'Ok' else lr
    bad = None
    def inner(res):
        if res.variant != 'Ok' or res.f[0].variant != 'Term': return None
        t = unbox(res.f[0].f[0])
        if wrap:
            if t.variant != 'Product' or len(t.f[0].items) != 2: return None
            t = unbox(t.f[0].items[0])
        return t
    for nm, res in (('enum parser', r1), ('lexical parser + fold', r2)):
        t = inner(res)
        if t is None: bad = '%s: no such term (%s)' % (nm, res.variant); break
        if kind == 'interval':
            if t.variant != 'Interval': bad = '%s gives %s' % (nm, t.variant); break
            val = t.f[0]
            if (not is_sym(val) and not isinstance(val, int)) or ctx._check((val if is_sym(val) else z3.BitVecVal(val, 64)) != ref):
                ctx.assume((val if is_sym(val) else z3.BitVecVal(val, 64)) != ref); bad = '%s: interval value is not the decimal value of its digits' % nm; break
        elif t.variant != 'Placeholder': bad = '%s gives %s for a placeholder followed by identifier chars' % (nm, t.variant); break
    m = ctx.model(); ctext = concretize(ctx, text, m)
    if bad is None:
        return {'status': 'ok', 'sample': {'fmt': params['fmt'], 'kind': kind, 'text': show(ctext)}, 'extra': {'fns': list(it.fn_seen), 'native': {'op': 'lex_fold', 'args': [params['fmt'], hexs(ctext)], 'interp': ['ok', canon_result(r2, canon_narsese, m)]}}}
    return {'status': 'violation', 'kind': kind, 'fmt': params['fmt'], 'text': ctext, 'what': bad, 'wrap': wrap, 'message': bad + ' on ' + show(ctext), 'fns': list(it.fn_seen)}

def confirm_atom(v, oracle):
    from framework import strip_all
    a = oracle.ask('parse', v['fmt'], hexs(v['text'])); b = oracle.ask('lex_fold', v['fmt'], hexs(v['text']))
    txt = show(v['text'])
    def expect(j):
        if j[0] != 'ok' or j[1][0] != 'Ok' or j[1][1][0] != 'Term': return False
        t = j[1][1][1]
        if v['wrap']:
            if t[0] != 'Product' or len(t[1]) != 2: return False
            t = t[1][0]
        if v['kind'] == 'interval':
            digits = ''.join(ch for ch in txt if ch.isdigit() and ch.isascii())
            return t[0] == 'Interval' and digits != '' and t[1] == str(int(''.join(c for c in txt.split(',')[1 if v['wrap'] else 0] if c in '0123456789')))
        return t == ['Placeholder']
    bad = not (expect(a) and expect(b))
    return {'confirmed': bad, 'why': 'native results are as documented', 'replay': {'op': 'lex_fold', 'args': [v['fmt'], hexs(v['text'])], 'compare_with': {'op': 'parse', 'args': [v['fmt'], hexs(v['text'])]}, 'text': txt},
            'what': '%s: %s text %r: enum %s / fold %s' % (v['what'], v['fmt'], txt, json.dumps(strip_all(a[1]), ensure_ascii=False)[:100], json.dumps(strip_all(b[1]), ensure_ascii=False)[:100])}

def confirm(v, oracle):
    if 'spec' in v: return c03.confirm(v, oracle)
    return confirm_atom(v, oracle)

def key_of(v):
    if 'spec' in v: return c03.key_of(v)
    return '%s:%s:%s' % (v['fmt'], v['kind'], v['what'][:50])

def main(tier, seed):
    from framework import Runner, Query
    R = Runner('C10', tier, seed); R.setup()
    R.blocks = models_str.STD_BLOCKS       # symbolic name chars range over Latin..Latin Ext-B, CJK punctuation + ideographs, fullwidth forms, pictographs (thorough adds an all-Unicode query where noted)
    quick = tier == 'quick'
    c01.load_keywords(R)
    R.assumptions += ['operands S, P and image components are atoms with 1 symbolic well-formed char (one nesting each); interval numerals of 1..3 symbolic digits with 0..2 leading zeros; placeholder followed by 1..2 identifier chars']
    shapes = c03.derived_shapes() + image_shapes()
    for fmt in FORMATS:
        plist = [dict(fmt=fmt, name=('derived/' + nm) if not nm.startswith('derived/') else nm, spec=(sp), pattern=p) for nm, sp in shapes for p in (['none'] if quick else ['none', ('all', 1)])]
        R.run_query(Query('sugar/' + fmt, 'c03', 'path', plist, '%d sugar shapes (4 derived copulas, multi-placeholder images) x both pipelines' % len(shapes)), confirm, key_of)
        plist = []
        for wrap in (False, True):
            for n in (1, 2) if quick else (1, 2, 3):
                for z in (0, 2): plist.append(dict(fmt=fmt, kind='interval', n=n, zeros=z, wrap=wrap))
            for n in (1,) if quick else (1, 2): plist.append(dict(fmt=fmt, kind='placeholder', n=n, wrap=wrap))
        R.run_query(Query('atoms/' + fmt, 'c10', 'path_atom', plist, 'interval numerals and placeholder suffixes, alone and inside a product'), confirm, key_of)
    return R.finish(rule='one state = one path running both pipelines on one sugar text', trusted=['rustc MIR', 'mirsym + std models (validated per path)', 'z3'])
