#!/usr/bin/env python3
"""Mutation sweep: generates small syntactic mutants of one source file (outside #[cfg(test)] modules), keeps those
that compile and pass the repository's own test-suite, and runs the relevant quick checks on each (against a scratch
copy of the repository, selected with VERIF_REPO -- /repo itself is never touched).

usage: mutsweep.py <relative source file> <comma separated property ids> [--max N] [--seed S] [--out results.jsonl]
"""
import os, re, sys, json, random, shutil, subprocess, time, argparse

ROOT = os.path.dirname(os.path.dirname(os.path.abspath(__file__)))
SCR = '/var/tmp/narsese_sweep'

def strip_tests(src):
    """positions (start, end) of code that is NOT inside a #[cfg(test)] mod / #[test] fn"""
    cut = len(src)
    m = re.search(r'#\[cfg\(test\)\]\s*(pub\s+)?mod\s', src)
    if m: cut = m.start()
    return cut

OPS = [
    (r'(?<![<>=!\-])<(?![<=>\-|/\\])\s', lambda m: '<= ', 'lt->le'),
    (r'(?<![<>=!\-])<=(?![>])', lambda m: '<', 'le->lt'),
    (r'(?<![<>=\-|/\\])>(?![>=])\s', lambda m: '>= ', 'gt->ge'),
    (r'(?<![<=\-])>=', lambda m: '>', 'ge->gt'),
    (r'==', lambda m: '!=', 'eq->ne'),
    (r'!=', lambda m: '==', 'ne->eq'),
    (r'&&', lambda m: '||', 'and->or'),
    (r'\|\|', lambda m: '&&', 'or->and'),
    (r'\+ 1\b', lambda m: '+ 2', 'plus1->plus2'),
    (r'\+= 1\b', lambda m: '+= 2', 'inc1->inc2'),
    (r'\btrue\b', lambda m: 'false', 'true->false'),
    (r'\bfalse\b', lambda m: 'true', 'false->true'),
    (r'self\.head_skip_spaces\(\);', lambda m: '', 'drop skip_spaces'),
    (r'head_skip_and_spaces\(', lambda m: 'head_skip(', 'skip_and_spaces->skip'),
    (r'head_skip_after_spaces\(', lambda m: 'head_skip(', 'skip_after_spaces->skip'),
    (r'\.is_none\(\)', lambda m: '.is_some()', 'is_none->is_some'),
    (r'\.is_empty\(\)', lambda m: '.is_empty() == false', 'negate is_empty'),
    (r'\bbreak;', lambda m: 'continue;', 'break->continue'),
    (r'\b0\b(?=\s*=>)', lambda m: '1', 'arm 0->1'),
]

def mutants_of(src, limit_pos):
    out = []
    code = src[:limit_pos]
    # skip comment lines
    for pat, rep, name in OPS:
        for m in re.finditer(pat, code):
            ls = code.rfind('\n', 0, m.start()) + 1
            line = code[ls:code.find('\n', m.start())]
            if line.lstrip().startswith(('//', '///', '*', '#[')): continue
            if '//' in line and line.index('//') < m.start() - ls: continue
            # inside a string literal? crude: odd number of quotes before position on the line
            if line[:m.start() - ls].count('"') % 2 == 1: continue
            new = src[:m.start()] + rep(m) + src[m.end():]
            out.append((name, src.count('\n', 0, m.start()) + 1, line.strip()[:90], new))
    return out

def kw_swaps(src, limit_pos):
    """format tables: swap the string values of two fields inside one struct literal block"""
    out = []
    code = src[:limit_pos]
    for blk in re.finditer(r'(\w+): NarseseFormat\w* \{(.*?)\n    \},', code, re.S):
        fields = list(re.finditer(r'\n\s+(\w+): (r?"[^"\n]*"),', blk.group(2)))
        for i in range(len(fields) - 1):
            a, b = fields[i], fields[i + 1]
            if a.group(2) == b.group(2): continue
            base = blk.start(2)
            s2 = src[:base + a.start(2)] + b.group(2) + src[base + a.end(2):base + b.start(2)] + a.group(2) + src[base + b.end(2):]
            out.append(('swap %s<->%s' % (a.group(1), b.group(1)), src.count('\n', 0, base + a.start(2)) + 1, a.group(0).strip()[:80], s2))
    return out

def sh(cmd, cwd=None, env=None, timeout=1800):
    return subprocess.run(cmd, shell=True, cwd=cwd, env=env, capture_output=True, text=True, errors='replace', timeout=timeout)

def main():
    ap = argparse.ArgumentParser()
    ap.add_argument('file'); ap.add_argument('props'); ap.add_argument('--max', type=int, default=20); ap.add_argument('--seed', type=int, default=1)
    ap.add_argument('--out', default=os.path.join(ROOT, 'seeded', 'sweep_results.jsonl')); ap.add_argument('--tables', action='store_true')
    a = ap.parse_args()
    repo = os.path.join(SCR, 'repo'); target = os.path.join(SCR, 'target')
    os.makedirs(SCR, exist_ok=True)
    if os.path.exists(repo): shutil.rmtree(repo)
    sh('git -C /repo worktree prune; cp -r /repo %s && rm -rf %s/target %s/.git' % (repo, repo, repo))
    path = os.path.join(repo, a.file)
    src = open(path, encoding='utf-8').read()
    cut = strip_tests(src)
    muts = (kw_swaps(src, cut) if a.tables else []) + mutants_of(src, cut)
    random.Random(a.seed).shuffle(muts)
    env = dict(os.environ, CARGO_NET_OFFLINE='true', CARGO_TARGET_DIR=target, VERIF_REPO=repo, VERIF_OUT=os.path.join(SCR, 'out'), VERIF_WORK=os.path.join(SCR, 'work'))
    done = 0; results = []
    for name, line, text, new in muts:
        if done >= a.max: break
        open(path, 'w', encoding='utf-8').write(new)
        r = sh('cargo test --offline --lib 2>&1 | tail -40', cwd=repo, env=env, timeout=600)
        ok = 'test result: ok. 157 passed' in r.stdout and 'error' not in r.stdout.split('test result')[0][-400:]
        if not ok or 'FAILED' in r.stdout or 'error[' in r.stdout or 'could not compile' in r.stdout:
            continue
        done += 1
        rec = {'file': a.file, 'line': line, 'op': name, 'text': text, 'checks': {}}
        for pid in a.props.split(','):
            t = time.time()
            c = sh('python3-vt verif.py %s --tier quick 2>&1 | grep -E "^(PASS|VIOLATION|INCONCLUSIVE|KNOWN)" | cut -c1-200' % pid, cwd=ROOT, env=env, timeout=3000)
            o = c.stdout
            rec['checks'][pid] = ('VIOLATION' if 'VIOLATION' in o else 'INCONCLUSIVE' if 'INCONCLUSIVE' in o else 'PASS' if 'PASS' in o else '?') + ' %.0fs' % (time.time() - t)
            if 'VIOLATION' in o: break
        rec['killed'] = any(v.startswith('VIOLATION') for v in rec['checks'].values())
        print(json.dumps(rec, ensure_ascii=False), flush=True)
        open(a.out, 'a').write(json.dumps(rec, ensure_ascii=False) + '\n')
    open(path, 'w', encoding='utf-8').write(src)
    shutil.rmtree(SCR, ignore_errors=True)

if __name__ == '__main__':
    main()
