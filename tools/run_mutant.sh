#!/bin/bash
# usage: run_mutant.sh <patch> <PID>...   applies patch to /repo, runs quick checks, reverts
patch=$1; shift
cd /repo && git apply "$patch" || { echo "PATCH DOES NOT APPLY"; exit 9; }
cd /verif
for pid in "$@"; do
  echo "---- $pid on $(basename $(dirname $patch))"
  python3-vt verif.py $pid --tier quick 2>&1 | grep -E "^(VIOLATION|KNOWN|PASS|INCONCLUSIVE)" | cut -c1-400 | head -6
  echo "exit=$?"
done
git -C /repo checkout -- . 
