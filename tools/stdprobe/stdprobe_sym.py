"""one path of one probe on a partly symbolic input (used by stdprobe.py --sym through explore.explore)"""
import z3
import models_str
from values import Str
from interp import RustPanic

def probe_path(engine, ctx, params):
    it = engine.new_interp(ctx, step_limit=400000); it.strict_debug = True
    chars = []; holes = []
    for i, t in enumerate(params['template']):
        if t is None:
            c = z3.BitVec('c%d' % i, 32); ctx.assume(models_str.valid_char(c)); chars.append(c); holes.append(c)
        else: chars.append(t)
    try:
        r = it.call_named('verif_probe::' + params['name'], [Str(chars)], ['&str'], 'std::string::String')
        out = list(r.ch); st = 'ok'
    except RustPanic:
        out = []; st = 'panic'
    m = ctx.model()
    ev = lambda c: c if isinstance(c, int) else m.eval(c, model_completion=True).as_long()
    return {'status': 'ok', 'extra': {'input': [ev(c) for c in chars], 'out': [ev(c) for c in out], 'st': st, 'name': params['name']}}
