#!/usr/bin/env python3
"""std-API conformance of the mirsym interpreter: compiles tools/stdprobe/probe.rs into a SCRATCH copy of /repo,
runs every probe natively and in the interpreter on the same inputs, and reports mismatches / unsupported APIs.
usage: python3-vt tools/stdprobe/stdprobe.py [name-filter]"""
import os, sys, shutil, subprocess, json, time
PHERE = os.path.dirname(os.path.abspath(__file__)); PROOT = os.path.abspath(os.path.join(PHERE, '..', '..'))
SCR = '/var/tmp/narsese_probe'
repo = os.path.join(SCR, 'repo')
os.makedirs(SCR, exist_ok=True)
if os.path.exists(repo): shutil.rmtree(repo)
shutil.copytree('/repo', repo, ignore=shutil.ignore_patterns('target', '.git'))
shutil.copy(os.path.join(PHERE, 'probe.rs'), os.path.join(repo, 'src', 'verif_probe.rs'))
with open(os.path.join(repo, 'src', 'lib.rs'), 'a') as f: f.write('\npub mod verif_probe;\n')
os.makedirs(os.path.join(repo, 'examples'), exist_ok=True)
open(os.path.join(repo, 'examples', 'probe.rs'), 'w').write(r'''
use std::io::BufRead;
fn unhex(s: &str) -> String { let b: Vec<u8> = (0..s.len() / 2).map(|i| u8::from_str_radix(&s[2 * i..2 * i + 2], 16).unwrap()).collect(); String::from_utf8(b).unwrap() }
fn main() {
    std::panic::set_hook(Box::new(|_| {}));
    for line in std::io::stdin().lock().lines() {
        let line = line.unwrap(); let mut p = line.split('\t'); let name = p.next().unwrap().to_string(); let input = unhex(p.next().unwrap_or(""));
        match std::panic::catch_unwind(|| narsese::verif_probe::run(&name, &input)) {
            Ok(s) => println!("ok\t{}", s.bytes().map(|b| format!("{b:02x}")).collect::<String>()),
            Err(_) => println!("panic\t"),
        }
    }
}
''')
env = dict(os.environ, CARGO_NET_OFFLINE='true', CARGO_TARGET_DIR=os.path.join(SCR, 'target'))
r = subprocess.run(['cargo', 'build', '--offline', '--example', 'probe'], cwd=repo, env=env, capture_output=True, text=True)
if r.returncode != 0: print(r.stderr[-6000:]); sys.exit(3)
os.environ['VERIF_REPO'] = repo; os.environ['VERIF_WORK'] = os.path.join(SCR, 'work')
sys.path.insert(0, os.path.join(PROOT, 'mirsym'))
from engine import *
import re
names = re.findall(r'^\s+(\w+) = \|', open(os.path.join(PHERE, 'probe.rs')).read(), re.M)
flt = next((x for x in sys.argv[1:] if not x.startswith('--')), '')
names = [n for n in names if flt in n]
INPUTS = ['', 'a', 'ab', 'ab,cd , e', '  <A --> B>. %1.0;0.9% ', '12', ' -7 ', '0.5', 'héllo wörld', 'aXbXc,', '1,2,3', 'aab,,b', '(<a>))', '3.75', '-0', 'ff', 'true', 'a\tb\n c', '词 语,x']
reqs = [(n, s) for n in names for s in INPUTS]
p = subprocess.run([os.path.join(SCR, 'target', 'debug', 'examples', 'probe')], input=''.join('%s\t%s\n' % (n, s.encode().hex()) for n, s in reqs), capture_output=True, text=True)
nat = []
for l in p.stdout.splitlines():
    st, _, h = l.partition('\t'); nat.append((st, bytes.fromhex(h).decode() if st == 'ok' else None))
assert len(nat) == len(reqs), (len(nat), len(reqs), p.stderr[-500:])
e = Engine(); e.load()
bad = {}; unsup = {}; okc = 0; t0 = time.time()
for (n, s), want in zip(reqs, nat):
    it = e.new_interp(step_limit=400000)
    try:
        r = it.call_named('verif_probe::' + n, [Str([ord(c) for c in s])], ['&str'], 'std::string::String')
        got = ('ok', r.py())
    except RustPanic as x: got = ('panic', None)
    except (Unsupported, Unresolved) as x:
        unsup.setdefault(n, str(x)[:260]); continue
    except Exception as x:
        bad.setdefault(n, []).append((s, 'EXC %s: %s' % (type(x).__name__, str(x)[:200]), want)); continue
    if got != want: bad.setdefault(n, []).append((s, got, want))
    else: okc += 1
print('probes', len(names), 'inputs', len(INPUTS), 'agree', okc, 'probes-with-mismatch', len(bad), 'probes-unsupported', len(unsup), 'in %.0fs' % (time.time() - t0))
for n, l in bad.items():
    print('MISMATCH', n)
    for s, g, w in l[:2]: print('    input=%r\n      interp=%r\n      native=%r' % (s, g, w))
for n, u in unsup.items(): print('UNSUPPORTED', n, '::', u)
if '--sym' in sys.argv:
    # symbolic mode: 1-2 symbolic chars (ASCII block + one CJK block) inside fixed contexts; every path's witness is replayed natively
    sys.path.insert(0, PHERE)
    import explore
    TEMPLATES = [[None], [None, None], [ord('a'), None, ord(','), None], [None, ord('1'), None], [ord(' '), None, ord('5')]]
    BLOCKS = [[0x20, 0x7e], [0x4e00, 0x4e20], [0x9, 0xd]]
    tasks = [{'name': n, 'template': t, 'blocks': BLOCKS} for n in names for t in TEMPLATES]
    t0 = time.time(); tot = 0; badp = {}; inc = {}
    pool = explore.make_pool()
    for n in names:
        ps = [x for x in tasks if x['name'] == n]
        r = explore.explore('stdprobe_sym', 'probe_path', ps, pool=pool, max_paths=3000, budget_s=120)
        for i_ in r.inconclusive: inc.setdefault(n, i_.get('why', '?')[:200])
        reqs2 = r.extra
        if reqs2:
            p2 = subprocess.run([os.path.join(SCR, 'target', 'debug', 'examples', 'probe')], input=''.join('%s\t%s\n' % (n, ''.join(map(chr, q['input'])).encode('utf-8', 'surrogatepass').hex()) for q in reqs2), capture_output=True, text=True)
            for q, l in zip(reqs2, p2.stdout.splitlines()):
                st, _, h = l.partition('\t'); want = (st, bytes.fromhex(h).decode() if st == 'ok' else '')
                got = (q['st'], ''.join(map(chr, q['out'])))
                tot += 1
                if got != want: badp.setdefault(n, []).append((''.join(map(chr, q['input'])), got, want))
        if not r.exhaustive: inc.setdefault(n, 'not exhaustive within budget (%d paths)' % r.paths)
    pool.terminate()
    print('SYMBOLIC: paths replayed natively', tot, 'probes-with-mismatch', len(badp), 'probes-inconclusive', len(inc), 'in %.0fs' % (time.time() - t0))
    for n, l in badp.items():
        print('SYM-MISMATCH', n, len(l))
        for s_, g, w in l[:2]: print('    input=%r\n      interp=%r\n      native=%r' % (s_, g, w))
    for n, u in inc.items(): print('SYM-INCONCLUSIVE', n, '::', u)
if '--keep' not in sys.argv: shutil.rmtree(SCR, ignore_errors=True)
