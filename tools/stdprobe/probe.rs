//! std-API conformance probes for the mirsym interpreter (never part of /repo: copied into a scratch copy only).
#![allow(clippy::all, unused, dead_code)]
use std::collections::{BTreeMap, BTreeSet, HashMap, HashSet, VecDeque};
use std::fmt::Write as _;

pub trait Sh { fn area(&self) -> usize; fn name(&self) -> String { "sh".into() } }
pub struct ShA(pub usize);
pub struct ShB;
impl Sh for ShA { fn area(&self) -> usize { self.0 * 2 } }
impl Sh for ShB { fn area(&self) -> usize { 1 } fn name(&self) -> String { "b".into() } }
pub struct Manual { a: usize, b: String }
impl std::fmt::Debug for Manual { fn fmt(&self, f: &mut std::fmt::Formatter<'_>) -> std::fmt::Result { f.debug_struct("Manual").field("a", &self.a).field("b", &self.b).finish() } }
impl std::fmt::Display for Manual { fn fmt(&self, f: &mut std::fmt::Formatter<'_>) -> std::fmt::Result { write!(f, "<{}:{}>", self.a, self.b) } }
pub struct Wrap(Option<char>);
impl std::fmt::Debug for Wrap { fn fmt(&self, f: &mut std::fmt::Formatter<'_>) -> std::fmt::Result { f.debug_tuple("Wrap").field(&self.0).finish() } }
impl std::fmt::Display for Wrap { fn fmt(&self, f: &mut std::fmt::Formatter<'_>) -> std::fmt::Result { f.pad(&match self.0 { Some(c) => c.to_string(), None => "-".to_string() }) } }
pub struct Lst(Vec<i64>);
impl std::fmt::Debug for Lst { fn fmt(&self, f: &mut std::fmt::Formatter<'_>) -> std::fmt::Result { f.debug_list().entries(self.0.iter()).finish() } }

// ---- module-level items for language-construct probes
#[derive(Debug, Clone, PartialEq, Eq, Hash, PartialOrd, Ord, Default)]
pub struct Pt { pub x: i32, pub y: i32 }
impl std::ops::Add for Pt { type Output = Pt; fn add(self, o: Pt) -> Pt { Pt { x: self.x + o.x, y: self.y + o.y } } }
impl std::ops::AddAssign<i32> for Pt { fn add_assign(&mut self, k: i32) { self.x += k; self.y += k; } }
impl std::ops::Neg for Pt { type Output = Pt; fn neg(self) -> Pt { Pt { x: -self.x, y: -self.y } } }
impl std::ops::Index<usize> for Pt { type Output = i32; fn index(&self, i: usize) -> &i32 { if i == 0 { &self.x } else { &self.y } } }
impl std::fmt::Display for Pt { fn fmt(&self, f: &mut std::fmt::Formatter<'_>) -> std::fmt::Result { write!(f, "({}, {})", self.x, self.y) } }
impl std::str::FromStr for Pt { type Err = String; fn from_str(s: &str) -> Result<Pt, String> { let (a, b) = s.split_once(',').ok_or_else(|| "no comma".to_string())?; Ok(Pt { x: a.trim().parse().map_err(|_| "bad x".to_string())?, y: b.trim().parse().map_err(|_| "bad y".to_string())? }) } }
impl TryFrom<(i64, i64)> for Pt { type Error = &'static str; fn try_from(t: (i64, i64)) -> Result<Pt, &'static str> { Ok(Pt { x: i32::try_from(t.0).map_err(|_| "x")?, y: i32::try_from(t.1).map_err(|_| "y")? }) } }
impl From<i32> for Pt { fn from(k: i32) -> Pt { Pt { x: k, y: k } } }
#[derive(Debug, Clone, PartialEq)]
pub enum Expr { Num(i64), Neg(Box<Expr>), Add(Box<Expr>, Box<Expr>), Mul(Vec<Expr>), Var { name: String, idx: usize } }
impl Expr {
    pub fn eval(&self) -> i64 { match self { Expr::Num(n) => *n, Expr::Neg(e) => -e.eval(), Expr::Add(a, b) => a.eval() + b.eval(), Expr::Mul(v) => v.iter().map(Expr::eval).product(), Expr::Var { idx, .. } => *idx as i64 } }
    pub fn depth(&self) -> usize { match self { Expr::Num(_) | Expr::Var { .. } => 1, Expr::Neg(e) => 1 + e.depth(), Expr::Add(a, b) => 1 + a.depth().max(b.depth()), Expr::Mul(v) => 1 + v.iter().map(|e| e.depth()).max().unwrap_or(0) } }
    pub fn parse(cs: &[char], pos: &mut usize) -> Option<Expr> {
        let c = *cs.get(*pos)?; *pos += 1;
        match c { '0'..='9' => Some(Expr::Num(c as i64 - 48)), '-' => Some(Expr::Neg(Box::new(Expr::parse(cs, pos)?))), '+' => { let a = Expr::parse(cs, pos)?; let b = Expr::parse(cs, pos)?; Some(Expr::Add(Box::new(a), Box::new(b))) }
            '*' => { let mut v = vec![]; while *pos < cs.len() && cs[*pos] != ';' { v.push(Expr::parse(cs, pos)?); } *pos += 1; Some(Expr::Mul(v)) } c if c.is_alphabetic() => Some(Expr::Var { name: c.to_string(), idx: *pos }), _ => None }
    }
}
#[derive(Debug)] pub struct E(pub String);
impl std::fmt::Display for E { fn fmt(&self, f: &mut std::fmt::Formatter<'_>) -> std::fmt::Result { write!(f, "E:{}", self.0) } }
impl std::error::Error for E {}
pub struct Countdown(pub u32);
impl Iterator for Countdown { type Item = u32; fn next(&mut self) -> Option<u32> { if self.0 == 0 { None } else { self.0 -= 1; Some(self.0) } } }
pub trait Shape { const SIDES: u32; type Unit; fn unit(&self) -> Self::Unit; fn describe(&self) -> String where Self::Unit: std::fmt::Debug { format!("{}:{:?}", Self::SIDES, self.unit()) } }
pub struct Tri; pub struct Sq(pub char);
impl Shape for Tri { const SIDES: u32 = 3; type Unit = u8; fn unit(&self) -> u8 { 7 } }
impl Shape for Sq { const SIDES: u32 = 4; type Unit = char; fn unit(&self) -> char { self.0 } }
pub fn describe_all<S: Shape>(v: &[S]) -> String where S::Unit: std::fmt::Debug { v.iter().map(|s| s.describe()).collect::<Vec<_>>().join(";") }
pub static TABLE: [(&str, u8); 3] = [("a", 1), ("bc", 2), ("", 0)];
pub const LIMIT: usize = 3;
pub struct Node { pub val: u32, pub next: Option<Box<Node>> }
pub struct Stack<T> { items: Vec<T> }
impl<T: Clone + std::fmt::Debug> Stack<T> { pub fn new() -> Self { Stack { items: Vec::new() } } pub fn push(&mut self, t: T) -> &mut Self { self.items.push(t); self } pub fn pop(&mut self) -> Option<T> { self.items.pop() } pub fn peek(&self) -> Option<&T> { self.items.last() } pub fn len(&self) -> usize { self.items.len() } }
thread_local! {
    static TL_COUNT: std::cell::Cell<usize> = const { std::cell::Cell::new(0) };
    static TL_LOG: std::cell::RefCell<Vec<String>> = std::cell::RefCell::new(Vec::new());
}
fn nums(s: &str) -> Vec<i64> { s.chars().map(|c| c as i64).collect() }
fn show<T: std::fmt::Debug>(t: T) -> String { format!("{t:?}") }

macro_rules! probes { ($($name:ident = |$s:ident| $body:expr;)*) => {
    $(pub fn $name($s: &str) -> String { $body })*
    pub const NAMES: &[&str] = &[$(stringify!($name)),*];
    pub fn run(name: &str, input: &str) -> String { match name { $(stringify!($name) => $name(input),)* _ => "?".into() } }
}}

probes! {
    // ---- str
    str_len = |s| s.len().to_string();
    str_chars_count = |s| s.chars().count().to_string();
    str_chars_rev = |s| s.chars().rev().collect::<String>();
    str_char_indices = |s| s.char_indices().map(|(i, c)| format!("{i}{c}")).collect::<Vec<_>>().join("|");
    str_bytes_sum = |s| s.bytes().map(|b| b as u64).sum::<u64>().to_string();
    str_trim = |s| format!("[{}][{}][{}]", s.trim(), s.trim_start(), s.trim_end());
    str_trim_matches = |s| format!("[{}][{}]", s.trim_matches('a'), s.trim_start_matches(' '));
    str_split_comma = |s| s.split(',').map(str::trim).collect::<Vec<_>>().join("|");
    str_split_str = |s| s.split("-->").collect::<Vec<_>>().join("|");
    str_splitn = |s| s.splitn(2, ',').collect::<Vec<_>>().join("|");
    str_rsplit = |s| s.rsplit(',').collect::<Vec<_>>().join("|");
    str_rsplitn = |s| s.rsplitn(2, ',').collect::<Vec<_>>().join("|");
    str_split_once = |s| match s.split_once(',') { Some((a, b)) => format!("{a}|{b}"), None => "none".into() };
    str_rsplit_once = |s| match s.rsplit_once(',') { Some((a, b)) => format!("{a}|{b}"), None => "none".into() };
    str_split_ws = |s| s.split_whitespace().collect::<Vec<_>>().join("|");
    str_split_closure = |s| s.split(|c: char| c == ',' || c == ' ').collect::<Vec<_>>().join("|");
    str_split_terminator = |s| s.split_terminator(',').collect::<Vec<_>>().join("|");
    str_split_inclusive = |s| s.split_inclusive(',').collect::<Vec<_>>().join("|");
    str_lines = |s| s.lines().count().to_string();
    str_find = |s| format!("{:?} {:?} {:?}", s.find(','), s.find("-->"), s.find(|c: char| c.is_ascii_digit()));
    str_rfind = |s| format!("{:?} {:?}", s.rfind(','), s.rfind(char::is_whitespace));
    str_contains = |s| format!("{} {} {}", s.contains(','), s.contains("-->"), s.contains(char::is_numeric));
    str_starts_ends = |s| format!("{} {} {} {}", s.starts_with('<'), s.starts_with("  "), s.ends_with('.'), s.ends_with(|c: char| c == ' '));
    str_strip = |s| format!("{:?} {:?}", s.strip_prefix('<'), s.strip_suffix(" "));
    str_replace = |s| format!("{} {}", s.replace(',', ";"), s.replacen("a", "AA", 1));
    str_case = |s| format!("{} {} {}", s.to_uppercase(), s.to_lowercase(), s.to_ascii_uppercase());
    str_repeat = |s| s.repeat(2);
    str_get = |s| format!("{:?} {:?}", s.get(0..1), s.get(1..));
    str_slice_idx = |s| if s.len() >= 2 && s.is_char_boundary(1) { format!("{}|{}", &s[..1], &s[1..]) } else { "short".into() };
    str_split_at = |s| if s.len() >= 2 && s.is_char_boundary(1) { let (a, b) = s.split_at(1); format!("{a}|{b}") } else { "short".into() };
    str_parse_ints = |s| format!("{:?} {:?} {:?} {:?}", s.trim().parse::<i64>().ok(), s.trim().parse::<usize>().ok(), s.trim().parse::<u8>().ok(), s.trim().parse::<i32>().ok());
    str_parse_f64 = |s| format!("{:?}", s.trim().parse::<f64>().ok());
    str_parse_bool_char = |s| format!("{:?} {:?}", s.parse::<bool>().ok(), s.parse::<char>().ok());
    str_cmp = |s| format!("{:?} {} {}", s.cmp("ab"), s < "b", s == "a");
    str_char_nth = |s| format!("{:?} {:?} {:?}", s.chars().next(), s.chars().nth(1), s.chars().last());
    str_matches = |s| s.matches(',').count().to_string();
    str_match_indices = |s| s.match_indices(',').map(|(i, _)| i.to_string()).collect::<Vec<_>>().join("|");
    str_eq_ignore = |s| s.eq_ignore_ascii_case("AB").to_string();
    str_is_ascii = |s| s.is_ascii().to_string();
    str_to_owned_cmp = |s| { let a = s.to_owned(); let b = String::from(s); (a == b && a.as_str() == s).to_string() };
    str_escape = |s| format!("{:?}", s);
    str_char_escape = |s| s.chars().map(|c| format!("{c:?}")).collect::<String>();
    str_peek_loop = |s| { let mut it = s.chars().peekable(); let mut o = String::new(); while let Some(c) = it.next() { if let Some(&n) = it.peek() { if n == c { o.push('='); } } o.push(c); } o };
    str_next_if = |s| { let mut it = s.chars().peekable(); let mut n = 0; while it.next_if(|c| c.is_whitespace()).is_some() { n += 1; } format!("{n}{:?}", it.next()) };

    // ---- language constructs
    lang_casts = |s| { let n = s.len() as i64 - 3; let c = s.chars().next().unwrap_or('é'); format!("{} {} {} {} {} {} {} {}", n as u8, n as i8 as u32, (n * 100) as i16, c as u8, c as u32 as u16, (s.len() as f64 * 1.7) as i32, -1.5f64 as u8, 300.7f32 as u8) };
    lang_casts2 = |s| { let n = s.len(); format!("{} {} {} {} {}", n as f64 / 3.0, (n as i32 - 5) as f32, (n as u8 as char), true as u8 + (n > 1) as u8, (n as i128 * -3) as i64) };
    lang_u8_arith = |s| { let b = s.len() as u8; format!("{} {} {} {:?} {}", b.wrapping_mul(77), b.wrapping_sub(1), b.saturating_add(250), b.checked_mul(100), (b as u16) << 8 | 0xff) };
    lang_overflow_panic = |s| { let b = s.len() as u8; let r = b + 250; format!("{r}") };
    lang_div_zero = |s| { let n = s.len(); format!("{}", 10 / n) };
    lang_index_panic = |s| { let v: Vec<char> = s.chars().collect(); format!("{}", v[2]) };
    lang_slice_panic = |s| format!("{}", &s[1..3]);
    lang_unwrap_panic = |s| format!("{}", s.find(',').unwrap());
    lang_expect_err = |s| format!("{}", s.parse::<i32>().expect("number"));
    lang_arrays = |s| { let a = [s.len(); 4]; let mut b = [[0u8; 3]; 2]; b[1][2] = s.len() as u8; let c: [char; 3] = ['x', 'y', 'z']; format!("{:?}{:?}{}{:?}", a, b, c.len(), &c[1..]) };
    lang_2d_vec = |s| { let mut g = vec![vec![0usize; 3]; 2]; for (i, c) in s.chars().enumerate().take(6) { g[i / 3][i % 3] = c as usize % 10; } format!("{:?}{}", g, g.iter().map(|r| r.iter().sum::<usize>()).max().unwrap_or(0)) };
    lang_struct_ops = |s| { let p = Pt { x: s.len() as i32, y: -1 }; let mut q = p.clone() + Pt::from(2); q += 1; let r = -q.clone(); format!("{} {} {:?} {} {} {:?}", p, q, r, r[0], p < q, Pt { x: 9, ..Default::default() }) };
    lang_from_str = |s| format!("{:?}|{:?}", s.parse::<Pt>(), Pt::try_from((s.len() as i64, 1i64 << 40)));
    lang_into = |s| { let p: Pt = (s.len() as i32).into(); let t: Result<Pt, _> = (1i64, 2i64).try_into(); let st: String = 'c'.into(); let o: Option<usize> = s.len().into(); format!("{p}{:?}{st}{o:?}", t) };
    lang_expr_tree = |s| { let cs: Vec<char> = s.chars().collect(); let mut pos = 0; match Expr::parse(&cs, &mut pos) { Some(e) => format!("{} {} {} {:?}", e.eval(), e.depth(), pos, e), None => format!("none@{pos}") } };
    lang_expr_clone_eq = |s| { let e = Expr::Add(Box::new(Expr::Num(s.len() as i64)), Box::new(Expr::Mul(vec![Expr::Num(2), Expr::Var { name: s.to_string(), idx: 1 }]))); let f = e.clone(); format!("{}{}{}", e == f, e != Expr::Num(1), matches!(&f, Expr::Add(a, _) if **a == Expr::Num(1))) };
    lang_user_iter = |s| { let c = Countdown(s.len() as u32); let v: Vec<u32> = c.filter(|x| x % 2 == 0).collect(); let t: u32 = Countdown(4).zip(Countdown(3)).map(|(a, b)| a * b).sum(); let mut it = Countdown(2); let a = it.next(); let b = it.by_ref().count(); format!("{v:?}{t}{a:?}{b}") };
    lang_assoc = |s| format!("{}|{}|{}", describe_all(&[Tri, Tri]), describe_all(&[Sq(s.chars().next().unwrap_or('q'))]), <Sq as Shape>::SIDES + Tri::SIDES);
    lang_statics = |s| { let hit = TABLE.iter().find(|(k, _)| *k == s).map(|(_, v)| *v); format!("{hit:?}{}{}", TABLE.len(), s.len() > LIMIT) };
    lang_linked_list = |s| { let mut head: Option<Box<Node>> = None; for c in s.chars().take(4) { head = Some(Box::new(Node { val: c as u32, next: head })); } let mut n = 0; let mut sum = 0; let mut cur = &head; while let Some(node) = cur { n += 1; sum += node.val; cur = &node.next; } if let Some(h) = head.as_mut() { h.val += 1; } format!("{n}{sum}{:?}", head.map(|h| h.val)) };
    lang_generic_stack = |s| { let mut st: Stack<char> = Stack::new(); for c in s.chars() { if c == ',' { st.pop(); } else { st.push(c).push('.'); } } let l = st.len(); let pk = st.peek().cloned(); format!("{}{:?}{:?}", l, pk, st.pop()) };
    lang_string_match = |s| match s.trim() { "" => "empty".to_string(), "a" | "ab" => "short".to_string(), t if t.starts_with('<') && t.ends_with('>') => format!("angle{}", t.len()), t if t.len() > 5 => "long".to_string(), _ => "other".to_string() };
    lang_tuple_match = |s| { let t = (s.len(), s.chars().next(), s.contains(',')); match t { (0, _, _) => "z".into(), (n, Some(c @ 'a'..='z'), false) if n < 3 => format!("lc{c}{n}"), (_, Some(c), true) => format!("comma{c}"), (n, _, _) => format!("n{n}") } };
    lang_ref_patterns = |s| { let v: Vec<(usize, char)> = s.char_indices().collect(); let mut out = String::new(); for &(i, c) in &v { if i % 2 == 0 { out.push(c); } } for (i, c) in v.iter() { if *i == 1 { out.push(*c); } } if let Some(&(_, ref c)) = v.first() { out.push(*c); } out };
    lang_mut_refs = |s| { let mut v: Vec<String> = s.split(',').map(String::from).collect(); if let Some(f) = v.first_mut() { f.push('!'); } for x in v.iter_mut().skip(1) { *x = x.trim().to_uppercase(); } let l = v.len(); let last = &mut v[l - 1]; last.insert(0, '#'); { let (a, b) = v.split_at_mut(l / 2); if let (Some(x), Some(y)) = (a.first_mut(), b.first_mut()) { std::mem::swap(x, y); } } v.join("|") };
    lang_closure_state = |s| { let mut count = 0; let mut seen = Vec::new(); let mut visit = |c: char| { count += 1; if !seen.contains(&c) { seen.push(c); } seen.len() }; let r: Vec<usize> = s.chars().map(|c| visit(c)).collect(); let mk = |k: usize| move |x: usize| x + k; let add2 = mk(2); format!("{r:?}{count}{}", add2(count)) };
    lang_fn_returning_closure = |s| { fn compose<A, B, C>(f: impl Fn(A) -> B, g: impl Fn(B) -> C) -> impl Fn(A) -> C { move |x| g(f(x)) } let h = compose(|c: char| c as u32, |n: u32| n % 7); s.chars().map(|c| h(c).to_string()).collect::<Vec<_>>().join(",") };
    lang_recursion = |s| { fn fib(n: u32) -> u64 { if n < 2 { n as u64 } else { fib(n - 1) + fib(n - 2) } } fn ack(m: u32, n: u32) -> u32 { if m == 0 { n + 1 } else if n == 0 { ack(m - 1, 1) } else { ack(m - 1, ack(m, n - 1)) } } format!("{}{}", fib(s.len() as u32 % 15), ack(2, s.len() as u32 % 3)) };
    lang_loop_break_value = |s| { let cs: Vec<char> = s.chars().collect(); let mut i = 0; let found = loop { if i >= cs.len() { break None; } if cs[i].is_ascii_digit() { break Some(i); } i += 1; }; let lab = 'outer: { for c in &cs { if *c == ',' { break 'outer 1; } } 0 }; format!("{found:?}{lab}") };
    lang_while_let_pop = |s| { let mut st: Vec<char> = s.chars().collect(); let mut out = String::new(); while let Some(c) = st.pop() { if c == ' ' { continue; } out.push(c); if out.len() > 4 { break; } } out };
    lang_shadow_blocks = |s| { let x = s.len(); let x = { let y = x * 2; y + 1 }; let x = if x > 5 { x - 5 } else { x }; let s = s.trim(); let s = s.to_string() + "."; format!("{x}{s}") };
    lang_option_box = |s| { let o: Option<Box<str>> = if s.is_empty() { None } else { Some(s.into()) }; let l = o.as_deref().map(str::len); let b: Box<[char]> = s.chars().collect(); format!("{l:?}{}{:?}", b.len(), b.first()) };
    lang_i128 = |s| { let n = s.len() as i128; let big = n * 1_000_000_000_000_000_000_000i128; format!("{} {} {}", big, big / 7, (big as u128) >> 70) };
    lang_shifts = |s| { let n = s.len() as u32; format!("{} {} {} {:?} {}", 1u32 << (n % 32), 0x8000_0000u32 >> (n % 32), (-16i32) >> (n % 5), 1u8.checked_shl(n), 1u64.rotate_left(n)) };
    lang_float_sort = |s| { let mut v: Vec<f64> = s.split(',').filter_map(|x| x.trim().parse().ok()).collect(); v.sort_by(|a, b| a.partial_cmp(b).unwrap()); v.dedup(); let m = v.iter().cloned().fold(f64::NAN, f64::min); format!("{v:?}{m}") };
    lang_char_arith = |s| s.chars().map(|c| if c.is_ascii_lowercase() { (((c as u8 - b'a' + 13) % 26) + b'a') as char } else if c.is_ascii_digit() { char::from_digit((c.to_digit(10).unwrap() + 1) % 10, 10).unwrap() } else { c }).collect::<String>();
    lang_byte_literals = |s| { let b = s.as_bytes(); let n = b.iter().filter(|&&x| x == b'a' || x == b',').count(); let h = b.iter().fold(5381u32, |h, &x| h.wrapping_mul(33) ^ x as u32); format!("{n} {h} {}", b.first().map_or(0, |x| *x)) };
    lang_result_chain = |s| { fn step(s: &str) -> Result<(i32, &str), String> { let (h, t) = s.split_once(',').ok_or("no comma")?; let n: i32 = h.trim().parse().map_err(|e: std::num::ParseIntError| e.to_string())?; Ok((n, t)) } let r = step(s).and_then(|(n, t)| step(t).map(|(m, _)| n + m)).or_else(|e| if e == "no comma" { Ok(-1) } else { Err(e) }); format!("{r:?}") };
    lang_error_trait = |s| { fn f(s: &str) -> Result<usize, Box<dyn std::error::Error>> { if s.is_empty() { return Err(Box::new(E("empty".into()))); } let n: usize = s.trim().parse()?; Ok(n) } match f(s) { Ok(n) => format!("ok{n}"), Err(e) => format!("err:{e}") } };
    lang_sort_strings_by_key = |s| { let mut v: Vec<&str> = s.split(',').collect(); v.sort_by_key(|x| (x.len(), x.chars().next())); let mut w = v.clone(); w.sort_by(|a, b| b.cmp(a)); w.dedup(); format!("{v:?}{w:?}") };
    lang_nested_closures_iter = |s| s.split(',').map(|p| p.chars().filter(|c| !c.is_whitespace()).map(|c| c.to_ascii_uppercase()).collect::<String>()).filter(|p| !p.is_empty()).enumerate().map(|(i, p)| format!("{i}={p}")).collect::<Vec<_>>().join("&");
    lang_early_return_opt = |s| { fn first_two(s: &str) -> Option<(char, char)> { let mut it = s.chars(); let a = it.next()?; let b = it.next()?; if a == b { return None; } Some((a, b)) } format!("{:?}", first_two(s)) };
    lang_const_generic = |s| { fn first_n<const N: usize>(s: &str) -> [char; N] { let mut a = ['_'; N]; for (i, c) in s.chars().take(N).enumerate() { a[i] = c; } a } format!("{:?}{:?}", first_n::<2>(s), first_n::<4>(s).len()) };
    lang_where_clause_dispatch = |s| { fn show_all<I>(it: I) -> String where I: IntoIterator, I::Item: std::fmt::Display { it.into_iter().map(|x| x.to_string()).collect::<Vec<_>>().join("/") } format!("{}|{}|{}", show_all(s.chars()), show_all(vec![1, 2]), show_all(s.split(','))) };
    lang_cmp_chain = |s| { let mut v: Vec<(usize, &str)> = s.split(',').map(|x| (x.len(), x)).collect(); v.sort_by(|a, b| a.0.cmp(&b.0).then_with(|| b.1.cmp(a.1))); let best = v.iter().max_by_key(|(l, _)| *l).map(|(_, x)| *x); format!("{v:?}{best:?}") };
    lang_entry_count = |s| { let mut m: BTreeMap<char, Vec<usize>> = BTreeMap::new(); for (i, c) in s.chars().enumerate() { m.entry(c).or_default().push(i); } let top = m.iter().max_by_key(|(_, v)| v.len()).map(|(c, v)| (*c, v.len())); format!("{m:?}{top:?}") };
    slice_strip = |s| { let v: Vec<char> = s.chars().collect(); let p = ['a', 'b']; format!("{:?}{:?}{:?}{:?}", v.strip_prefix(&p[..]).map(|r| r.len()), v.strip_suffix(&[' ']).map(|r| r.len()), v.get(1..3), v.get(..=0).map(|x| x.to_vec())) };
    slice_get_ranges = |s| { let v = nums(s); format!("{:?}{:?}{:?}{:?}", v.get(1..), v.get(..2), v.get(5..2), std::slice::from_ref(&s.len())) };
    slice_splits = |s| { let v: Vec<char> = s.chars().collect(); let f = |c: &char| *c == ','; format!("{:?}|{:?}|{:?}|{:?}", v.rsplit(f).map(|x| x.len()).collect::<Vec<_>>(), v.splitn(2, f).map(|x| x.len()).collect::<Vec<_>>(), v.rsplitn(2, f).map(|x| x.len()).collect::<Vec<_>>(), v.split_inclusive(f).map(|x| x.len()).collect::<Vec<_>>()) };
    tls_cell = |s| { let a = TL_COUNT.with(|c| c.replace(c.get() + s.len())); TL_COUNT.with(|c| c.set(c.get() + 1)); let b = TL_COUNT.get(); TL_COUNT.set(0); format!("{a}{b}{}", TL_COUNT.with(|c| c.get())) };
    tls_refcell = |s| { TL_LOG.with(|l| l.borrow_mut().push(s.to_string())); TL_LOG.with_borrow_mut(|l| l.push("x".into())); let n = TL_LOG.with_borrow(|l| l.len()); let j = TL_LOG.with(|l| l.borrow().join("|")); let old = TL_LOG.take(); format!("{n}{j}{}{}", old.len(), TL_LOG.with_borrow(|l| l.len())) };
    cell_refcell = |s| { let c = std::cell::Cell::new(s.len()); c.set(c.get() * 2); let r = std::cell::RefCell::new(vec![1usize]); r.borrow_mut().push(c.get()); let t = c.replace(0); { let mut b = r.borrow_mut(); b[0] += t; } let shown = format!("{:?}", r.borrow()); format!("{}{}{}", c.get(), shown, r.into_inner().len()) };
    // ---- String
    string_build = |s| { let mut o = String::with_capacity(4); o.push_str(s); o.push('!'); o.insert(0, '>'); o.insert_str(1, "ab"); o += "z"; o };
    string_pop_trunc = |s| { let mut o = s.to_string(); let p = o.pop(); let l = o.chars().count(); if l > 1 && o.is_char_boundary(1) { o.truncate(1); } format!("{o}{p:?}") };
    string_remove = |s| { let mut o = s.to_string(); if !o.is_empty() { let c = o.remove(0); format!("{c}|{o}") } else { "e".into() } };
    string_retain = |s| { let mut o = s.to_string(); o.retain(|c| !c.is_whitespace()); o };
    string_drain = |s| { let mut o = s.to_string(); if o.len() >= 1 && o.is_char_boundary(1) { let d: String = o.drain(..1).collect(); format!("{d}|{o}") } else { "short".into() } };
    string_replace_range = |s| { let mut o = s.to_string(); if o.len() >= 1 && o.is_char_boundary(1) { o.replace_range(..1, "XY"); } o };
    string_extend = |s| { let mut o = String::new(); o.extend(s.chars().filter(|c| c.is_alphanumeric())); o.extend(["-", "x"]); o };
    string_from_iter = |s| { let a: String = s.chars().map(|c| c.to_ascii_uppercase()).collect(); let b = String::from_iter(s.split(',')); format!("{a}|{b}") };
    string_write = |s| { let mut o = String::new(); write!(o, "{}-{:>4}-{:<3}|{:03}", s, "ab", "c", 7).unwrap(); writeln!(o, "{:?}", s.len()).unwrap(); o };
    string_fmt_misc = |s| format!("{:5}|{:<5}|{:^5}|{:>5}|{:+}|{:x}|{:#x}|{:08.3}|{:e}", 42, 42, 42, s.len(), 7, 255, 255, 3.14159, 1500.0);
    string_fmt_float = |s| format!("{} {} {:?} {:.2} {}", 0.1 + 0.2, 1.0f64, 1.0f64, 2.0f64 / 3.0, f64::NAN);
    string_chars_sorted = |s| { let mut v: Vec<char> = s.chars().collect(); v.sort(); v.dedup(); v.into_iter().collect() };
    string_concat_join = |s| { let v = vec![s.to_string(), "x".to_string()]; format!("{}|{}", v.concat(), v.join(", ")) };
    string_into_bytes = |s| { let b = s.to_string().into_bytes(); format!("{}", b.len()) };
    string_from_utf8 = |s| String::from_utf8(s.as_bytes().to_vec()).unwrap();
    string_char_to_string = |s| s.chars().map(|c| c.to_string()).collect::<Vec<_>>().join(".");
    string_cow = |s| { let c = String::from_utf8_lossy(s.as_bytes()); c.into_owned() };
    // ---- char
    char_classes = |s| s.chars().map(|c| format!("{}{}{}{}{}{}{}", c.is_alphabetic() as u8, c.is_numeric() as u8, c.is_alphanumeric() as u8, c.is_whitespace() as u8, c.is_ascii_punctuation() as u8, c.is_ascii_hexdigit() as u8, c.is_control() as u8)).collect::<Vec<_>>().join(" ");
    char_ascii_classes = |s| s.chars().map(|c| format!("{}{}{}{}{}", c.is_ascii_lowercase() as u8, c.is_ascii_uppercase() as u8, c.is_ascii_graphic() as u8, c.is_ascii_control() as u8, c.is_ascii_alphabetic() as u8)).collect::<Vec<_>>().join(" ");
    char_digits = |s| s.chars().map(|c| format!("{:?}{:?}", c.to_digit(10), c.to_digit(16))).collect::<String>();
    char_conv = |s| s.chars().map(|c| format!("{}{}{}", c as u32, c.len_utf8(), u32::from(c))).collect::<Vec<_>>().join(" ");
    char_from = |s| format!("{:?} {:?} {:?} {}", char::from_u32(s.len() as u32 + 65), char::from_digit(s.len() as u32 % 10, 10), char::from(65u8 + (s.len() % 20) as u8), (b'a' + (s.len() % 20) as u8) as char);
    char_cmp = |s| s.chars().map(|c| format!("{}{}", (c >= 'a' && c <= 'z') as u8, ('0'..='9').contains(&c) as u8)).collect::<String>();
    char_match = |s| s.chars().map(|c| match c { 'a'..='f' => 'L', '0'..='9' => 'D', ' ' | '\t' => 'S', '<' | '>' => 'B', _ => '?' }).collect::<String>();
    char_case = |s| s.chars().flat_map(|c| c.to_uppercase()).chain(s.chars().flat_map(char::to_lowercase)).collect::<String>();
    // ---- Vec / slice
    vec_basic = |s| { let mut v = nums(s); v.push(1); v.insert(0, 2); let p = v.pop(); let r = if v.len() > 1 { Some(v.remove(1)) } else { None }; format!("{v:?}{p:?}{r:?}") };
    vec_extend = |s| { let mut v = nums(s); v.extend([1, 2]); v.extend_from_slice(&[3]); v.extend(nums(s).iter()); let mut w = vec![9]; v.append(&mut w); format!("{v:?}{}", w.len()) };
    vec_sort = |s| { let mut v = nums(s); v.sort(); let mut w = nums(s); w.sort_by(|a, b| b.cmp(a)); let mut x = nums(s); x.sort_by_key(|a| -a); let mut y = nums(s); y.sort_unstable(); y.dedup(); format!("{v:?}{w:?}{x:?}{y:?}") };
    vec_rev_swap = |s| { let mut v = nums(s); v.reverse(); if v.len() > 1 { v.swap(0, 1); } format!("{v:?}") };
    vec_retain = |s| { let mut v = nums(s); v.retain(|x| x % 2 == 0); let mut w = nums(s); w.dedup_by_key(|x| *x / 10); format!("{v:?}{w:?}") };
    vec_trunc = |s| { let mut v = nums(s); v.truncate(2); let mut w = nums(s); w.clear(); let mut x = nums(s); x.resize(3, 0); format!("{v:?}{w:?}{x:?}") };
    vec_drain = |s| { let mut v = nums(s); let n = v.len().min(2); let d: Vec<i64> = v.drain(..n).collect(); format!("{d:?}{v:?}") };
    vec_split_off = |s| { let mut v = nums(s); let n = v.len() / 2; let w = v.split_off(n); format!("{v:?}{w:?}") };
    vec_access = |s| { let v = nums(s); format!("{:?}{:?}{:?}{:?}{}", v.first(), v.last(), v.get(1), v.get(100), v.is_empty()) };
    vec_contains = |s| { let v = nums(s); format!("{}{:?}{:?}", v.contains(&97), v.iter().position(|&x| x == 44), v.binary_search(&0).is_ok()) };
    vec_slices = |s| { let v = nums(s); let n = v.len().min(2); format!("{:?}{:?}{:?}", &v[..n], &v[n..], v[..n].to_vec()) };
    vec_split_first_last = |s| { let v = nums(s); format!("{:?}{:?}", v.split_first().map(|(a, b)| (*a, b.len())), v.split_last().map(|(a, b)| (*a, b.len()))) };
    vec_windows_chunks = |s| { let v = nums(s); format!("{:?}{:?}", v.windows(2).map(|w| w[1] - w[0]).collect::<Vec<_>>(), v.chunks(2).map(|c| c.len()).collect::<Vec<_>>()) };
    vec_iter_mut = |s| { let mut v = nums(s); for x in v.iter_mut() { *x += 1; } for x in &mut v { *x *= 2; } format!("{v:?}") };
    vec_starts_ends = |s| { let v = nums(s); format!("{}{}", v.starts_with(&[97]), v.ends_with(&[])) };
    vec_concat_join = |s| { let v = vec![nums(s), vec![0]]; format!("{:?}{:?}", v.concat(), v.join(&-1)) };
    vec_eq_cmp = |s| { let v = nums(s); let w = nums(s); format!("{}{:?}{}", v == w, v.cmp(&vec![97]), v < vec![98]) };
    vec_of_strings = |s| { let v: Vec<String> = s.split(',').map(|x| x.trim().to_string()).collect(); let r: Vec<&str> = v.iter().map(String::as_str).collect(); format!("{v:?}{}{}", r.join("+"), v.contains(&"a".to_string())) };
    vec_into_boxed = |s| { let b: Box<[i64]> = nums(s).into_boxed_slice(); let v = b.into_vec(); format!("{}", v.len()) };
    vec_swap_remove = |s| { let mut v = nums(s); if !v.is_empty() { let x = v.swap_remove(0); format!("{x}{v:?}") } else { "e".into() } };
    vec_rotate_fill = |s| { let mut v = nums(s); if !v.is_empty() { v.rotate_left(1); } let mut w = nums(s); w.fill(7); format!("{v:?}{w:?}") };
    vec_iter_rev_enum = |s| nums(s).iter().rev().enumerate().map(|(i, x)| format!("{i}:{x}")).collect::<Vec<_>>().join(",");
    vec_copy_from = |s| { let v = nums(s); let mut w = vec![0; v.len()]; w.copy_from_slice(&v); let mut x = vec![0; v.len()]; x.clone_from_slice(&v); format!("{}", w == x) };
    vec_deque = |s| { let mut d: VecDeque<char> = s.chars().collect(); d.push_front('^'); d.push_back('$'); let a = d.pop_front(); let b = d.pop_back(); format!("{a:?}{b:?}{}{:?}", d.len(), d.front()) };
    array_ops = |s| { let a = [1, 2, 3]; let b = a.map(|x| x * 2); format!("{:?}{}{}{:?}", b, a.len(), a.contains(&2), a.iter().copied().max()) };
    // ---- iterators
    it_sum_prod = |s| format!("{} {}", nums(s).iter().sum::<i64>(), nums(s).iter().take(3).map(|x| x % 7 + 1).product::<i64>());
    it_min_max = |s| { let v = nums(s); format!("{:?}{:?}{:?}{:?}", v.iter().min(), v.iter().max(), v.iter().min_by_key(|x| (*x - 100).abs()), v.iter().max_by(|a, b| (*a % 10).cmp(&(*b % 10)))) };
    it_fold_scan = |s| format!("{} {:?}", nums(s).iter().fold(0i64, |a, x| a * 3 + x), nums(s).iter().scan(0, |st, x| { *st += x; Some(*st) }).collect::<Vec<_>>());
    it_reduce = |s| format!("{:?}", nums(s).into_iter().reduce(|a, b| a.max(b)));
    it_any_all = |s| format!("{} {} {}", s.chars().any(|c| c == ','), s.chars().all(char::is_alphanumeric), s.chars().filter(|c| *c == ' ').count());
    it_find = |s| format!("{:?} {:?} {:?}", s.chars().find(|c| c.is_ascii_digit()), s.chars().position(|c| c == ','), s.chars().find_map(|c| c.to_digit(10)));
    it_skip_take = |s| s.chars().skip(1).take(3).collect::<String>();
    it_skip_take_while = |s| format!("{}|{}", s.chars().skip_while(|c| c.is_whitespace()).collect::<String>(), s.chars().take_while(|c| *c != ',').collect::<String>());
    it_map_while = |s| s.chars().map_while(|c| c.to_digit(10)).map(|d| d.to_string()).collect::<String>();
    it_step_chain = |s| s.chars().step_by(2).chain("!".chars()).collect::<String>();
    it_zip_unzip = |s| { let (a, b): (Vec<char>, Vec<usize>) = s.chars().zip(0..).unzip(); format!("{}{:?}", a.len(), b.last()) };
    it_enumerate_filter_map = |s| s.chars().enumerate().filter_map(|(i, c)| if i % 2 == 0 { Some(c) } else { None }).collect::<String>();
    it_flat_map = |s| s.split(',').flat_map(|p| p.chars().take(1)).collect::<String>();
    it_flatten = |s| vec![Some(1), None, Some(s.len())].into_iter().flatten().map(|x| x.to_string()).collect::<Vec<_>>().join(",");
    it_last_nth_count = |s| format!("{:?}{:?}{}", s.chars().last(), s.chars().nth(2), s.split(',').count());
    it_partition = |s| { let (a, b): (Vec<char>, Vec<char>) = s.chars().partition(|c| c.is_alphabetic()); format!("{}|{}", a.len(), b.len()) };
    it_collect_result = |s| { let r: Result<Vec<i64>, _> = s.split(',').map(|x| x.trim().parse::<i64>()).collect(); format!("{:?}", r.ok()) };
    it_collect_option = |s| { let r: Option<Vec<u32>> = s.chars().map(|c| c.to_digit(10)).collect(); format!("{r:?}") };
    it_collect_set = |s| { let h: HashSet<char> = s.chars().collect(); let b: BTreeSet<char> = s.chars().collect(); format!("{}{:?}", h.len(), b) };
    it_cmp_eq = |s| format!("{} {:?}", s.chars().eq("ab".chars()), s.chars().cmp("ab".chars()));
    it_rev_rposition = |s| { let v: Vec<char> = s.chars().collect(); format!("{:?}{:?}", v.iter().rposition(|c| *c == ','), v.iter().rev().position(|c| *c == ',')) };
    it_cloned_copied = |s| { let v = nums(s); format!("{}{}", v.iter().cloned().count(), v.iter().copied().filter(|x| *x > 60).count()) };
    it_inspect_for_each = |s| { let mut n = 0; s.chars().inspect(|_| n += 1).for_each(drop); let mut m = 0; s.chars().for_each(|c| m += c as u32); format!("{n}{m}") };
    it_try_fold = |s| format!("{:?}", s.chars().try_fold(0u32, |a, c| c.to_digit(10).map(|d| a * 10 + d)));
    it_cycle_take = |s| s.chars().cycle().take(5).collect::<String>();
    it_once_repeat = |s| std::iter::once('<').chain(s.chars()).chain(std::iter::repeat('>').take(2)).collect::<String>();
    it_successors = |s| std::iter::successors(Some(s.len()), |n| if *n > 0 { Some(n / 2) } else { None }).map(|x| x.to_string()).collect::<Vec<_>>().join(",");
    it_from_fn = |s| { let mut n = 0; std::iter::from_fn(|| { n += 1; if n < 4 { Some(n) } else { None } }).sum::<i32>().to_string() };
    it_range = |s| format!("{:?}{:?}{}", (0..s.len()).rev().collect::<Vec<_>>(), (1..=3).map(|x| x * x).collect::<Vec<_>>(), (0..10).step_by(3).count());
    it_dedup_windows = |s| { let v: Vec<char> = s.chars().collect(); v.windows(2).filter(|w| w[0] == w[1]).count().to_string() };
    it_is_sorted_lt = |s| { let v = nums(s); format!("{}{}", v.windows(2).all(|w| w[0] <= w[1]), v.iter().lt(vec![100].iter())) };
    it_peekable_while = |s| { let mut it = s.chars().peekable(); let mut o = vec![]; while let Some(c) = it.peek().copied() { if c == ',' { it.next(); continue; } let mut w = String::new(); while let Some(d) = it.next_if(|x| *x != ',') { w.push(d); } o.push(w); } o.join("|") };
    it_sum_f64 = |s| format!("{}", s.split(',').filter_map(|x| x.trim().parse::<f64>().ok()).sum::<f64>());
    it_max_float = |s| format!("{:?}", s.split(',').filter_map(|x| x.trim().parse::<f64>().ok()).fold(f64::NEG_INFINITY, f64::max));
    // ---- Option / Result
    opt_combin = |s| { let o = s.chars().next(); format!("{:?}{:?}{:?}{}{}{:?}", o.map(|c| c as u32), o.filter(|c| *c == 'a'), o.and_then(|c| c.to_digit(16)), o.is_some_and(|c| c == '<'), o.map_or(0, |c| c as u32), o.xor(None)) };
    opt_defaults = |s| { let o = s.find(','); format!("{}{}{}{:?}{:?}", o.unwrap_or(99), o.unwrap_or_default(), o.unwrap_or_else(|| 7), o.ok_or("none"), o.or(Some(1))) };
    opt_take_replace = |s| { let mut o = s.chars().next(); let t = o.take(); let r = o.replace('z'); let g = *o.get_or_insert('q'); format!("{t:?}{r:?}{g}{o:?}") };
    opt_zip_as = |s| { let a = s.find(','); let b = s.rfind(','); let t = s.to_string(); let o = Some(t); format!("{:?}{:?}{:?}", a.zip(b), o.as_deref(), o.as_ref().map(|x| x.len())) };
    opt_if_let_chain = |s| { let mut n = 0; if let Some(i) = s.find('<') { if let Some(j) = s[i..].find('>') { n = j; } } let m = match (s.find(','), s.find(';')) { (Some(a), Some(b)) => a + b, (Some(a), None) | (None, Some(a)) => a, (None, None) => 0 }; format!("{n}{m}") };
    opt_question = |s| { fn f(s: &str) -> Option<u32> { let c = s.chars().next()?; let d = c.to_digit(10)?; Some(d + 1) } format!("{:?}", f(s)) };
    opt_ord = |s| { let a = s.find(','); format!("{}{:?}{:?}", a < Some(3), a.cmp(&None), a.max(Some(2))) };
    opt_iter = |s| { let o = s.chars().next(); let v: Vec<char> = o.iter().copied().chain(o.into_iter()).collect(); format!("{v:?}") };
    opt_copied_cloned = |s| { let v = nums(s); format!("{:?}{:?}", v.first().copied(), v.last().cloned()) };
    opt_flatten_transpose = |s| { let a: Option<Option<usize>> = Some(s.find(',')); let r: Option<Result<i64, String>> = Some(s.trim().parse::<i64>().map_err(|e| "bad".to_string())); format!("{:?}{:?}", a.flatten(), r.transpose()) };
    res_combin = |s| { let r = s.trim().parse::<i64>(); format!("{:?}{:?}{}{}{:?}", r.as_ref().ok(), r.as_ref().map(|x| x + 1).ok(), r.is_ok(), r.as_ref().map_or(0, |x| *x), r.as_ref().map_err(|_| 0).err()) };
    res_question = |s| { fn f(s: &str) -> Result<i64, String> { let a = s.trim().parse::<i64>().map_err(|e| format!("bad"))?; if a < 0 { return Err("neg".into()); } Ok(a * 2) } format!("{:?}", f(s)) };
    res_and_or = |s| { let r: Result<usize, usize> = s.find(',').ok_or(s.len()); format!("{:?}{:?}{}{:?}", r.and_then(|x| if x > 1 { Ok(x) } else { Err(0) }), r.or_else(|e| if e > 2 { Ok::<usize, usize>(e) } else { Err(e) }), r.unwrap_or(5), r.ok()) };
    res_error_fmt = |s| format!("{}|{:?}", s.parse::<i64>().map(|_| String::new()).unwrap_or_else(|e| e.to_string()), s.parse::<f64>().is_err());
    res_unwrap_or_default = |s| format!("{}{}", s.parse::<i64>().unwrap_or_default(), s.parse::<u8>().unwrap_or(3));
    // ---- integers / floats
    int_ops = |s| { let n = s.len() as i64 - 3; format!("{} {} {} {} {} {}", n.abs(), n.pow(2), n.signum(), n.rem_euclid(4), n.min(1).max(-1), n.clamp(-1, 2)) };
    int_checked = |s| { let n = s.len(); format!("{:?}{:?}{:?}{}{}", n.checked_sub(3), n.checked_add(usize::MAX), n.checked_div(n.saturating_sub(1)), n.saturating_sub(9), n.wrapping_sub(9) > 5) };
    int_conv = |s| { let n = s.len() as i64 - 2; format!("{:?}{:?}{:?}{}{}", usize::try_from(n).ok(), u8::try_from(n + 250).ok(), i32::try_from(n).ok(), n as u8, (n as f64) / 2.0) };
    int_try_into = |s| { let n = s.len() as i64 - 2; let a: Result<usize, _> = n.try_into(); let b: Result<u32, _> = (n * 1000).try_into(); format!("{:?}{:?}", a.ok(), b.ok()) };
    int_from = |s| { let n = s.len() as u8; format!("{}{}{}", u32::from(n), i64::from(n), usize::from(n)) };
    int_bits = |s| { let n = s.len() as u32 + 1; format!("{} {} {} {} {}", n << 2, n >> 1, n & 3, n | 8, n ^ 5) };
    int_abs_diff_pow = |s| { let n = s.len() as u32; format!("{}{}{:?}", n.abs_diff(3), 2u32.pow(n.min(10)), 10u32.checked_pow(n)) };
    int_from_str_radix = |s| format!("{:?}{:?}", i64::from_str_radix(s.trim(), 10).ok(), u32::from_str_radix(s.trim(), 16).ok());
    int_to_string = |s| { let n = s.len() as i64 - 3; format!("{}|{}|{}", n.to_string(), (n as i8).to_string(), (s.len() as u64 * 1000003).to_string()) };
    int_cmp = |s| { let n = s.len(); format!("{:?}{:?}{}", n.cmp(&3), n.partial_cmp(&2), std::cmp::max(n, 4) + std::cmp::min(n, 4)) };
    int_div_rem = |s| { let n = s.len() as i64 + 1; format!("{} {} {} {}", 17 / n, 17 % n, -17 / n, (-17i64).div_euclid(n)) };
    f64_ops = |s| { let x = s.trim().parse::<f64>().unwrap_or(0.25); format!("{} {} {} {} {} {}", x.abs(), x.is_nan(), x.is_finite(), x.max(0.5), x.min(0.5), x.clamp(0.0, 1.0)) };
    f64_round = |s| { let x = s.trim().parse::<f64>().unwrap_or(2.5); format!("{} {} {} {} {}", x.floor(), x.ceil(), x.round(), x.trunc(), x as i64) };
    f64_cmp = |s| { let x = s.trim().parse::<f64>().unwrap_or(0.25); format!("{:?} {} {} {:?}", x.partial_cmp(&0.5), x < 1.0, (0.0..=1.0).contains(&x), x.total_cmp(&0.5)) };
    f64_bits = |s| { let x = s.trim().parse::<f64>().unwrap_or(0.25); format!("{} {}", x.to_bits(), f64::from_bits(x.to_bits()) == x) };
    f64_sign = |s| { let x = s.trim().parse::<f64>().unwrap_or(-0.0); format!("{} {} {}", x.is_sign_negative(), x.signum(), x == 0.0) };
    f64_arith = |s| { let x = s.trim().parse::<f64>().unwrap_or(0.1); format!("{} {} {} {}", x + 0.2, x * 3.0, x / 3.0, x - 1.0) };
    f32_parse = |s| format!("{:?}", s.trim().parse::<f32>().ok().map(|x| x as f64));
    // ---- collections
    set_ops = |s| { let a: HashSet<char> = s.chars().collect(); let b: HashSet<char> = "ab,".chars().collect(); let mut i: Vec<char> = a.intersection(&b).copied().collect(); i.sort(); let mut u: Vec<char> = a.union(&b).copied().collect(); u.sort(); let mut d: Vec<char> = a.difference(&b).copied().collect(); d.sort(); format!("{i:?}{u:?}{d:?}{}{}", a.is_subset(&b), a == b) };
    set_mut = |s| { let mut a: HashSet<char> = HashSet::new(); let mut dup = 0; for c in s.chars() { if !a.insert(c) { dup += 1; } } let r = a.remove(&','); a.retain(|c| c.is_alphabetic()); a.extend("xy".chars()); format!("{dup}{r}{}{}", a.len(), a.contains(&'x')) };
    set_get_take = |s| { let mut a: HashSet<String> = s.split(',').map(|x| x.trim().to_string()).collect(); let g = a.get("a").cloned(); let t = a.take("a"); format!("{g:?}{t:?}{}", a.len()) };
    map_ops = |s| { let mut m: HashMap<char, usize> = HashMap::new(); for c in s.chars() { *m.entry(c).or_insert(0) += 1; } let mut v: Vec<(char, usize)> = m.iter().map(|(k, v)| (*k, *v)).collect(); v.sort(); format!("{v:?}{:?}{}{}", m.get(&','), m.contains_key(&'a'), m.len()) };
    map_insert_remove = |s| { let mut m: HashMap<String, i64> = HashMap::new(); let a = m.insert(s.to_string(), 1); let b = m.insert(s.to_string(), 2); let c = m.remove(s); let d = m.get(s).copied(); format!("{a:?}{b:?}{c:?}{d:?}{}", m.is_empty()) };
    btree_ops = |s| { let mut m: BTreeMap<char, usize> = BTreeMap::new(); for (i, c) in s.chars().enumerate() { m.insert(c, i); } let b: BTreeSet<char> = s.chars().collect(); format!("{m:?}{:?}{:?}{:?}", b.iter().next(), b.iter().next_back(), m.keys().rev().take(2).collect::<Vec<_>>()) };
    map_values_sum = |s| { let m: HashMap<usize, char> = s.chars().enumerate().collect(); let mut ks: Vec<_> = m.keys().copied().collect(); ks.sort(); format!("{}{:?}", m.values().filter(|c| c.is_alphabetic()).count(), ks.last()) };
    // ---- misc language/stdlib
    mem_ops = |s| { let mut a = s.to_string(); let mut b = String::from("b"); std::mem::swap(&mut a, &mut b); let c = std::mem::take(&mut a); let d = std::mem::replace(&mut b, "r".into()); format!("{a}|{b}|{c}|{d}") };
    box_rc = |s| { let b = Box::new(s.len()); let r = std::rc::Rc::new(s.to_string()); let r2 = r.clone(); let a = std::sync::Arc::new(*b + 1); format!("{}{}{}{}", *b, r2.len(), r.as_str().len(), *a) };
    cow_ops = |s| { use std::borrow::Cow; let c: Cow<str> = if s.contains(',') { Cow::Owned(s.replace(',', ";")) } else { Cow::Borrowed(s) }; format!("{}{}", c, c.len()) };
    tuple_cmp = |s| { let a = (s.len(), s.chars().next()); let b = (2usize, Some('a')); format!("{:?}{}{}", a.cmp(&b), a == b, a < b) };
    closures_capture = |s| { let k = s.len(); let add = |x: usize| x + k; let mut acc = vec![]; let mut push = |x| acc.push(x); push(add(1)); push(add(2)); let f: Box<dyn Fn(usize) -> usize> = Box::new(move |x| x * k); format!("{acc:?}{}", f(3)) };
    fn_pointer = |s| { fn twice(f: fn(char) -> bool, c: char) -> u8 { f(c) as u8 * 2 } let g: fn(char) -> bool = char::is_alphabetic; s.chars().map(|c| twice(g, c).to_string()).collect::<String>() };
    labeled_loops = |s| { let v: Vec<char> = s.chars().collect(); let mut n = 0; 'o: for i in 0..v.len() { for j in (i + 1)..v.len() { if v[i] == v[j] { n += 1; continue 'o; } if v[j] == ',' { break 'o; } } } let r = loop { n += 1; if n > 3 { break n * 2; } }; format!("{r}") };
    while_index = |s| { let v: Vec<char> = s.chars().collect(); let mut i = 0; let mut o = String::new(); while i < v.len() { match v[i] { ' ' => { i += 1; continue; } c if c.is_ascii_digit() => { let st = i; while i < v.len() && v[i].is_ascii_digit() { i += 1; } o.push_str(&format!("[{}]", v[st..i].iter().collect::<String>())); } c => { o.push(c); i += 1; } } } o };
    slice_patterns = |s| { let v: Vec<char> = s.chars().collect(); match v.as_slice() { [] => "empty".into(), [a] => format!("one{a}"), [a, .., b] => format!("{a}..{b}"), } };
    slice_patterns2 = |s| { let v: Vec<char> = s.chars().collect(); match &v[..] { ['<', rest @ ..] => format!("lt{}", rest.len()), [first, second, ..] if first == second => "dup".into(), _ => "other".into() } };
    matches_macro = |s| s.chars().filter(|c| matches!(c, 'a'..='z' | '_' | '0'..='9')).count().to_string();
    struct_default_clone = |s| { #[derive(Debug, Clone, Default, PartialEq, Eq, Hash, PartialOrd, Ord)] struct P { a: usize, b: String, c: Option<char> } let p = P { a: s.len(), b: s.to_string(), c: s.chars().next() }; let q = p.clone(); let d = P::default(); format!("{p:?}{}{}{:?}", p == q, d < p, d) };
    enum_derive = |s| { #[derive(Debug, Clone, Copy, PartialEq, Eq, PartialOrd, Ord, Hash)] enum K { A, B(u8), C { x: i8 } } let v = [K::A, K::B(s.len() as u8), K::C { x: -1 }]; let mut w = v.to_vec(); w.sort(); w.reverse(); format!("{w:?}{}{}", v[0] == K::A, std::mem::discriminant(&v[1]) == std::mem::discriminant(&K::B(0))) };
    trait_objects = |s| { let v: Vec<Box<dyn Sh>> = vec![Box::new(ShA(s.len())), Box::new(ShB)]; let r: &dyn Sh = &ShA(1); let d: &dyn std::fmt::Display = &s.len(); format!("{}{}{}", v.iter().map(|x| format!("{}{}", x.name(), x.area())).collect::<String>(), r.area(), d) };
    manual_debug = |s| format!("{:?}|{:?}|{}|{:>6}|{:?}", Manual { a: s.len(), b: s.to_string() }, Wrap(s.chars().next()), Manual { a: 1, b: "x".into() }, Wrap(Some('q')), Lst(nums(s)));
    generics_where = |s| { fn big<T: PartialOrd + Copy>(v: &[T]) -> Option<T> { let mut it = v.iter(); let mut m = *it.next()?; for &x in it { if x > m { m = x; } } Some(m) } format!("{:?}{:?}", big(&nums(s)), big(&s.chars().collect::<Vec<_>>())) };
    impl_trait_arg = |s| { fn cnt(it: impl Iterator<Item = char>) -> usize { it.filter(|c| *c != ' ').count() } fn mk<'a>(s: &'a str) -> impl Iterator<Item = char> + 'a { s.chars().rev() } format!("{}{}", cnt(s.chars()), mk(s).next().map(|c| c as u32).unwrap_or(0)) };
    hash_eq = |s| { use std::hash::{Hash, Hasher}; use std::collections::hash_map::DefaultHasher; let mut a = DefaultHasher::new(); s.hash(&mut a); let mut b = DefaultHasher::new(); s.to_string().hash(&mut b); (a.finish() == b.finish()).to_string() };
    let_else = |s| { let Some(c) = s.chars().next() else { return "none".into() }; let Some(i) = s.find(',') else { return format!("{c}") }; format!("{c}{i}") };
    nested_option_match = |s| { let v: Vec<Option<char>> = s.chars().map(|c| if c == ' ' { None } else { Some(c) }).collect(); v.iter().map(|o| match o { Some('a') => 1, Some(c) if c.is_ascii_digit() => 2, Some(_) => 3, None => 0 }).sum::<i32>().to_string() };
    string_cmp_sort = |s| { let mut v: Vec<&str> = s.split(',').map(str::trim).collect(); v.sort(); v.dedup(); let mut w: Vec<String> = v.iter().map(|x| x.to_string()).collect(); w.sort_by(|a, b| b.len().cmp(&a.len()).then(a.cmp(b))); format!("{v:?}{w:?}") };
    ordering_ops = |s| { let o = s.len().cmp(&2); format!("{:?}{:?}{}{}{:?}", o.reverse(), o.then(std::cmp::Ordering::Less), o.is_lt(), o.is_ge(), o.then_with(|| s.cmp("zz"))) };
    char_vec_ops = |s| { let v: Vec<char> = s.chars().collect(); let t: String = v.iter().collect(); let u = String::from_iter(v.iter().rev()); let w: String = v[..v.len().min(2)].iter().collect(); format!("{t}|{u}|{w}|{}", v.iter().filter(|c| c.is_whitespace()).count()) };
    char_slice_cmp = |s| { let v: Vec<char> = s.chars().collect(); let p: Vec<char> = "ab".chars().collect(); format!("{}{}{}", v.starts_with(&p), v.ends_with(&p), v.len() >= 2 && v[..2] == p[..]) };
    string_index_loop = |s| { let b = s.as_bytes(); let mut n = 0u32; for i in 0..b.len() { if b[i] == b',' { n += 1; } } for &x in b { if x == b' ' { n += 10; } } n.to_string() };
    early_return_loop = |s| { fn f(s: &str) -> Result<usize, String> { let mut depth = 0usize; for (i, c) in s.chars().enumerate() { match c { '<' | '(' => depth += 1, '>' | ')' => { depth = depth.checked_sub(1).ok_or_else(|| format!("unbalanced at {i}"))?; } _ => {} } } if depth == 0 { Ok(s.len()) } else { Err(format!("open {depth}")) } } format!("{:?}", f(s)) };
}
