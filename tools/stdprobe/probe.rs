//! std-API conformance probes for the mirsym interpreter (never part of /repo: copied into a scratch copy only).
#![allow(clippy::all, unused, dead_code)]
use std::collections::{BTreeMap, BTreeSet, HashMap, HashSet, VecDeque};
use std::fmt::Write as _;

pub trait Sh { fn area(&self) -> usize; fn name(&self) -> String { "sh".into() } }
pub struct ShA(pub usize);
pub struct ShB;
impl Sh for ShA { fn area(&self) -> usize { self.0 * 2 } }
impl Sh for ShB { fn area(&self) -> usize { 1 } fn name(&self) -> String { "b".into() } }
pub struct Manual { a: usize, b: String }
impl std::fmt::Debug for Manual { fn fmt(&self, f: &mut std::fmt::Formatter<'_>) -> std::fmt::Result { f.debug_struct("Manual").field("a", &self.a).field("b", &self.b).finish() } }
impl std::fmt::Display for Manual { fn fmt(&self, f: &mut std::fmt::Formatter<'_>) -> std::fmt::Result { write!(f, "<{}:{}>", self.a, self.b) } }
pub struct Wrap(Option<char>);
impl std::fmt::Debug for Wrap { fn fmt(&self, f: &mut std::fmt::Formatter<'_>) -> std::fmt::Result { f.debug_tuple("Wrap").field(&self.0).finish() } }
impl std::fmt::Display for Wrap { fn fmt(&self, f: &mut std::fmt::Formatter<'_>) -> std::fmt::Result { f.pad(&match self.0 { Some(c) => c.to_string(), None => "-".to_string() }) } }
pub struct Lst(Vec<i64>);
impl std::fmt::Debug for Lst { fn fmt(&self, f: &mut std::fmt::Formatter<'_>) -> std::fmt::Result { f.debug_list().entries(self.0.iter()).finish() } }
fn nums(s: &str) -> Vec<i64> { s.chars().map(|c| c as i64).collect() }
fn show<T: std::fmt::Debug>(t: T) -> String { format!("{t:?}") }

macro_rules! probes { ($($name:ident = |$s:ident| $body:expr;)*) => {
    $(pub fn $name($s: &str) -> String { $body })*
    pub const NAMES: &[&str] = &[$(stringify!($name)),*];
    pub fn run(name: &str, input: &str) -> String { match name { $(stringify!($name) => $name(input),)* _ => "?".into() } }
}}

probes! {
    // ---- str
    str_len = |s| s.len().to_string();
    str_chars_count = |s| s.chars().count().to_string();
    str_chars_rev = |s| s.chars().rev().collect::<String>();
    str_char_indices = |s| s.char_indices().map(|(i, c)| format!("{i}{c}")).collect::<Vec<_>>().join("|");
    str_bytes_sum = |s| s.bytes().map(|b| b as u64).sum::<u64>().to_string();
    str_trim = |s| format!("[{}][{}][{}]", s.trim(), s.trim_start(), s.trim_end());
    str_trim_matches = |s| format!("[{}][{}]", s.trim_matches('a'), s.trim_start_matches(' '));
    str_split_comma = |s| s.split(',').map(str::trim).collect::<Vec<_>>().join("|");
    str_split_str = |s| s.split("-->").collect::<Vec<_>>().join("|");
    str_splitn = |s| s.splitn(2, ',').collect::<Vec<_>>().join("|");
    str_rsplit = |s| s.rsplit(',').collect::<Vec<_>>().join("|");
    str_rsplitn = |s| s.rsplitn(2, ',').collect::<Vec<_>>().join("|");
    str_split_once = |s| match s.split_once(',') { Some((a, b)) => format!("{a}|{b}"), None => "none".into() };
    str_rsplit_once = |s| match s.rsplit_once(',') { Some((a, b)) => format!("{a}|{b}"), None => "none".into() };
    str_split_ws = |s| s.split_whitespace().collect::<Vec<_>>().join("|");
    str_split_closure = |s| s.split(|c: char| c == ',' || c == ' ').collect::<Vec<_>>().join("|");
    str_split_terminator = |s| s.split_terminator(',').collect::<Vec<_>>().join("|");
    str_split_inclusive = |s| s.split_inclusive(',').collect::<Vec<_>>().join("|");
    str_lines = |s| s.lines().count().to_string();
    str_find = |s| format!("{:?} {:?} {:?}", s.find(','), s.find("-->"), s.find(|c: char| c.is_ascii_digit()));
    str_rfind = |s| format!("{:?} {:?}", s.rfind(','), s.rfind(char::is_whitespace));
    str_contains = |s| format!("{} {} {}", s.contains(','), s.contains("-->"), s.contains(char::is_numeric));
    str_starts_ends = |s| format!("{} {} {} {}", s.starts_with('<'), s.starts_with("  "), s.ends_with('.'), s.ends_with(|c: char| c == ' '));
    str_strip = |s| format!("{:?} {:?}", s.strip_prefix('<'), s.strip_suffix(" "));
    str_replace = |s| format!("{} {}", s.replace(',', ";"), s.replacen("a", "AA", 1));
    str_case = |s| format!("{} {} {}", s.to_uppercase(), s.to_lowercase(), s.to_ascii_uppercase());
    str_repeat = |s| s.repeat(2);
    str_get = |s| format!("{:?} {:?}", s.get(0..1), s.get(1..));
    str_slice_idx = |s| if s.len() >= 2 && s.is_char_boundary(1) { format!("{}|{}", &s[..1], &s[1..]) } else { "short".into() };
    str_split_at = |s| if s.len() >= 2 && s.is_char_boundary(1) { let (a, b) = s.split_at(1); format!("{a}|{b}") } else { "short".into() };
    str_parse_ints = |s| format!("{:?} {:?} {:?} {:?}", s.trim().parse::<i64>().ok(), s.trim().parse::<usize>().ok(), s.trim().parse::<u8>().ok(), s.trim().parse::<i32>().ok());
    str_parse_f64 = |s| format!("{:?}", s.trim().parse::<f64>().ok());
    str_parse_bool_char = |s| format!("{:?} {:?}", s.parse::<bool>().ok(), s.parse::<char>().ok());
    str_cmp = |s| format!("{:?} {} {}", s.cmp("ab"), s < "b", s == "a");
    str_char_nth = |s| format!("{:?} {:?} {:?}", s.chars().next(), s.chars().nth(1), s.chars().last());
    str_matches = |s| s.matches(',').count().to_string();
    str_match_indices = |s| s.match_indices(',').map(|(i, _)| i.to_string()).collect::<Vec<_>>().join("|");
    str_eq_ignore = |s| s.eq_ignore_ascii_case("AB").to_string();
    str_is_ascii = |s| s.is_ascii().to_string();
    str_to_owned_cmp = |s| { let a = s.to_owned(); let b = String::from(s); (a == b && a.as_str() == s).to_string() };
    str_escape = |s| format!("{:?}", s);
    str_char_escape = |s| s.chars().map(|c| format!("{c:?}")).collect::<String>();
    str_peek_loop = |s| { let mut it = s.chars().peekable(); let mut o = String::new(); while let Some(c) = it.next() { if let Some(&n) = it.peek() { if n == c { o.push('='); } } o.push(c); } o };
    str_next_if = |s| { let mut it = s.chars().peekable(); let mut n = 0; while it.next_if(|c| c.is_whitespace()).is_some() { n += 1; } format!("{n}{:?}", it.next()) };
    // ---- String
    string_build = |s| { let mut o = String::with_capacity(4); o.push_str(s); o.push('!'); o.insert(0, '>'); o.insert_str(1, "ab"); o += "z"; o };
    string_pop_trunc = |s| { let mut o = s.to_string(); let p = o.pop(); let l = o.chars().count(); if l > 1 && o.is_char_boundary(1) { o.truncate(1); } format!("{o}{p:?}") };
    string_remove = |s| { let mut o = s.to_string(); if !o.is_empty() { let c = o.remove(0); format!("{c}|{o}") } else { "e".into() } };
    string_retain = |s| { let mut o = s.to_string(); o.retain(|c| !c.is_whitespace()); o };
    string_drain = |s| { let mut o = s.to_string(); if o.len() >= 1 && o.is_char_boundary(1) { let d: String = o.drain(..1).collect(); format!("{d}|{o}") } else { "short".into() } };
    string_replace_range = |s| { let mut o = s.to_string(); if o.len() >= 1 && o.is_char_boundary(1) { o.replace_range(..1, "XY"); } o };
    string_extend = |s| { let mut o = String::new(); o.extend(s.chars().filter(|c| c.is_alphanumeric())); o.extend(["-", "x"]); o };
    string_from_iter = |s| { let a: String = s.chars().map(|c| c.to_ascii_uppercase()).collect(); let b = String::from_iter(s.split(',')); format!("{a}|{b}") };
    string_write = |s| { let mut o = String::new(); write!(o, "{}-{:>4}-{:<3}|{:03}", s, "ab", "c", 7).unwrap(); writeln!(o, "{:?}", s.len()).unwrap(); o };
    string_fmt_misc = |s| format!("{:5}|{:<5}|{:^5}|{:>5}|{:+}|{:x}|{:#x}|{:08.3}|{:e}", 42, 42, 42, s.len(), 7, 255, 255, 3.14159, 1500.0);
    string_fmt_float = |s| format!("{} {} {:?} {:.2} {}", 0.1 + 0.2, 1.0f64, 1.0f64, 2.0f64 / 3.0, f64::NAN);
    string_chars_sorted = |s| { let mut v: Vec<char> = s.chars().collect(); v.sort(); v.dedup(); v.into_iter().collect() };
    string_concat_join = |s| { let v = vec![s.to_string(), "x".to_string()]; format!("{}|{}", v.concat(), v.join(", ")) };
    string_into_bytes = |s| { let b = s.to_string().into_bytes(); format!("{}", b.len()) };
    string_from_utf8 = |s| String::from_utf8(s.as_bytes().to_vec()).unwrap();
    string_char_to_string = |s| s.chars().map(|c| c.to_string()).collect::<Vec<_>>().join(".");
    string_cow = |s| { let c = String::from_utf8_lossy(s.as_bytes()); c.into_owned() };
    // ---- char
    char_classes = |s| s.chars().map(|c| format!("{}{}{}{}{}{}{}", c.is_alphabetic() as u8, c.is_numeric() as u8, c.is_alphanumeric() as u8, c.is_whitespace() as u8, c.is_ascii_punctuation() as u8, c.is_ascii_hexdigit() as u8, c.is_control() as u8)).collect::<Vec<_>>().join(" ");
    char_ascii_classes = |s| s.chars().map(|c| format!("{}{}{}{}{}", c.is_ascii_lowercase() as u8, c.is_ascii_uppercase() as u8, c.is_ascii_graphic() as u8, c.is_ascii_control() as u8, c.is_ascii_alphabetic() as u8)).collect::<Vec<_>>().join(" ");
    char_digits = |s| s.chars().map(|c| format!("{:?}{:?}", c.to_digit(10), c.to_digit(16))).collect::<String>();
    char_conv = |s| s.chars().map(|c| format!("{}{}{}", c as u32, c.len_utf8(), u32::from(c))).collect::<Vec<_>>().join(" ");
    char_from = |s| format!("{:?} {:?} {:?} {}", char::from_u32(s.len() as u32 + 65), char::from_digit(s.len() as u32 % 10, 10), char::from(65u8 + (s.len() % 20) as u8), (b'a' + (s.len() % 20) as u8) as char);
    char_cmp = |s| s.chars().map(|c| format!("{}{}", (c >= 'a' && c <= 'z') as u8, ('0'..='9').contains(&c) as u8)).collect::<String>();
    char_match = |s| s.chars().map(|c| match c { 'a'..='f' => 'L', '0'..='9' => 'D', ' ' | '\t' => 'S', '<' | '>' => 'B', _ => '?' }).collect::<String>();
    char_case = |s| s.chars().flat_map(|c| c.to_uppercase()).chain(s.chars().flat_map(char::to_lowercase)).collect::<String>();
    // ---- Vec / slice
    vec_basic = |s| { let mut v = nums(s); v.push(1); v.insert(0, 2); let p = v.pop(); let r = if v.len() > 1 { Some(v.remove(1)) } else { None }; format!("{v:?}{p:?}{r:?}") };
    vec_extend = |s| { let mut v = nums(s); v.extend([1, 2]); v.extend_from_slice(&[3]); v.extend(nums(s).iter()); let mut w = vec![9]; v.append(&mut w); format!("{v:?}{}", w.len()) };
    vec_sort = |s| { let mut v = nums(s); v.sort(); let mut w = nums(s); w.sort_by(|a, b| b.cmp(a)); let mut x = nums(s); x.sort_by_key(|a| -a); let mut y = nums(s); y.sort_unstable(); y.dedup(); format!("{v:?}{w:?}{x:?}{y:?}") };
    vec_rev_swap = |s| { let mut v = nums(s); v.reverse(); if v.len() > 1 { v.swap(0, 1); } format!("{v:?}") };
    vec_retain = |s| { let mut v = nums(s); v.retain(|x| x % 2 == 0); let mut w = nums(s); w.dedup_by_key(|x| *x / 10); format!("{v:?}{w:?}") };
    vec_trunc = |s| { let mut v = nums(s); v.truncate(2); let mut w = nums(s); w.clear(); let mut x = nums(s); x.resize(3, 0); format!("{v:?}{w:?}{x:?}") };
    vec_drain = |s| { let mut v = nums(s); let n = v.len().min(2); let d: Vec<i64> = v.drain(..n).collect(); format!("{d:?}{v:?}") };
    vec_split_off = |s| { let mut v = nums(s); let n = v.len() / 2; let w = v.split_off(n); format!("{v:?}{w:?}") };
    vec_access = |s| { let v = nums(s); format!("{:?}{:?}{:?}{:?}{}", v.first(), v.last(), v.get(1), v.get(100), v.is_empty()) };
    vec_contains = |s| { let v = nums(s); format!("{}{:?}{:?}", v.contains(&97), v.iter().position(|&x| x == 44), v.binary_search(&0).is_ok()) };
    vec_slices = |s| { let v = nums(s); let n = v.len().min(2); format!("{:?}{:?}{:?}", &v[..n], &v[n..], v[..n].to_vec()) };
    vec_split_first_last = |s| { let v = nums(s); format!("{:?}{:?}", v.split_first().map(|(a, b)| (*a, b.len())), v.split_last().map(|(a, b)| (*a, b.len()))) };
    vec_windows_chunks = |s| { let v = nums(s); format!("{:?}{:?}", v.windows(2).map(|w| w[1] - w[0]).collect::<Vec<_>>(), v.chunks(2).map(|c| c.len()).collect::<Vec<_>>()) };
    vec_iter_mut = |s| { let mut v = nums(s); for x in v.iter_mut() { *x += 1; } for x in &mut v { *x *= 2; } format!("{v:?}") };
    vec_starts_ends = |s| { let v = nums(s); format!("{}{}", v.starts_with(&[97]), v.ends_with(&[])) };
    vec_concat_join = |s| { let v = vec![nums(s), vec![0]]; format!("{:?}{:?}", v.concat(), v.join(&-1)) };
    vec_eq_cmp = |s| { let v = nums(s); let w = nums(s); format!("{}{:?}{}", v == w, v.cmp(&vec![97]), v < vec![98]) };
    vec_of_strings = |s| { let v: Vec<String> = s.split(',').map(|x| x.trim().to_string()).collect(); let r: Vec<&str> = v.iter().map(String::as_str).collect(); format!("{v:?}{}{}", r.join("+"), v.contains(&"a".to_string())) };
    vec_into_boxed = |s| { let b: Box<[i64]> = nums(s).into_boxed_slice(); let v = b.into_vec(); format!("{}", v.len()) };
    vec_swap_remove = |s| { let mut v = nums(s); if !v.is_empty() { let x = v.swap_remove(0); format!("{x}{v:?}") } else { "e".into() } };
    vec_rotate_fill = |s| { let mut v = nums(s); if !v.is_empty() { v.rotate_left(1); } let mut w = nums(s); w.fill(7); format!("{v:?}{w:?}") };
    vec_iter_rev_enum = |s| nums(s).iter().rev().enumerate().map(|(i, x)| format!("{i}:{x}")).collect::<Vec<_>>().join(",");
    vec_copy_from = |s| { let v = nums(s); let mut w = vec![0; v.len()]; w.copy_from_slice(&v); let mut x = vec![0; v.len()]; x.clone_from_slice(&v); format!("{}", w == x) };
    vec_deque = |s| { let mut d: VecDeque<char> = s.chars().collect(); d.push_front('^'); d.push_back('$'); let a = d.pop_front(); let b = d.pop_back(); format!("{a:?}{b:?}{}{:?}", d.len(), d.front()) };
    array_ops = |s| { let a = [1, 2, 3]; let b = a.map(|x| x * 2); format!("{:?}{}{}{:?}", b, a.len(), a.contains(&2), a.iter().copied().max()) };
    // ---- iterators
    it_sum_prod = |s| format!("{} {}", nums(s).iter().sum::<i64>(), nums(s).iter().take(3).map(|x| x % 7 + 1).product::<i64>());
    it_min_max = |s| { let v = nums(s); format!("{:?}{:?}{:?}{:?}", v.iter().min(), v.iter().max(), v.iter().min_by_key(|x| (*x - 100).abs()), v.iter().max_by(|a, b| (*a % 10).cmp(&(*b % 10)))) };
    it_fold_scan = |s| format!("{} {:?}", nums(s).iter().fold(0i64, |a, x| a * 3 + x), nums(s).iter().scan(0, |st, x| { *st += x; Some(*st) }).collect::<Vec<_>>());
    it_reduce = |s| format!("{:?}", nums(s).into_iter().reduce(|a, b| a.max(b)));
    it_any_all = |s| format!("{} {} {}", s.chars().any(|c| c == ','), s.chars().all(char::is_alphanumeric), s.chars().filter(|c| *c == ' ').count());
    it_find = |s| format!("{:?} {:?} {:?}", s.chars().find(|c| c.is_ascii_digit()), s.chars().position(|c| c == ','), s.chars().find_map(|c| c.to_digit(10)));
    it_skip_take = |s| s.chars().skip(1).take(3).collect::<String>();
    it_skip_take_while = |s| format!("{}|{}", s.chars().skip_while(|c| c.is_whitespace()).collect::<String>(), s.chars().take_while(|c| *c != ',').collect::<String>());
    it_map_while = |s| s.chars().map_while(|c| c.to_digit(10)).map(|d| d.to_string()).collect::<String>();
    it_step_chain = |s| s.chars().step_by(2).chain("!".chars()).collect::<String>();
    it_zip_unzip = |s| { let (a, b): (Vec<char>, Vec<usize>) = s.chars().zip(0..).unzip(); format!("{}{:?}", a.len(), b.last()) };
    it_enumerate_filter_map = |s| s.chars().enumerate().filter_map(|(i, c)| if i % 2 == 0 { Some(c) } else { None }).collect::<String>();
    it_flat_map = |s| s.split(',').flat_map(|p| p.chars().take(1)).collect::<String>();
    it_flatten = |s| vec![Some(1), None, Some(s.len())].into_iter().flatten().map(|x| x.to_string()).collect::<Vec<_>>().join(",");
    it_last_nth_count = |s| format!("{:?}{:?}{}", s.chars().last(), s.chars().nth(2), s.split(',').count());
    it_partition = |s| { let (a, b): (Vec<char>, Vec<char>) = s.chars().partition(|c| c.is_alphabetic()); format!("{}|{}", a.len(), b.len()) };
    it_collect_result = |s| { let r: Result<Vec<i64>, _> = s.split(',').map(|x| x.trim().parse::<i64>()).collect(); format!("{:?}", r.ok()) };
    it_collect_option = |s| { let r: Option<Vec<u32>> = s.chars().map(|c| c.to_digit(10)).collect(); format!("{r:?}") };
    it_collect_set = |s| { let h: HashSet<char> = s.chars().collect(); let b: BTreeSet<char> = s.chars().collect(); format!("{}{:?}", h.len(), b) };
    it_cmp_eq = |s| format!("{} {:?}", s.chars().eq("ab".chars()), s.chars().cmp("ab".chars()));
    it_rev_rposition = |s| { let v: Vec<char> = s.chars().collect(); format!("{:?}{:?}", v.iter().rposition(|c| *c == ','), v.iter().rev().position(|c| *c == ',')) };
    it_cloned_copied = |s| { let v = nums(s); format!("{}{}", v.iter().cloned().count(), v.iter().copied().filter(|x| *x > 60).count()) };
    it_inspect_for_each = |s| { let mut n = 0; s.chars().inspect(|_| n += 1).for_each(drop); let mut m = 0; s.chars().for_each(|c| m += c as u32); format!("{n}{m}") };
    it_try_fold = |s| format!("{:?}", s.chars().try_fold(0u32, |a, c| c.to_digit(10).map(|d| a * 10 + d)));
    it_cycle_take = |s| s.chars().cycle().take(5).collect::<String>();
    it_once_repeat = |s| std::iter::once('<').chain(s.chars()).chain(std::iter::repeat('>').take(2)).collect::<String>();
    it_successors = |s| std::iter::successors(Some(s.len()), |n| if *n > 0 { Some(n / 2) } else { None }).map(|x| x.to_string()).collect::<Vec<_>>().join(",");
    it_from_fn = |s| { let mut n = 0; std::iter::from_fn(|| { n += 1; if n < 4 { Some(n) } else { None } }).sum::<i32>().to_string() };
    it_range = |s| format!("{:?}{:?}{}", (0..s.len()).rev().collect::<Vec<_>>(), (1..=3).map(|x| x * x).collect::<Vec<_>>(), (0..10).step_by(3).count());
    it_dedup_windows = |s| { let v: Vec<char> = s.chars().collect(); v.windows(2).filter(|w| w[0] == w[1]).count().to_string() };
    it_is_sorted_lt = |s| { let v = nums(s); format!("{}{}", v.windows(2).all(|w| w[0] <= w[1]), v.iter().lt(vec![100].iter())) };
    it_peekable_while = |s| { let mut it = s.chars().peekable(); let mut o = vec![]; while let Some(c) = it.peek().copied() { if c == ',' { it.next(); continue; } let mut w = String::new(); while let Some(d) = it.next_if(|x| *x != ',') { w.push(d); } o.push(w); } o.join("|") };
    it_sum_f64 = |s| format!("{}", s.split(',').filter_map(|x| x.trim().parse::<f64>().ok()).sum::<f64>());
    it_max_float = |s| format!("{:?}", s.split(',').filter_map(|x| x.trim().parse::<f64>().ok()).fold(f64::NEG_INFINITY, f64::max));
    // ---- Option / Result
    opt_combin = |s| { let o = s.chars().next(); format!("{:?}{:?}{:?}{}{}{:?}", o.map(|c| c as u32), o.filter(|c| *c == 'a'), o.and_then(|c| c.to_digit(16)), o.is_some_and(|c| c == '<'), o.map_or(0, |c| c as u32), o.xor(None)) };
    opt_defaults = |s| { let o = s.find(','); format!("{}{}{}{:?}{:?}", o.unwrap_or(99), o.unwrap_or_default(), o.unwrap_or_else(|| 7), o.ok_or("none"), o.or(Some(1))) };
    opt_take_replace = |s| { let mut o = s.chars().next(); let t = o.take(); let r = o.replace('z'); let g = *o.get_or_insert('q'); format!("{t:?}{r:?}{g}{o:?}") };
    opt_zip_as = |s| { let a = s.find(','); let b = s.rfind(','); let t = s.to_string(); let o = Some(t); format!("{:?}{:?}{:?}", a.zip(b), o.as_deref(), o.as_ref().map(|x| x.len())) };
    opt_if_let_chain = |s| { let mut n = 0; if let Some(i) = s.find('<') { if let Some(j) = s[i..].find('>') { n = j; } } let m = match (s.find(','), s.find(';')) { (Some(a), Some(b)) => a + b, (Some(a), None) | (None, Some(a)) => a, (None, None) => 0 }; format!("{n}{m}") };
    opt_question = |s| { fn f(s: &str) -> Option<u32> { let c = s.chars().next()?; let d = c.to_digit(10)?; Some(d + 1) } format!("{:?}", f(s)) };
    opt_ord = |s| { let a = s.find(','); format!("{}{:?}{:?}", a < Some(3), a.cmp(&None), a.max(Some(2))) };
    opt_iter = |s| { let o = s.chars().next(); let v: Vec<char> = o.iter().copied().chain(o.into_iter()).collect(); format!("{v:?}") };
    opt_copied_cloned = |s| { let v = nums(s); format!("{:?}{:?}", v.first().copied(), v.last().cloned()) };
    opt_flatten_transpose = |s| { let a: Option<Option<usize>> = Some(s.find(',')); let r: Option<Result<i64, String>> = Some(s.trim().parse::<i64>().map_err(|e| "bad".to_string())); format!("{:?}{:?}", a.flatten(), r.transpose()) };
    res_combin = |s| { let r = s.trim().parse::<i64>(); format!("{:?}{:?}{}{}{:?}", r.as_ref().ok(), r.as_ref().map(|x| x + 1).ok(), r.is_ok(), r.as_ref().map_or(0, |x| *x), r.as_ref().map_err(|_| 0).err()) };
    res_question = |s| { fn f(s: &str) -> Result<i64, String> { let a = s.trim().parse::<i64>().map_err(|e| format!("bad"))?; if a < 0 { return Err("neg".into()); } Ok(a * 2) } format!("{:?}", f(s)) };
    res_and_or = |s| { let r: Result<usize, usize> = s.find(',').ok_or(s.len()); format!("{:?}{:?}{}{:?}", r.and_then(|x| if x > 1 { Ok(x) } else { Err(0) }), r.or_else(|e| if e > 2 { Ok::<usize, usize>(e) } else { Err(e) }), r.unwrap_or(5), r.ok()) };
    res_error_fmt = |s| format!("{}|{:?}", s.parse::<i64>().map(|_| String::new()).unwrap_or_else(|e| e.to_string()), s.parse::<f64>().is_err());
    res_unwrap_or_default = |s| format!("{}{}", s.parse::<i64>().unwrap_or_default(), s.parse::<u8>().unwrap_or(3));
    // ---- integers / floats
    int_ops = |s| { let n = s.len() as i64 - 3; format!("{} {} {} {} {} {}", n.abs(), n.pow(2), n.signum(), n.rem_euclid(4), n.min(1).max(-1), n.clamp(-1, 2)) };
    int_checked = |s| { let n = s.len(); format!("{:?}{:?}{:?}{}{}", n.checked_sub(3), n.checked_add(usize::MAX), n.checked_div(n.saturating_sub(1)), n.saturating_sub(9), n.wrapping_sub(9) > 5) };
    int_conv = |s| { let n = s.len() as i64 - 2; format!("{:?}{:?}{:?}{}{}", usize::try_from(n).ok(), u8::try_from(n + 250).ok(), i32::try_from(n).ok(), n as u8, (n as f64) / 2.0) };
    int_try_into = |s| { let n = s.len() as i64 - 2; let a: Result<usize, _> = n.try_into(); let b: Result<u32, _> = (n * 1000).try_into(); format!("{:?}{:?}", a.ok(), b.ok()) };
    int_from = |s| { let n = s.len() as u8; format!("{}{}{}", u32::from(n), i64::from(n), usize::from(n)) };
    int_bits = |s| { let n = s.len() as u32 + 1; format!("{} {} {} {} {}", n << 2, n >> 1, n & 3, n | 8, n ^ 5) };
    int_abs_diff_pow = |s| { let n = s.len() as u32; format!("{}{}{:?}", n.abs_diff(3), 2u32.pow(n.min(10)), 10u32.checked_pow(n)) };
    int_from_str_radix = |s| format!("{:?}{:?}", i64::from_str_radix(s.trim(), 10).ok(), u32::from_str_radix(s.trim(), 16).ok());
    int_to_string = |s| { let n = s.len() as i64 - 3; format!("{}|{}|{}", n.to_string(), (n as i8).to_string(), (s.len() as u64 * 1000003).to_string()) };
    int_cmp = |s| { let n = s.len(); format!("{:?}{:?}{}", n.cmp(&3), n.partial_cmp(&2), std::cmp::max(n, 4) + std::cmp::min(n, 4)) };
    int_div_rem = |s| { let n = s.len() as i64 + 1; format!("{} {} {} {}", 17 / n, 17 % n, -17 / n, (-17i64).div_euclid(n)) };
    f64_ops = |s| { let x = s.trim().parse::<f64>().unwrap_or(0.25); format!("{} {} {} {} {} {}", x.abs(), x.is_nan(), x.is_finite(), x.max(0.5), x.min(0.5), x.clamp(0.0, 1.0)) };
    f64_round = |s| { let x = s.trim().parse::<f64>().unwrap_or(2.5); format!("{} {} {} {} {}", x.floor(), x.ceil(), x.round(), x.trunc(), x as i64) };
    f64_cmp = |s| { let x = s.trim().parse::<f64>().unwrap_or(0.25); format!("{:?} {} {} {:?}", x.partial_cmp(&0.5), x < 1.0, (0.0..=1.0).contains(&x), x.total_cmp(&0.5)) };
    f64_bits = |s| { let x = s.trim().parse::<f64>().unwrap_or(0.25); format!("{} {}", x.to_bits(), f64::from_bits(x.to_bits()) == x) };
    f64_sign = |s| { let x = s.trim().parse::<f64>().unwrap_or(-0.0); format!("{} {} {}", x.is_sign_negative(), x.signum(), x == 0.0) };
    f64_arith = |s| { let x = s.trim().parse::<f64>().unwrap_or(0.1); format!("{} {} {} {}", x + 0.2, x * 3.0, x / 3.0, x - 1.0) };
    f32_parse = |s| format!("{:?}", s.trim().parse::<f32>().ok().map(|x| x as f64));
    // ---- collections
    set_ops = |s| { let a: HashSet<char> = s.chars().collect(); let b: HashSet<char> = "ab,".chars().collect(); let mut i: Vec<char> = a.intersection(&b).copied().collect(); i.sort(); let mut u: Vec<char> = a.union(&b).copied().collect(); u.sort(); let mut d: Vec<char> = a.difference(&b).copied().collect(); d.sort(); format!("{i:?}{u:?}{d:?}{}{}", a.is_subset(&b), a == b) };
    set_mut = |s| { let mut a: HashSet<char> = HashSet::new(); let mut dup = 0; for c in s.chars() { if !a.insert(c) { dup += 1; } } let r = a.remove(&','); a.retain(|c| c.is_alphabetic()); a.extend("xy".chars()); format!("{dup}{r}{}{}", a.len(), a.contains(&'x')) };
    set_get_take = |s| { let mut a: HashSet<String> = s.split(',').map(|x| x.trim().to_string()).collect(); let g = a.get("a").cloned(); let t = a.take("a"); format!("{g:?}{t:?}{}", a.len()) };
    map_ops = |s| { let mut m: HashMap<char, usize> = HashMap::new(); for c in s.chars() { *m.entry(c).or_insert(0) += 1; } let mut v: Vec<(char, usize)> = m.iter().map(|(k, v)| (*k, *v)).collect(); v.sort(); format!("{v:?}{:?}{}{}", m.get(&','), m.contains_key(&'a'), m.len()) };
    map_insert_remove = |s| { let mut m: HashMap<String, i64> = HashMap::new(); let a = m.insert(s.to_string(), 1); let b = m.insert(s.to_string(), 2); let c = m.remove(s); let d = m.get(s).copied(); format!("{a:?}{b:?}{c:?}{d:?}{}", m.is_empty()) };
    btree_ops = |s| { let mut m: BTreeMap<char, usize> = BTreeMap::new(); for (i, c) in s.chars().enumerate() { m.insert(c, i); } let b: BTreeSet<char> = s.chars().collect(); format!("{m:?}{:?}{:?}{:?}", b.iter().next(), b.iter().next_back(), m.keys().rev().take(2).collect::<Vec<_>>()) };
    map_values_sum = |s| { let m: HashMap<usize, char> = s.chars().enumerate().collect(); let mut ks: Vec<_> = m.keys().copied().collect(); ks.sort(); format!("{}{:?}", m.values().filter(|c| c.is_alphabetic()).count(), ks.last()) };
    // ---- misc language/stdlib
    mem_ops = |s| { let mut a = s.to_string(); let mut b = String::from("b"); std::mem::swap(&mut a, &mut b); let c = std::mem::take(&mut a); let d = std::mem::replace(&mut b, "r".into()); format!("{a}|{b}|{c}|{d}") };
    box_rc = |s| { let b = Box::new(s.len()); let r = std::rc::Rc::new(s.to_string()); let r2 = r.clone(); let a = std::sync::Arc::new(*b + 1); format!("{}{}{}{}", *b, r2.len(), r.as_str().len(), *a) };
    cow_ops = |s| { use std::borrow::Cow; let c: Cow<str> = if s.contains(',') { Cow::Owned(s.replace(',', ";")) } else { Cow::Borrowed(s) }; format!("{}{}", c, c.len()) };
    tuple_cmp = |s| { let a = (s.len(), s.chars().next()); let b = (2usize, Some('a')); format!("{:?}{}{}", a.cmp(&b), a == b, a < b) };
    closures_capture = |s| { let k = s.len(); let add = |x: usize| x + k; let mut acc = vec![]; let mut push = |x| acc.push(x); push(add(1)); push(add(2)); let f: Box<dyn Fn(usize) -> usize> = Box::new(move |x| x * k); format!("{acc:?}{}", f(3)) };
    fn_pointer = |s| { fn twice(f: fn(char) -> bool, c: char) -> u8 { f(c) as u8 * 2 } let g: fn(char) -> bool = char::is_alphabetic; s.chars().map(|c| twice(g, c).to_string()).collect::<String>() };
    labeled_loops = |s| { let v: Vec<char> = s.chars().collect(); let mut n = 0; 'o: for i in 0..v.len() { for j in (i + 1)..v.len() { if v[i] == v[j] { n += 1; continue 'o; } if v[j] == ',' { break 'o; } } } let r = loop { n += 1; if n > 3 { break n * 2; } }; format!("{r}") };
    while_index = |s| { let v: Vec<char> = s.chars().collect(); let mut i = 0; let mut o = String::new(); while i < v.len() { match v[i] { ' ' => { i += 1; continue; } c if c.is_ascii_digit() => { let st = i; while i < v.len() && v[i].is_ascii_digit() { i += 1; } o.push_str(&format!("[{}]", v[st..i].iter().collect::<String>())); } c => { o.push(c); i += 1; } } } o };
    slice_patterns = |s| { let v: Vec<char> = s.chars().collect(); match v.as_slice() { [] => "empty".into(), [a] => format!("one{a}"), [a, .., b] => format!("{a}..{b}"), } };
    slice_patterns2 = |s| { let v: Vec<char> = s.chars().collect(); match &v[..] { ['<', rest @ ..] => format!("lt{}", rest.len()), [first, second, ..] if first == second => "dup".into(), _ => "other".into() } };
    matches_macro = |s| s.chars().filter(|c| matches!(c, 'a'..='z' | '_' | '0'..='9')).count().to_string();
    struct_default_clone = |s| { #[derive(Debug, Clone, Default, PartialEq, Eq, Hash, PartialOrd, Ord)] struct P { a: usize, b: String, c: Option<char> } let p = P { a: s.len(), b: s.to_string(), c: s.chars().next() }; let q = p.clone(); let d = P::default(); format!("{p:?}{}{}{:?}", p == q, d < p, d) };
    enum_derive = |s| { #[derive(Debug, Clone, Copy, PartialEq, Eq, PartialOrd, Ord, Hash)] enum K { A, B(u8), C { x: i8 } } let v = [K::A, K::B(s.len() as u8), K::C { x: -1 }]; let mut w = v.to_vec(); w.sort(); w.reverse(); format!("{w:?}{}{}", v[0] == K::A, std::mem::discriminant(&v[1]) == std::mem::discriminant(&K::B(0))) };
    trait_objects = |s| { let v: Vec<Box<dyn Sh>> = vec![Box::new(ShA(s.len())), Box::new(ShB)]; let r: &dyn Sh = &ShA(1); let d: &dyn std::fmt::Display = &s.len(); format!("{}{}{}", v.iter().map(|x| format!("{}{}", x.name(), x.area())).collect::<String>(), r.area(), d) };
    manual_debug = |s| format!("{:?}|{:?}|{}|{:>6}|{:?}", Manual { a: s.len(), b: s.to_string() }, Wrap(s.chars().next()), Manual { a: 1, b: "x".into() }, Wrap(Some('q')), Lst(nums(s)));
    generics_where = |s| { fn big<T: PartialOrd + Copy>(v: &[T]) -> Option<T> { let mut it = v.iter(); let mut m = *it.next()?; for &x in it { if x > m { m = x; } } Some(m) } format!("{:?}{:?}", big(&nums(s)), big(&s.chars().collect::<Vec<_>>())) };
    impl_trait_arg = |s| { fn cnt(it: impl Iterator<Item = char>) -> usize { it.filter(|c| *c != ' ').count() } fn mk<'a>(s: &'a str) -> impl Iterator<Item = char> + 'a { s.chars().rev() } format!("{}{}", cnt(s.chars()), mk(s).next().map(|c| c as u32).unwrap_or(0)) };
    hash_eq = |s| { use std::hash::{Hash, Hasher}; use std::collections::hash_map::DefaultHasher; let mut a = DefaultHasher::new(); s.hash(&mut a); let mut b = DefaultHasher::new(); s.to_string().hash(&mut b); (a.finish() == b.finish()).to_string() };
    let_else = |s| { let Some(c) = s.chars().next() else { return "none".into() }; let Some(i) = s.find(',') else { return format!("{c}") }; format!("{c}{i}") };
    nested_option_match = |s| { let v: Vec<Option<char>> = s.chars().map(|c| if c == ' ' { None } else { Some(c) }).collect(); v.iter().map(|o| match o { Some('a') => 1, Some(c) if c.is_ascii_digit() => 2, Some(_) => 3, None => 0 }).sum::<i32>().to_string() };
    string_cmp_sort = |s| { let mut v: Vec<&str> = s.split(',').map(str::trim).collect(); v.sort(); v.dedup(); let mut w: Vec<String> = v.iter().map(|x| x.to_string()).collect(); w.sort_by(|a, b| b.len().cmp(&a.len()).then(a.cmp(b))); format!("{v:?}{w:?}") };
    ordering_ops = |s| { let o = s.len().cmp(&2); format!("{:?}{:?}{}{}{:?}", o.reverse(), o.then(std::cmp::Ordering::Less), o.is_lt(), o.is_ge(), o.then_with(|| s.cmp("zz"))) };
    char_vec_ops = |s| { let v: Vec<char> = s.chars().collect(); let t: String = v.iter().collect(); let u = String::from_iter(v.iter().rev()); let w: String = v[..v.len().min(2)].iter().collect(); format!("{t}|{u}|{w}|{}", v.iter().filter(|c| c.is_whitespace()).count()) };
    char_slice_cmp = |s| { let v: Vec<char> = s.chars().collect(); let p: Vec<char> = "ab".chars().collect(); format!("{}{}{}", v.starts_with(&p), v.ends_with(&p), v.len() >= 2 && v[..2] == p[..]) };
    string_index_loop = |s| { let b = s.as_bytes(); let mut n = 0u32; for i in 0..b.len() { if b[i] == b',' { n += 1; } } for &x in b { if x == b' ' { n += 10; } } n.to_string() };
    early_return_loop = |s| { fn f(s: &str) -> Result<usize, String> { let mut depth = 0usize; for (i, c) in s.chars().enumerate() { match c { '<' | '(' => depth += 1, '>' | ')' => { depth = depth.checked_sub(1).ok_or_else(|| format!("unbalanced at {i}"))?; } _ => {} } } if depth == 0 { Ok(s.len()) } else { Err(format!("open {depth}")) } } format!("{:?}", f(s)) };
}
