#!/bin/bash
# usage: confirm_mutant.sh <worktree> <PID>   -- confirms: patch compiles, lib tests pass, demo fails with / passes without
wt=$1; pid=$2; cd $wt || exit 9
export CARGO_NET_OFFLINE=true
git diff -- src > /tmp/cur_$pid.diff
if ! diff -q /tmp/cur_$pid.diff patch.diff >/dev/null; then echo "WARN: tree diff != patch.diff"; fi
echo "== with change: lib tests"; cargo test --offline --lib 2>&1 | grep -E "^test result" 
echo "== with change: demo"; cargo test --offline --test demo_$pid 2>&1 | grep -E "^test result|error\[" | head -3
git apply -R patch.diff || exit 8
echo "== without change: demo"; cargo test --offline --test demo_$pid 2>&1 | grep -E "^test result|error\[" | head -3
git apply patch.diff
