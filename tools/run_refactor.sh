#!/bin/bash
# usage: run_refactor.sh <worktree> <k> <PID>...   applies refactor_k.diff inside the scratch worktree, runs quick checks against it
# (VERIF_REPO=<worktree>; /repo untouched), then restores the worktree.  A behaviour-preserving change must give PASS/KNOWN-FINDING only.
wt=$1; k=$2; shift 2
cd $wt && git checkout -q -- . && git apply refactor_$k.diff || { echo "PATCH DOES NOT APPLY"; exit 9; }
cd /verif
for pid in "$@"; do
  out=$(VERIF_WORK=/var/tmp/narsese_verif_mutwork VERIF_OUT=/var/tmp/narsese_verif_mutout VERIF_REPO=$wt python3-vt verif.py $pid --tier quick 2>&1 | grep -E "^(VIOLATION|PASS|INCONCLUSIVE)" | cut -c1-700 | head -3)
  echo "$(basename $wt)/$k $pid: $out"
done
cd $wt && git checkout -q -- .
