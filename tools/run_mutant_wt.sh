#!/bin/bash
# usage: run_mutant_wt.sh <worktree with the patch applied> <PID>...   runs quick checks against the worktree (VERIF_REPO), /repo untouched
wt=$1; shift
cd /verif
for pid in "$@"; do
  echo "---- $pid on $(basename $wt)"
  VERIF_WORK=/var/tmp/narsese_verif_mutwork VERIF_OUT=/var/tmp/narsese_verif_mutout VERIF_REPO=$wt python3-vt verif.py $pid --tier quick 2>&1 | grep -E "^(VIOLATION|KNOWN|PASS|INCONCLUSIVE)" | cut -c1-400 | head -6
done
