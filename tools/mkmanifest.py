#!/usr/bin/env python3
"""(Re)generates MANIFEST.json from the table below."""
import json, os
ROOT = os.path.dirname(os.path.dirname(os.path.abspath(__file__)))
props = [json.loads(l)['id'] for l in open(os.path.join(ROOT, 'properties.jsonl'))]
TECH = 'symbolic execution of the real code (rustc MIR of /repo, regenerated per run) with z3 deciding every branch; counterexamples replayed in the native build'
NOTE = ('Trusted: rustc nightly MIR dump, the mirsym interpreter and its Python models of std APIs (every explored path\'s solver witness is re-run '
        'through the natively compiled crate and must agree, else the check is inconclusive), z3. Bounds are per query in the evidence file.')
CLAIMED = {
 'C01': ('model_checking', 'Bounded model checking of parse(format(v)) == v on the real constructors, formatter, parser and ==: value shapes and numbers enumerated (all 30 constructors, nestings, 4 punctuations, 8 stamps, truths, budgets), atom names symbolic (all well-formed 1-char names; thorough: 2-char) in all 3 formats. Holds for every name within those shapes; deeper nesting and longer names are outside.', '§4 C01'),
 'C04': ('model_checking', 'Bounded model checking of totality: every string up to N chars over all Unicode scalar values (N per entry point in evidence), formatter-produced samples cut/corrupted at every position, and the error window for every 64-bit cursor value; panics and step-budget overruns are replayed natively.', '§4 C04'),
 'C08': ('model_checking', 'parse_multi vs parse on symbolic histories (every fragment kind with an arbitrary char at every position, all short histories), parse vs parse_chars vs repeated parse on all short strings, lexical parser on a reused vs fresh format instance.', '§4 C08'),
 'C03': ('model_checking', 'Both pipelines (enum parser; lexical parser + fold) executed on the same symbolic text for every value shape incl. the four derived copulas, sentences and tasks, in all three formats; results must agree with each other and with the constructor-built value, for every well-formed 1-char name.', '§4 C03'),
 'C09': ('model_checking', 'Token layouts of value shapes joined with spacing patterns (none / 1 / 2 spaces at every boundary; thorough: k spaces at each single boundary; tab/newline/U+3000 for the lexical pipeline) parsed by the real enum parser and by lexical parser + fold; result must equal the value for every well-formed name.', '§4 C09'),
 'C12': ('model_checking', 'Every Ok result of the enum parser and of lexical parse + fold on all short strings and on corrupted samples is checked against the well-formedness predicate under the path condition (symbolic numbers decided by the solver) and then printed by all three formatters and the Typst renderer.', '§4 C12'),
}
checks = []
for pid in props:
    if pid in CLAIMED:
        cat, text, ref = CLAIMED[pid]
        checks.append({'property_id': pid, 'quick_cmd': 'python3-vt verif.py %s --tier quick' % pid, 'thorough_cmd': 'python3-vt verif.py %s --tier thorough' % pid,
                       'evidence_file': 'evidence/%s.json' % pid, 'replay_cmd_template': 'python3-vt verif.py %s --replay {path}' % pid, 'engine': 'mirsym',
                       'level_claimed': {'category': cat, 'text': text, 'design_ref': ref}, 'level_note': NOTE, 'technique': TECH})
NA = {}
m = {'version': 1, 'setup_cmd': 'python3-vt tools/setup.py',
     'hooks': {'guard': 'cfg(kani)', 'enable': 'no source hooks: checks read the compiler\'s MIR dump of /repo and link an external oracle crate against /repo', 'baseline_off_cmd': 'cd /repo && cargo test --workspace --no-fail-fast --offline', 'source_commits': [], 'add_only': True},
     'engines': [{'name': 'mirsym', 'path': 'mirsym/', 'serves_properties': sorted(CLAIMED), 'kind_free_text': 'symbolic interpreter for rustc textual MIR + z3; native oracle crate for per-path validation and replay'}],
     'checks': checks,
     'notes': 'Genuine defects found and repaired in /repo are listed in known_findings.json (fixed:) with reverse patches under seeded/.',
     'not_applicable': [{'property_id': p, 'reason': NA.get(p, 'check under construction in this session (engine supports the code; see DESIGN.md)')} for p in props if p not in CLAIMED]}
json.dump(m, open(os.path.join(ROOT, 'MANIFEST.json'), 'w'), indent=1)
print('claimed', sorted(CLAIMED))
