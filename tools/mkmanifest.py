#!/usr/bin/env python3
"""(Re)generates MANIFEST.json from the table below."""
import json, os
ROOT = os.path.dirname(os.path.dirname(os.path.abspath(__file__)))
props = [json.loads(l)['id'] for l in open(os.path.join(ROOT, 'properties.jsonl'))]
TECH = 'symbolic execution of the real code (rustc MIR of /repo, regenerated per run) with z3 deciding every branch; counterexamples replayed in the native build'
NOTE = ('Trusted: rustc nightly MIR dump, the mirsym interpreter and its Python models of std APIs (every explored path\'s solver witness is re-run '
        'through the natively compiled crate and must agree, else the check is inconclusive), z3. Bounds are per query in the evidence file.')
CLAIMED = {
 'C01': ('Bounded model checking of parse(format(v)) == v on the real constructors, formatter, parser and ==: value shapes and numbers enumerated (all 30 constructors, nestings, 4 punctuations, 8 stamps, truths, budgets), atom names symbolic (every well-formed 1-char name; thorough: 2-char, all Unicode) in all 3 formats.', 'C01'),
 'C02': ('Lexical formatter + lexical parser (incl. nar_dev_utils dictionaries) executed on directly built lexical values over the format\'s own vocabulary (every keyword in its role, arities, nestings, 0..4 truth/budget entries) with symbolic identifier names; exact structural identity required.', 'C02'),
 'C03': ('Both pipelines (enum parser; lexical parser + fold) executed on the same symbolic text for every value shape incl. the four derived copulas, sentences and tasks, in all three formats; results must agree with each other and with the constructor-built value.', 'C03'),
 'C04': ('Totality: every string up to N chars over all Unicode scalar values through every enum entry point (parse, parse_chars, parse_multi, truth/budget/stamp/punctuation), formatter samples cut/corrupted at every position, and the error window for every 64-bit cursor value; panics and step-budget overruns are replayed natively.', 'C04'),
 'C05': ('Totality of the lexical parser (all short strings, corrupted samples) and of try_fold_into on lexical values with arbitrary strings in every field (unknown keywords, wrong arities, missing/multiple placeholders, NaN/inf/huge/non-numeric numbers, malformed stamps).', 'C05'),
 'C06': ('Real PartialEq for Term on 211 pairs/triples of shapes with symbolic names/numbers: eq <=> reference semantic equality, symmetric, reflexive, transitive; includes the Hash obligation because std set equality depends on it.', 'C06'),
 'C07': ('Real Hash for Term with a collision-free (uninterpreted-function) hasher model: whenever == holds under the path condition the solver must not be able to make the two hash terms differ.', 'C07'),
 'C08': ('parse_multi vs parse on symbolic histories (every fragment kind with an arbitrary char, all short histories), parse vs parse_chars vs repeated parse on all short strings, lexical parser on a reused vs fresh format instance.', 'C08'),
 'C09': ('Token layouts of value shapes joined with spacing patterns (none / 1 / 2 spaces everywhere; thorough: k spaces at each single boundary; tab/newline/U+3000 for the lexical pipeline) parsed by the real enum parser and by lexical parser + fold; result must equal the value.', 'C09'),
 'C10': ('Both pipelines on sugar texts: four derived copulas vs desugaring constructors, images with several placeholders, interval numerals with symbolic digits (solver compares the value), placeholder with identifier suffix.', 'C10'),
 'C11': ('ASCII keyword tables (enum const and lexical instance from the current MIR) equal the OpenNARS lexicon; enum and lexical ASCII formatter outputs are accepted, with the same kind and tree, by a recogniser transcribed from the README PEG and by the real lexical parser (recogniser evaluated on each path witness).', 'C11'),
 'C12': ('Every Ok result of the enum parser and of lexical parse + fold on all short strings and corrupted samples satisfies the well-formedness predicate under the path condition (symbolic numbers decided by the solver) and is printed by all three formatters and the Typst renderer without panic.', 'C12'),
 'C13': ('Truth/Budget constructors, accessors and EvidentNumber (incl. nar_dev_utils ZeroOneFloat) executed on symbolic IEEE doubles in z3\'s FP theory: every bit pattern, arities 0..5; outcome <=> all consumed components in [0,1].', 'C13'),
 'C14': ('All component accessors, extraction, category/capacity and their predicates executed on every constructor shape (images with every index, symbolic index), plus lexical extraction and category vs folded category; mutual consistency against the NAL table.', 'C14'),
 'C15': ('transform_mid_result and lexical MidParseResult::fold on all 32 slot patterns; enum and lexical cast API with symbolic numbers; printed cast tasks parse to tasks with empty budget in both parsers.', 'C15'),
 'C16': ('Typst formatter executed on value shapes with symbolic names: no leading/trailing/doubled whitespace (solver over output chars) and no two semantically different values of ~2700 shape pairs can render equal for any names.', 'C16'),
 'C17': ('set_atom_name / get_atom_name / push_components executed on all 30 constructors with every new name of 0..2 (3) arbitrary chars, boundary numerals, and pushed atoms with arbitrary names; outcome and post-state vs the reference model, unchanged on failure.', 'C17'),
}
CLAIMED = {k: ('model_checking', v[0] + ' Bounded: shapes/lengths/number sets are listed per query in the evidence; within them the solver covers every value.', '§2 ' + v[1]) for k, v in CLAIMED.items()}
checks = []
for pid in props:
    if pid in CLAIMED:
        cat, text, ref = CLAIMED[pid]
        checks.append({'property_id': pid, 'quick_cmd': 'python3-vt verif.py %s --tier quick' % pid, 'thorough_cmd': 'python3-vt verif.py %s --tier thorough' % pid,
                       'evidence_file': 'evidence/%s.json' % pid, 'replay_cmd_template': 'python3-vt verif.py %s --replay {path}' % pid, 'engine': 'mirsym',
                       'level_claimed': {'category': cat, 'text': text, 'design_ref': ref}, 'level_note': NOTE, 'technique': TECH})
NA = {}
m = {'version': 1, 'setup_cmd': 'python3-vt tools/setup.py',
     'hooks': {'guard': 'cfg(kani)', 'enable': 'no source hooks: checks read the compiler\'s MIR dump of /repo and link an external oracle crate against /repo', 'baseline_off_cmd': 'cd /repo && cargo test --workspace --no-fail-fast --offline', 'source_commits': [], 'add_only': True},
     'engines': [{'name': 'mirsym', 'path': 'mirsym/', 'serves_properties': sorted(CLAIMED), 'kind_free_text': 'symbolic interpreter for rustc textual MIR + z3; native oracle crate for per-path validation and replay'}],
     'checks': checks,
     'notes': 'Genuine defects found and repaired in /repo are listed in known_findings.json (fixed:) with reverse patches under seeded/.',
     'not_applicable': [{'property_id': p, 'reason': NA.get(p, 'check under construction in this session (engine supports the code; see DESIGN.md)')} for p in props if p not in CLAIMED]}
json.dump(m, open(os.path.join(ROOT, 'MANIFEST.json'), 'w'), indent=1)
print('claimed', sorted(CLAIMED))
