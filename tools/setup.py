#!/usr/bin/env python3
"""setup: nothing to install; verifies that the offline toolchain pieces the checks need are present."""
import shutil, subprocess, sys
ok = True
for exe in ('cargo', 'rustc', 'python3-vt'):
    if shutil.which(exe) is None: print('missing', exe); ok = False
r = subprocess.run(['python3-vt', '-c', 'import z3; print(z3.get_version_string())'], capture_output=True, text=True)
print('z3', r.stdout.strip()); ok = ok and r.returncode == 0
r = subprocess.run(['rustup', 'toolchain', 'list'], capture_output=True, text=True)
if 'nightly' not in r.stdout: print('nightly toolchain missing'); ok = False
sys.exit(0 if ok else 1)
